package main

import (
	"fmt"
	"go/constant"
	"go/token"
	"go/types"
	"strings"

	"golang.org/x/tools/go/callgraph"
	"golang.org/x/tools/go/ssa"
)

// eachInstr visits every instruction of fn.
func eachInstr(fn *ssa.Function, f func(b *ssa.BasicBlock, i int, in ssa.Instruction)) {
	for _, b := range fn.Blocks {
		for i, in := range b.Instrs {
			f(b, i, in)
		}
	}
}

// callOf returns the CallCommon of a Call/Go/Defer instruction.
func callOf(in ssa.Instruction) *ssa.CallCommon {
	if c, ok := in.(ssa.CallInstruction); ok {
		return c.Common()
	}
	return nil
}

// Callees lists the functions a call instruction may invoke (static callee or
// call-graph edges for dynamic calls).
func (p *Program) Callees(in ssa.CallInstruction) []*ssa.Function {
	if f := in.Common().StaticCallee(); f != nil {
		return []*ssa.Function{f}
	}
	var out []*ssa.Function
	n := p.CG().Nodes[in.Parent()]
	if n == nil {
		return nil
	}
	for _, e := range n.Out {
		if e.Site == in {
			out = append(out, e.Callee.Func)
		}
	}
	return out
}

// Callers lists incoming call-graph edges of fn.
func (p *Program) Callers(fn *ssa.Function) []*callgraph.Edge {
	n := p.CG().Nodes[fn]
	if n == nil {
		return nil
	}
	return n.In
}

// fieldOf returns the struct field a FieldAddr/Field instruction selects.
func fieldOf(v ssa.Value) *types.Var {
	switch x := v.(type) {
	case *ssa.FieldAddr:
		t := x.X.Type().Underlying().(*types.Pointer).Elem().Underlying().(*types.Struct)
		return t.Field(x.Field)
	case *ssa.Field:
		t := x.X.Type().Underlying().(*types.Struct)
		return t.Field(x.Field)
	}
	return nil
}

func deref(t types.Type) types.Type {
	if p, ok := t.Underlying().(*types.Pointer); ok {
		return p.Elem()
	}
	return t
}

func namedOf(t types.Type) *types.Named {
	t = deref(t)
	if n, ok := t.(*types.Named); ok {
		return n
	}
	if a, ok := t.(*types.Alias); ok {
		if n, ok := types.Unalias(a).(*types.Named); ok {
			return n
		}
	}
	return nil
}

func isNamed(t types.Type, pkg, name string) bool {
	n := namedOf(t)
	return n != nil && n.Obj().Name() == name && n.Obj().Pkg() != nil && n.Obj().Pkg().Path() == pkg
}

// structOwner returns the named struct type whose field x selects.
func structOwner(x ssa.Value) *types.Named {
	switch v := x.(type) {
	case *ssa.FieldAddr:
		return namedOf(v.X.Type())
	case *ssa.Field:
		return namedOf(v.X.Type())
	}
	return nil
}

// binding resolves a FreeVar of a closure to the value bound at its (unique)
// MakeClosure site.
func binding(fv *ssa.FreeVar) ssa.Value {
	fn := fv.Parent()
	parent := fn.Parent()
	if parent == nil {
		return nil
	}
	idx := -1
	for i, f := range fn.FreeVars {
		if f == fv {
			idx = i
		}
	}
	var found ssa.Value
	eachInstr(parent, func(_ *ssa.BasicBlock, _ int, in ssa.Instruction) {
		if mc, ok := in.(*ssa.MakeClosure); ok && mc.Fn == fn && idx >= 0 && idx < len(mc.Bindings) {
			found = mc.Bindings[idx]
		}
	})
	return found
}

// storesTo lists the Store instructions (in fn and its closures, transitively
// from the outermost function) whose address is exactly addr-cell (an Alloc).
func storesToAlloc(a *ssa.Alloc) []*ssa.Store {
	var out []*ssa.Store
	root := a.Parent()
	var visit func(fn *ssa.Function)
	visit = func(fn *ssa.Function) {
		eachInstr(fn, func(_ *ssa.BasicBlock, _ int, in ssa.Instruction) {
			if st, ok := in.(*ssa.Store); ok {
				if resolveCell(st.Addr) == ssa.Value(a) {
					out = append(out, st)
				}
			}
		})
		for _, c := range fn.AnonFuncs {
			visit(c)
		}
	}
	visit(root)
	return out
}

// resolveCell maps a FreeVar to the Alloc (or other value) it is bound to.
func resolveCell(v ssa.Value) ssa.Value {
	for {
		fv, ok := v.(*ssa.FreeVar)
		if !ok {
			return v
		}
		b := binding(fv)
		if b == nil {
			return v
		}
		v = b
	}
}

// unwrapLoad: if v is a load from a local cell (Alloc or captured variable)
// that is stored exactly once, return the stored value; otherwise v.
func unwrapLoad(v ssa.Value) ssa.Value {
	for i := 0; i < 8; i++ {
		u, ok := v.(*ssa.UnOp)
		if !ok || u.Op != token.MUL {
			return v
		}
		// field of a local struct variable assigned exactly once
		if fa, ok := u.X.(*ssa.FieldAddr); ok {
			if la, ok := resolveCell(fa.X).(*ssa.Alloc); ok {
				if fv := localFieldValue(la, fa.Field, 0); fv != nil {
					v = fv
					continue
				}
			}
			return v
		}
		cell := resolveCell(u.X)
		a, ok := cell.(*ssa.Alloc)
		if !ok {
			return v
		}
		sts := storesToAlloc(a)
		if len(sts) != 1 {
			return v
		}
		v = sts[0].Val
	}
	return v
}

// localFieldValue: the single value ever stored into field f of the local
// struct variable la (directly, or through one whole-struct copy of another
// local such as a composite literal), or nil.
func localFieldValue(la *ssa.Alloc, f int, depth int) ssa.Value {
	if depth > 3 {
		return nil
	}
	var vals []ssa.Value
	var wholes []ssa.Value
	// the cell and the free variables of closures that are bound to it
	cells := []ssa.Value{la}
	for i := 0; i < len(cells); i++ {
		for _, r := range refs(cells[i]) {
			if mc, ok := r.(*ssa.MakeClosure); ok {
				fn := mc.Fn.(*ssa.Function)
				for j, b := range mc.Bindings {
					if b == cells[i] && j < len(fn.FreeVars) {
						cells = append(cells, fn.FreeVars[j])
					}
				}
			}
		}
	}
	var all []ssa.Instruction
	for _, c := range cells {
		all = append(all, refs(c)...)
	}
	isCell := func(v ssa.Value) bool {
		for _, c := range cells {
			if c == v {
				return true
			}
		}
		return false
	}
	for _, r := range all {
		switch x := r.(type) {
		case *ssa.MakeClosure:
			// capture: the closure's accesses are in the list
		case *ssa.FieldAddr:
			for _, rr := range refs(x) {
				switch y := rr.(type) {
				case *ssa.Store:
					if y.Addr == ssa.Value(x) {
						if x.Field == f {
							vals = append(vals, y.Val)
						}
					} else {
						return nil // the field's address is stored somewhere
					}
				case *ssa.UnOp:
				default:
					if x.Field == f {
						return nil // the field's address escapes
					}
				}
			}
		case *ssa.Store:
			if isCell(x.Addr) {
				wholes = append(wholes, x.Val)
			} else {
				return nil
			}
		case *ssa.UnOp, *ssa.DebugRef:
		default:
			return nil // address escapes
		}
	}
	if len(wholes) == 0 && len(vals) == 1 {
		return vals[0]
	}
	if len(wholes) == 1 && len(vals) == 0 {
		if ld, ok := wholes[0].(*ssa.UnOp); ok && ld.Op == token.MUL {
			if src, ok := ld.X.(*ssa.Alloc); ok {
				return localFieldValue(src, f, depth+1)
			}
		}
	}
	return nil
}

// unwrapField resolves reads of fields of local struct variables that are set
// exactly once (parameter objects, composite literals) to the value stored in
// the field; other loads are left alone.
func unwrapField(v ssa.Value) ssa.Value {
	for i := 0; i < 6; i++ {
		u, ok := v.(*ssa.UnOp)
		if !ok || u.Op != token.MUL {
			return v
		}
		fa, ok := u.X.(*ssa.FieldAddr)
		if !ok {
			return v
		}
		la, ok := resolveCell(fa.X).(*ssa.Alloc)
		if !ok {
			return v
		}
		fv := localFieldValue(la, fa.Field, 0)
		if fv == nil {
			return v
		}
		v = fv
	}
	return v
}

// fieldRead: v reads field `name` of a struct value; base is that struct value.
// Covers x.f on an SSA struct value and on a local struct variable that is
// assigned as a whole exactly once (result := b.(T); … result.f).
func fieldRead(v ssa.Value) (base ssa.Value, name string, ok bool) {
	if ct, isCT := v.(*ssa.ChangeType); isCT {
		v = ct.X
	}
	if f, isF := v.(*ssa.Field); isF {
		return f.X, fieldOf2(f.X.Type(), f.Field), true
	}
	u, isU := v.(*ssa.UnOp)
	if !isU || u.Op != token.MUL {
		return nil, "", false
	}
	fa, isFA := u.X.(*ssa.FieldAddr)
	if !isFA {
		return nil, "", false
	}
	la, isA := resolveCell(fa.X).(*ssa.Alloc)
	if !isA {
		return nil, "", false
	}
	var whole []ssa.Value
	for _, r := range refs(la) {
		switch x := r.(type) {
		case *ssa.Store:
			if x.Addr != ssa.Value(la) {
				return nil, "", false
			}
			whole = append(whole, x.Val)
		case *ssa.FieldAddr:
			for _, rr := range refs(x) {
				if ld, isLoad := rr.(*ssa.UnOp); !isLoad || ld.Op != token.MUL {
					if _, dbg := rr.(*ssa.DebugRef); !dbg {
						return nil, "", false
					}
				}
			}
		case *ssa.UnOp, *ssa.DebugRef:
		default:
			return nil, "", false
		}
	}
	if len(whole) != 1 {
		return nil, "", false
	}
	st := la.Type().Underlying().(*types.Pointer).Elem().Underlying().(*types.Struct)
	return whole[0], st.Field(fa.Field).Name(), true
}

func fieldOf2(t types.Type, i int) string {
	if p, ok := t.Underlying().(*types.Pointer); ok {
		t = p.Elem()
	}
	if st, ok := t.Underlying().(*types.Struct); ok && i < st.NumFields() {
		return st.Field(i).Name()
	}
	return ""
}

// path renders a canonical access path for v so that two evaluations of the
// same expression compare equal (go/ssa does no CSE). Unknown shapes get a
// unique name and therefore never compare equal to anything else.
func path(v ssa.Value) string {
	return pathDepth(v, 0)
}

func pathDepth(v ssa.Value, d int) string {
	if v == nil {
		return "<nil>"
	}
	if d > 12 {
		return uniqueName(v)
	}
	v = unwrapLoad(v)
	switch x := v.(type) {
	case *ssa.Parameter:
		return "param:" + x.Parent().String() + ":" + x.Name()
	case *ssa.FreeVar:
		if b := binding(x); b != nil {
			return pathDepth(b, d+1)
		}
		return uniqueName(v)
	case *ssa.Alloc:
		return "alloc:" + x.Parent().String() + ":" + x.Comment + fmt.Sprintf("@%d", allocOrdinal(x))
	case *ssa.Global:
		return "global:" + x.String()
	case *ssa.Const:
		if x.Value == nil {
			return "nil"
		}
		return "const:" + x.Value.ExactString()
	case *ssa.UnOp:
		if x.Op == token.MUL {
			return pathDepth(x.X, d+1) + ".*"
		}
		return x.Op.String() + "(" + pathDepth(x.X, d+1) + ")"
	case *ssa.IndexAddr:
		return pathDepth(x.X, d+1) + "[&" + pathDepth(x.Index, d+1) + "]"
	case *ssa.Index:
		return pathDepth(x.X, d+1) + "[" + pathDepth(x.Index, d+1) + "]"
	case *ssa.FieldAddr:
		if groupingField(x.X.Type(), fieldOf(x)) {
			// fields of an inventory struct that were grouped into a small struct of
			// their own (embedded or named) keep their old names: x.group.f is x.f
			return pathDepth(x.X, d+1)
		}
		return pathDepth(x.X, d+1) + ".&" + fieldOf(x).Name()
	case *ssa.Field:
		if groupingField(x.X.Type(), fieldOf(x)) {
			return pathDepth(x.X, d+1)
		}
		// a field of a struct value that was loaded whole is the field read in place
		if ld, ok := x.X.(*ssa.UnOp); ok && ld.Op == token.MUL {
			return pathDepth(ld.X, d+1) + ".&" + fieldOf(x).Name() + ".*"
		}
		return pathDepth(x.X, d+1) + "." + fieldOf(x).Name()
	case *ssa.ChangeType:
		return pathDepth(x.X, d+1)
	case *ssa.Convert:
		return "conv[" + x.Type().String() + "](" + pathDepth(x.X, d+1) + ")"
	case *ssa.MakeInterface:
		return pathDepth(x.X, d+1)
	case *ssa.BinOp:
		return "(" + pathDepth(x.X, d+1) + x.Op.String() + pathDepth(x.Y, d+1) + ")"
	case *ssa.Call:
		if x.Call.IsInvoke() {
			s := "invoke:" + x.Call.Method.FullName() + "(" + pathDepth(x.Call.Value, d+1)
			for _, a := range x.Call.Args {
				s += "," + pathDepth(a, d+1)
			}
			return s + ")"
		}
		if b, ok := x.Call.Value.(*ssa.Builtin); ok {
			s := "builtin:" + b.Name() + "("
			for i, a := range x.Call.Args {
				if i > 0 {
					s += ","
				}
				s += pathDepth(a, d+1)
			}
			return s + ")"
		}
		if f := x.Call.StaticCallee(); f != nil {
			s := "call:" + f.String() + "("
			for i, a := range x.Call.Args {
				if i > 0 {
					s += ","
				}
				s += pathDepth(a, d+1)
			}
			return s + ")"
		}
	case *ssa.Extract:
		return pathDepth(x.Tuple, d+1) + fmt.Sprintf("#%d", x.Index)
	case *ssa.Function:
		return "func:" + x.String()
	}
	return uniqueName(v)
}

func uniqueName(v ssa.Value) string {
	fn := ""
	if p := v.Parent(); p != nil {
		fn = p.String()
	}
	return "val:" + fn + ":" + v.Name()
}

func allocOrdinal(a *ssa.Alloc) int {
	n := 0
	found := -1
	eachInstr(a.Parent(), func(_ *ssa.BasicBlock, _ int, in ssa.Instruction) {
		if o, ok := in.(*ssa.Alloc); ok && o.Comment == a.Comment {
			if o == a {
				found = n
			}
			n++
		}
	})
	if found < 0 {
		for i, l := range a.Parent().Locals {
			if l == a {
				return 1000 + i
			}
		}
	}
	return found
}

// constString returns the constant string value of v, if any.
func constString(v ssa.Value) (string, bool) {
	c, ok := v.(*ssa.Const)
	if !ok || c.Value == nil || c.Value.Kind() != constant.String {
		return "", false
	}
	return constant.StringVal(c.Value), true
}

func constInt(v ssa.Value) (int64, bool) {
	c, ok := v.(*ssa.Const)
	if !ok || c.Value == nil || c.Value.Kind() != constant.Int {
		return 0, false
	}
	n, ok := constant.Int64Val(c.Value)
	return n, ok
}

func isNilConst(v ssa.Value) bool {
	c, ok := v.(*ssa.Const)
	return ok && c.Value == nil
}

// --- branch facts -----------------------------------------------------------

// Fact is a branch condition known to hold (Cond evaluated to Truth).
type Fact struct {
	Cond  ssa.Value
	Truth bool
}

// factsAt returns the branch conditions that hold on every path from the
// entry of b's function to the start of block b (forward must-dataflow:
// IN[b] = ∩ over predecessors p of OUT[p] ∪ edge(p→b)). SSA values are
// immutable, so facts are never killed; facts about *loads* speak about that
// load only and the rules that use them check for intervening stores.
type factTable struct {
	in map[*ssa.BasicBlock]map[Fact]bool
}

func computeFacts(fn *ssa.Function) *factTable {
	ft := &factTable{in: map[*ssa.BasicBlock]map[Fact]bool{}}
	if len(fn.Blocks) == 0 {
		return ft
	}
	// nil map == TOP (unvisited)
	ft.in[fn.Blocks[0]] = map[Fact]bool{}
	changed := true
	for iter := 0; changed && iter < 100; iter++ {
		changed = false
		for _, b := range fn.Blocks {
			if b.Index == 0 {
				continue
			}
			var acc map[Fact]bool
			first := true
			for _, p := range b.Preds {
				pin, ok := ft.in[p]
				if !ok {
					continue // TOP
				}
				out := map[Fact]bool{}
				for f := range pin {
					out[f] = true
				}
				if iff, ok := p.Instrs[len(p.Instrs)-1].(*ssa.If); ok {
					if p.Succs[0] == b && p.Succs[1] != b {
						addCondFacts(out, iff.Cond, true)
					} else if p.Succs[1] == b && p.Succs[0] != b {
						addCondFacts(out, iff.Cond, false)
					}
				}
				if first {
					acc = out
					first = false
				} else {
					for f := range acc {
						if !out[f] {
							delete(acc, f)
						}
					}
				}
			}
			if first {
				continue
			}
			old, had := ft.in[b]
			if !had || len(old) != len(acc) {
				ft.in[b] = acc
				changed = true
			}
		}
	}
	return ft
}

// addCondFacts records cond==truth and, for !x, x==!truth.
func addCondFacts(m map[Fact]bool, cond ssa.Value, truth bool) {
	addCondFactsDepth(m, cond, truth, 0)
}

func addCondFactsDepth(m map[Fact]bool, cond ssa.Value, truth bool, d int) {
	m[Fact{cond, truth}] = true
	if d > 6 {
		return
	}
	if u, ok := cond.(*ssa.UnOp); ok && u.Op == token.NOT {
		addCondFactsDepth(m, u.X, !truth, d+1)
	}
	// a boolean that was computed by short-circuit evaluation and kept in a
	// variable (`outOfRange := a || b; if outOfRange …`): the phi [true, …, b]
	// being false means every operand was false; [false, …, b] being true means
	// every operand was true
	ph, ok := cond.(*ssa.Phi)
	if !ok {
		return
	}
	var last ssa.Value
	var lastPred *ssa.BasicBlock
	for i, e := range ph.Edges {
		c, isC := e.(*ssa.Const)
		if isC && c.Value != nil && c.Value.Kind() == constant.Bool {
			if constant.BoolVal(c.Value) == truth {
				return // this edge alone makes the phi `truth`: nothing follows about the operands
			}
			continue
		}
		if last != nil {
			return // more than one computed edge: not the short-circuit shape
		}
		last, lastPred = e, ph.Block().Preds[i]
	}
	if last == nil {
		return
	}
	// the phi has the value `truth` only via the computed edge
	addCondFactsDepth(m, last, truth, d+1)
	// and the operands before it: walking up from the block that computed the last operand, each
	// single predecessor ending in an If that sent us on because its condition was != the
	// short-circuit constant
	b := lastPred
	for hop := 0; hop < 6 && b != nil && len(b.Preds) == 1; hop++ {
		p := b.Preds[0]
		iff, isIf := p.Instrs[len(p.Instrs)-1].(*ssa.If)
		if !isIf || p.Succs[0] == p.Succs[1] {
			break
		}
		// the other successor of p must lead to the phi's block with the constant edge
		other := p.Succs[0]
		took := false
		if other == b {
			other = p.Succs[1]
			took = true
		}
		if other != ph.Block() {
			break
		}
		addCondFactsDepth(m, iff.Cond, took, d+1)
		b = p
	}
}

// edgeCtx lets a rule evaluate facts "at the end of block pred on the edge to
// succ" (needed for phi operands): while set, At(pred) also returns the
// branch condition of that edge.
var edgeCtx struct {
	block *ssa.BasicBlock
	facts []Fact
}

func withEdge(pred, succ *ssa.BasicBlock, f func()) {
	saved := edgeCtx
	edgeCtx.block = pred
	edgeCtx.facts = nil
	if iff, ok := pred.Instrs[len(pred.Instrs)-1].(*ssa.If); ok && pred.Succs[0] != pred.Succs[1] {
		m := map[Fact]bool{}
		addCondFacts(m, iff.Cond, pred.Succs[0] == succ)
		for k := range m {
			edgeCtx.facts = append(edgeCtx.facts, k)
		}
	}
	defer func() { edgeCtx = saved }()
	f()
}

func (ft *factTable) At(b *ssa.BasicBlock) []Fact {
	var out []Fact
	for f := range ft.in[b] {
		out = append(out, f)
	}
	if edgeCtx.block == b {
		out = append(out, edgeCtx.facts...)
	}
	return out
}

// Reachable reports whether the block was reached by the dataflow.
func (ft *factTable) Reachable(b *ssa.BasicBlock) bool {
	_, ok := ft.in[b]
	return ok
}

// cmpFact decomposes a fact into a comparison "X op Y" that is known to hold
// (negation folded into the operator).
type Cmp struct {
	X, Y ssa.Value
	Op   token.Token
}

func negateOp(op token.Token) token.Token {
	switch op {
	case token.EQL:
		return token.NEQ
	case token.NEQ:
		return token.EQL
	case token.LSS:
		return token.GEQ
	case token.GEQ:
		return token.LSS
	case token.GTR:
		return token.LEQ
	case token.LEQ:
		return token.GTR
	}
	return token.ILLEGAL
}

func flipOp(op token.Token) token.Token {
	switch op {
	case token.LSS:
		return token.GTR
	case token.GTR:
		return token.LSS
	case token.LEQ:
		return token.GEQ
	case token.GEQ:
		return token.LEQ
	}
	return op
}

func (f Fact) Cmp() (Cmp, bool) {
	b, ok := f.Cond.(*ssa.BinOp)
	if !ok {
		return Cmp{}, false
	}
	op := b.Op
	switch op {
	case token.EQL, token.NEQ, token.LSS, token.LEQ, token.GTR, token.GEQ:
	default:
		return Cmp{}, false
	}
	if !f.Truth {
		op = negateOp(op)
	}
	return Cmp{b.X, b.Y, op}, true
}

// errorsIsFact: fact is errors.Is(e, sentinel) == truth; returns e and sentinel.
func (f Fact) ErrorsIs() (e, sentinel ssa.Value, truth bool, ok bool) {
	c, isCall := f.Cond.(*ssa.Call)
	if !isCall || !isLibCall(&c.Call, "errors", "", "Is") || len(c.Call.Args) != 2 {
		return nil, nil, false, false
	}
	return c.Call.Args[0], c.Call.Args[1], f.Truth, true
}

// knownNilness decides from facts whether path-equal value p is known nil /
// non-nil at block b. Returns +1 non-nil, -1 nil, 0 unknown.
func nilnessOf(facts []Fact, p string) int {
	for _, f := range facts {
		c, ok := f.Cmp()
		if !ok {
			continue
		}
		var other ssa.Value
		if path(c.X) == p {
			other = c.Y
		} else if path(c.Y) == p {
			other = c.X
		} else {
			continue
		}
		if !isNilConst(other) {
			continue
		}
		if c.Op == token.NEQ {
			return 1
		}
		if c.Op == token.EQL {
			return -1
		}
	}
	return 0
}

// instrIndex returns the index of in within its block.
func instrIndex(in ssa.Instruction) int {
	for i, x := range in.Block().Instrs {
		if x == in {
			return i
		}
	}
	return -1
}

// dominatesInstr: a executes before b on every path to b.
func dominatesInstr(a, b ssa.Instruction) bool {
	if a.Block() == b.Block() {
		return instrIndex(a) < instrIndex(b)
	}
	return a.Block().Dominates(b.Block())
}

// reachesWithout reports whether `to` is reachable from the point just after
// `from` without passing through a block in which `barrier` holds for some
// instruction (used for "no intervening X").
func blockReaches(from, to *ssa.BasicBlock) bool {
	seen := map[*ssa.BasicBlock]bool{}
	var dfs func(b *ssa.BasicBlock) bool
	dfs = func(b *ssa.BasicBlock) bool {
		if b == to {
			return true
		}
		if seen[b] {
			return false
		}
		seen[b] = true
		for _, s := range b.Succs {
			if dfs(s) {
				return true
			}
		}
		return false
	}
	for _, s := range from.Succs {
		if dfs(s) {
			return true
		}
	}
	return false
}

// inCycle reports whether block b lies on a CFG cycle.
func inCycle(b *ssa.BasicBlock) bool {
	return blockReaches(b, b)
}

func typeString(t types.Type) string {
	return types.TypeString(t, func(p *types.Package) string { return p.Name() })
}

func trimPkg(s string) string {
	return strings.ReplaceAll(s, "servitor/", "")
}

// referrers of v that are not DebugRefs.
func refs(v ssa.Value) []ssa.Instruction {
	r := v.Referrers()
	if r == nil {
		return nil
	}
	var out []ssa.Instruction
	for _, in := range *r {
		if _, ok := in.(*ssa.DebugRef); ok {
			continue
		}
		out = append(out, in)
	}
	return out
}

// ---- seeing through single-purpose helpers -------------------------------------

// callEnv binds the parameters of an inlined-for-analysis helper to the
// arguments of the call being looked through.
type callEnv map[*ssa.Parameter]ssa.Value

func (e callEnv) resolve(v ssa.Value) ssa.Value {
	for i := 0; i < 8; i++ {
		p, ok := v.(*ssa.Parameter)
		if !ok || e == nil {
			return v
		}
		a, ok := e[p]
		if !ok {
			return v
		}
		v = a
	}
	return v
}

// seeThrough: v is result #idx of a call of a servitor function all of whose
// returns agree on one SSA value for that result (typically a helper with a
// single return statement); returns that value and the parameter binding.
func seeThrough(P *Program, v ssa.Value, outer callEnv) (ssa.Value, callEnv, bool) {
	idx := 0
	var call *ssa.Call
	switch x := v.(type) {
	case *ssa.Call:
		call = x
	case *ssa.Extract:
		c, ok := x.Tuple.(*ssa.Call)
		if !ok {
			return nil, nil, false
		}
		call, idx = c, x.Index
	default:
		return nil, nil, false
	}
	sc := call.Call.StaticCallee()
	if sc == nil || !P.IsServitorFunc(sc) || len(sc.Blocks) == 0 {
		return nil, nil, false
	}
	var ret ssa.Value
	for _, b := range sc.Blocks {
		r, ok := b.Instrs[len(b.Instrs)-1].(*ssa.Return)
		if !ok || idx >= len(r.Results) {
			continue
		}
		if ret != nil && r.Results[idx] != ret {
			return nil, nil, false
		}
		ret = r.Results[idx]
	}
	if ret == nil {
		return nil, nil, false
	}
	env := callEnv{}
	for i, p := range sc.Params {
		if i < len(call.Call.Args) {
			env[p] = outer.resolve(call.Call.Args[i])
		}
	}
	return ret, env, true
}

// slotAddrOf: the element address a store writes to — `xs[i] = v` directly, or
// through a pointer variable that was set exactly once, to the address of an
// element (`slot := &xs[i]` before a goroutine is started, `*slot = v` in it).
func slotAddrOf(addr ssa.Value) *ssa.IndexAddr {
	for d := 0; d < 4; d++ {
		if ia, ok := addr.(*ssa.IndexAddr); ok {
			return ia
		}
		u, ok := addr.(*ssa.UnOp)
		if !ok || u.Op != token.MUL {
			return nil
		}
		al, ok := resolveCell(u.X).(*ssa.Alloc)
		if !ok {
			return nil
		}
		sts := storesToAlloc(al)
		if len(sts) != 1 {
			return nil
		}
		addr = sts[0].Val
	}
	return nil
}

// effectivelyConstGlobal: a package-level variable of the module that is
// written by its package's initialiser only and of which the rest of the
// program only ever reads — elements of a table (map lookup, index, range,
// len) or the value handed to a read-only library function. Such a variable is
// a constant table for every run of the program.
func effectivelyConstGlobal(P *Program, g *ssa.Global) bool {
	key := "constglobal:" + g.String()
	if v, ok := P.cache[key]; ok {
		return v.(bool)
	}
	readOnlyUse := func(v ssa.Value) bool {
		for _, r := range refs(v) {
			switch x := r.(type) {
			case *ssa.Lookup:
				if x.X != v {
					return false
				}
			case *ssa.Index:
			case *ssa.Range:
			case *ssa.IndexAddr:
				for _, rr := range refs(x) {
					if u, ok := rr.(*ssa.UnOp); !ok || u.Op != token.MUL {
						return false
					}
				}
			case *ssa.Call:
				if b, ok := x.Call.Value.(*ssa.Builtin); ok && (b.Name() == "len" || b.Name() == "cap") {
					continue
				}
				f := calleeObj(&x.Call)
				if f == nil || f.Pkg() == nil {
					return false
				}
				switch f.Pkg().Path() + "." + f.Name() {
				case "slices.Contains", "slices.Index", "golang.org/x/exp/slices.Contains", "golang.org/x/exp/slices.Index", "strings.Join":
				default:
					return false
				}
			case *ssa.DebugRef:
			default:
				return false
			}
		}
		return true
	}
	ok := true
	for _, fn := range P.Funcs {
		if !ok {
			break
		}
		isInit := fn.Synthetic != "" && fn.Name() == "init" && fn.Pkg == g.Pkg
		eachInstr(fn, func(_ *ssa.BasicBlock, _ int, in ssa.Instruction) {
			if !ok {
				return
			}
			for _, op := range in.Operands(nil) {
				if op == nil || *op != ssa.Value(g) {
					continue
				}
				if isInit {
					continue
				}
				u, isLoad := in.(*ssa.UnOp)
				if !isLoad || u.Op != token.MUL || !readOnlyUse(u) {
					ok = false
				}
			}
		})
	}
	if P.cache == nil {
		P.cache = map[string]any{}
	}
	P.cache[key] = ok
	return ok
}

// loadedField: v is the value of a struct field read from memory or from a
// struct value; the field.
func loadedField(v ssa.Value) *types.Var {
	switch x := v.(type) {
	case *ssa.UnOp:
		if x.Op == token.MUL {
			if fa, ok := x.X.(*ssa.FieldAddr); ok {
				return fieldOf(fa)
			}
		}
	case *ssa.Field:
		if st, ok := x.X.Type().Underlying().(*types.Struct); ok {
			return st.Field(x.Field)
		}
	}
	return nil
}

// fieldStores: every store into field f in the module (composite literals
// included: they are stores into the fields of a fresh allocation).
func storesToField(P *Program, f *types.Var) []*ssa.Store {
	key := "fieldstores"
	m, ok := P.cache[key].(map[*types.Var][]*ssa.Store)
	if !ok {
		m = map[*types.Var][]*ssa.Store{}
		for _, fn := range P.Funcs {
			eachInstr(fn, func(_ *ssa.BasicBlock, _ int, in ssa.Instruction) {
				if st, ok := in.(*ssa.Store); ok {
					if fa, ok := st.Addr.(*ssa.FieldAddr); ok {
						fv := fieldOf(fa)
						m[fv] = append(m[fv], st)
					}
				}
			})
		}
		P.cache[key] = m
	}
	return m[f]
}

// nonNegStored: the integer v cannot be negative by its nature (a length, a
// non-negative constant, an unsigned value, or a phi of such).
func nonNegStored(v ssa.Value, d int) bool {
	if ph, ok := v.(*ssa.Phi); ok && d < 4 {
		for _, e := range ph.Edges {
			if !nonNegStored(e, d+1) {
				return false
			}
		}
		return true
	}
	return proveNonNeg(lin(v), nil, unsignedSymbolsOf(v))
}

// groupingField: field f of the struct behind t groups former fields of that
// struct: the owner is a struct of the inventory, the field's type is a struct
// type of the same package that the inventory does not know, and none of its
// field names is a field of the owner.
func groupingField(t types.Type, f *types.Var) bool {
	owner := namedOf(t)
	if owner == nil || owner.Obj().Pkg() == nil || !anchorTypes[owner.Obj().Pkg().Path()+"."+owner.Obj().Name()] {
		return false
	}
	inner, ok := f.Type().(*types.Named)
	if !ok || inner.Obj().Pkg() != owner.Obj().Pkg() || anchorTypes[inner.Obj().Pkg().Path()+"."+inner.Obj().Name()] {
		return false
	}
	if _, known := anchorSigs["field:"+owner.Obj().Pkg().Path()+"."+owner.Obj().Name()+"."+f.Name()]; known {
		return false // a field the inventory has under this name (its type merely got a name)
	}
	ist, ok := inner.Underlying().(*types.Struct)
	if !ok {
		return false
	}
	ost, ok := owner.Underlying().(*types.Struct)
	if !ok {
		return false
	}
	for i := 0; i < ist.NumFields(); i++ {
		for j := 0; j < ost.NumFields(); j++ {
			if ist.Field(i).Name() == ost.Field(j).Name() {
				return false
			}
		}
	}
	return true
}
