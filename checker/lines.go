package main

import (
	"fmt"
	"go/constant"
	"go/token"
	"go/types"
	"strings"

	"golang.org/x/tools/go/ssa"
)

// E8 — a line-count domain. The number of lines of a string (newlines + 1)
// and the length of a slice of lines are abstracted to linear forms over
// symbols (one per parameter / opaque value), evaluated along one acyclic path
// of a function with the branch facts of that path as hypotheses. The transfer
// functions are summaries of the handful of library functions the layout code
// is written with:
//
//	"lit"                         newlines(lit) + 1
//	a + b                         L(a) + L(b) - 1
//	strings.Repeat(c, n)          newlines(c)·n + 1            (n >= 0 must be provable)
//	strings.Count(x, "\n")        L(x) - 1
//	strings.Split(x, "\n")        a slice of L(x) newline-free strings
//	s[lo:hi]                      hi - lo elements             (0 <= lo <= hi <= len must be provable)
//	strings.Join(s, "\n")         len(s) if len(s) >= 1 is provable, 1 if len(s) <= 0 is provable
//	x[:strings.LastIndex(x,"\n")] L(x) - 1 on the path where the index is not -1
//	strings.LastIndex(x,"\n")==-1 L(x) = 1 on that path, L(x) >= 2 on the other
//	strings.Contains(x,"\n")      false: L(x) = 1; true: L(x) >= 2
//	unsigned a - b                a - b, provided a >= b is provable (no wrap-around)
//	x / k, x % k                  symbols q, r with k·q + r = x, 0 <= r <= k-1
//
// Anything else is an opaque symbol (>= 1 for strings, >= 0 for lengths), so a
// claim that depends on it cannot be proved and is reported.

type lcPath struct {
	P        *Program
	fn       *ssa.Function
	blocks   []*ssa.BasicBlock
	facts    []Fact
	hyps     []linForm
	unsigned map[string]bool
	problems []string // side conditions that could not be established on this path
	summary  func(call *ssa.Call) (linForm, bool)
	// opaque: loop heads on the path whose phis stand for their value at the
	// LAST visit of the head (an acyclic path through a loop is the loop-erased
	// trace of an execution: every block but a loop head is entered from its
	// predecessor on the path, a head may have been entered from a back edge)
	opaque map[*ssa.BasicBlock]bool
	// the loop heads of fn: a phi of a head in the middle of the path is never
	// resolved through the path's predecessor (see opaque)
	strictLoops map[*ssa.BasicBlock]bool
	// fwd: loads on the path that read what a store earlier on the path wrote
	// (a field of the receiver written and read again in one operation)
	fwd map[ssa.Value]ssa.Value
}

// newLcPath prepares the context of one path; install a summary and
// assumptions, then call useFacts to turn the path's branch facts into
// hypotheses.
func newLcPath(P *Program, fn *ssa.Function, pf pathFacts) *lcPath {
	return &lcPath{P: P, fn: fn, blocks: pf.blocks, facts: pf.facts, unsigned: map[string]bool{}}
}

func (c *lcPath) assume(g linForm) { c.hyps = append(c.hyps, g) }

func lcGE(f linForm, k int64) linForm {
	g := f.add(newLin(), 0)
	g.c -= k
	return g
}

func (c *lcPath) assumeEq(f linForm, k int64) {
	g := lcGE(f, k)
	c.hyps = append(c.hyps, g, newLin().add(g, -1))
}

func (c *lcPath) useFacts() {
	for _, f := range c.facts {
		if cmp, ok := f.Cmp(); ok && isInteger(cmp.X.Type()) {
			a, b := c.num(cmp.X), c.num(cmp.Y)
			switch cmp.Op {
			case token.GTR:
				c.assume(lcGE(a.add(b, -1), 1))
			case token.GEQ:
				c.assume(a.add(b, -1))
			case token.LSS:
				c.assume(lcGE(b.add(a, -1), 1))
			case token.LEQ:
				c.assume(b.add(a, -1))
			case token.EQL:
				c.assume(a.add(b, -1))
				c.assume(b.add(a, -1))
			case token.NEQ:
				// x != 0 for a quantity that cannot be negative: x >= 1
				if b.isConst() && b.c == 0 && nonNegByNature(a, c.unsigned) {
					c.assume(lcGE(a, 1))
				} else if a.isConst() && a.c == 0 && nonNegByNature(b, c.unsigned) {
					c.assume(lcGE(b, 1))
				}
			}
			// strings.LastIndex(x, "\n") == -1  <=>  L(x) == 1
			for _, side := range [][2]ssa.Value{{cmp.X, cmp.Y}, {cmp.Y, cmp.X}} {
				k, isC := constInt(side[1])
				call, isCall := c.at(side[0]).(*ssa.Call)
				if !isC || k != -1 || !isCall || !(isLibCall(&call.Call, "strings", "", "LastIndex") || isLibCall(&call.Call, "strings", "", "Index")) {
					continue
				}
				if s, ok := constString(call.Call.Args[1]); !ok || s != "\n" {
					continue
				}
				l := c.str(call.Call.Args[0])
				switch cmp.Op {
				case token.EQL:
					c.assumeEq(l, 1)
				case token.NEQ:
					c.assume(lcGE(l, 2))
				}
			}
		}
		// strings.Contains(x, "\n")
		if call, ok := f.Cond.(*ssa.Call); ok && isLibCall(&call.Call, "strings", "", "Contains") {
			if s, ok := constString(call.Call.Args[1]); ok && s == "\n" {
				l := c.str(call.Call.Args[0])
				if f.Truth {
					c.assume(lcGE(l, 2))
				} else {
					c.assumeEq(l, 1)
				}
			}
		}
	}
}

func (c *lcPath) problem(format string, args ...any) {
	c.problems = append(c.problems, fmt.Sprintf(format, args...))
}

// at resolves loads of single-assignment cells and phis along the path.
func (c *lcPath) at(v ssa.Value) ssa.Value {
	for i := 0; i < 12; i++ {
		if w, ok := c.fwd[v]; ok {
			v = w
			continue
		}
		v = unwrapLoad(v)
		ph, ok := v.(*ssa.Phi)
		if !ok || c.opaque[ph.Block()] {
			return v
		}
		if c.strictLoops == nil {
			c.strictLoops = loopHeads(c.fn)
		}
		if hb := ph.Block(); c.strictLoops[hb] && len(c.blocks) > 0 && hb != c.blocks[0] && hb != c.blocks[len(c.blocks)-1] {
			return v
		}
		pos := -1
		for j := len(c.blocks) - 1; j >= 1; j-- {
			if c.blocks[j] == ph.Block() {
				pos = j
				break
			}
		}
		if pos < 1 {
			return v
		}
		found := false
		for k, p := range ph.Block().Preds {
			if p == c.blocks[pos-1] {
				v = ph.Edges[k]
				found = true
				break
			}
		}
		if !found {
			return v
		}
	}
	return v
}

func (c *lcPath) sym(prefix string, v ssa.Value, min int64) linForm {
	r := newLin()
	s := prefix + normSym(v)
	r.coef[s] = 1
	c.unsigned[s] = true // never negative
	if min > 0 {
		g := r.add(newLin(), 0)
		g.c -= min
		c.hyps = append(c.hyps, g)
	}
	return r
}

func (c *lcPath) nonNeg(g linForm) bool {
	if proveNonNeg3(g, c.hyps, c.unsigned) {
		return true
	}
	g2, hyps2 := eliminateEqualities(g, c.hyps, c.unsigned)
	return proveNonNeg3(g2, hyps2, c.unsigned)
}

// eliminateEqualities uses the equalities among the hypotheses (a form and
// its negation both present) to substitute symbols away, Gaussian style, in
// the goal and in the remaining hypotheses. A substituted symbol that was
// non-negative by nature keeps that property as an explicit hypothesis.
func eliminateEqualities(g linForm, hyps []linForm, unsignedSyms map[string]bool) (linForm, []linForm) {
	hs := append([]linForm{}, hyps...)
	key := func(f linForm) string { return f.String() }
	for round := 0; round < 12; round++ {
		idx := map[string]int{}
		for i, h := range hs {
			idx[key(h)] = i
		}
		var eq *linForm
		sym := ""
		for _, h := range hs {
			if len(h.coef) == 0 {
				continue
			}
			if _, ok := idx[key(newLin().add(h, -1))]; !ok {
				continue
			}
			// prefer a symbol with coefficient +-1
			for s2, k := range h.coef {
				if k == 1 || k == -1 {
					hh := h
					eq, sym = &hh, s2
					break
				}
			}
			if eq != nil {
				break
			}
		}
		if eq == nil {
			break
		}
		k := eq.coef[sym]
		// sym = -(eq - k·sym)/k ; with k = +-1: sym = rest·(-k)
		rest := eq.add(newLin(), 0)
		delete(rest.coef, sym)
		expr := newLin().add(rest, -k)
		subst := func(f linForm) linForm {
			c0, ok := f.coef[sym]
			if !ok {
				return f
			}
			r := f.add(newLin(), 0)
			delete(r.coef, sym)
			return r.add(expr, c0)
		}
		g = subst(g)
		var next []linForm
		negKey := key(newLin().add(*eq, -1))
		eqKey := key(*eq)
		for _, h := range hs {
			if kk := key(h); kk == eqKey || kk == negKey {
				continue
			}
			next = append(next, subst(h))
		}
		if unsignedSyms[sym] || strings.HasPrefix(sym, "len(") {
			next = append(next, expr)
		}
		hs = next
	}
	return g, hs
}

func (c *lcPath) infeasible() bool {
	g := newLin()
	g.c = -1
	return c.nonNeg(g)
}

// num: the value of an integer expression as a linear form.
func (c *lcPath) num(v ssa.Value) linForm {
	return c.numD(v, 0)
}

func (c *lcPath) numD(v ssa.Value, d int) linForm {
	v = c.at(v)
	r := newLin()
	if d > 16 {
		r.coef[normSym(v)] = 1
		return r
	}
	switch x := v.(type) {
	case *ssa.Const:
		if k, ok := constInt(x); ok {
			r.c = k
			return r
		}
	case *ssa.Convert:
		if isInteger(x.X.Type()) && isInteger(x.Type()) {
			return c.numD(x.X, d+1)
		}
	case *ssa.ChangeType:
		return c.numD(x.X, d+1)
	case *ssa.BinOp:
		// the index variable of a range loop (phi + 1) is one non-negative symbol
		if ph, ok := x.X.(*ssa.Phi); ok && ph.Comment == "rangeindex" && x.Op == token.ADD {
			if k, ok := constInt(x.Y); ok && k == 1 {
				r.coef["rangeidx:"+normSym(v)] = 1
				return r
			}
		}
		a, b := func() linForm { return c.numD(x.X, d+1) }, func() linForm { return c.numD(x.Y, d+1) }
		switch x.Op {
		case token.ADD:
			return a().add(b(), 1)
		case token.SUB:
			av, bv := a(), b()
			if bt, ok := x.Type().Underlying().(*types.Basic); ok && bt.Info()&types.IsUnsigned != 0 {
				if !c.nonNeg(av.add(bv, -1)) {
					c.problem("the unsigned subtraction at %s can wrap around on this path", c.P.InstrPos(x))
				}
			}
			return av.add(bv, -1)
		case token.MUL:
			if k, ok := constInt(c.at(x.Y)); ok {
				return newLin().add(a(), k)
			}
			if k, ok := constInt(c.at(x.X)); ok {
				return newLin().add(b(), k)
			}
		case token.QUO, token.REM:
			if k, ok := constInt(c.at(x.Y)); ok && k >= 2 {
				av := a()
				key := av.String()
				q, rm := newLin(), newLin()
				qs, rs := fmt.Sprintf("quo(%s,%d)", key, k), fmt.Sprintf("rem(%s,%d)", key, k)
				q.coef[qs], rm.coef[rs] = 1, 1
				if !c.unsigned[qs] {
					// x = k·q + r, 0 <= r <= k-1 (operands non-negative: checked)
					if !c.nonNeg(av) {
						c.problem("the dividend at %s is not known to be non-negative", c.P.InstrPos(x))
					}
					c.unsigned[qs], c.unsigned[rs] = true, true
					e := newLin().add(q, k).add(rm, 1).add(av, -1)
					c.hyps = append(c.hyps, e, newLin().add(e, -1))
					up := newLin().add(rm, -1)
					up.c = k - 1
					c.hyps = append(c.hyps, up)
				}
				if x.Op == token.QUO {
					return q
				}
				return rm
			}
		}
	case *ssa.UnOp:
		if x.Op == token.SUB {
			return newLin().add(c.numD(x.X, d+1), -1)
		}
	case *ssa.Call:
		if b, ok := x.Call.Value.(*ssa.Builtin); ok && b.Name() == "len" {
			arg := x.Call.Args[0]
			if isStringType(arg.Type()) {
				break
			}
			if n, ok := c.slice(arg); ok {
				return n
			}
		}
		if isLibCall(&x.Call, "strings", "", "Count") {
			if s, ok := constString(x.Call.Args[1]); ok && s == "\n" {
				l := c.str(x.Call.Args[0])
				l.c--
				return l
			}
		}
		if c.summary != nil {
			if f, ok := c.summary(x); ok && isInteger(x.Type()) {
				return f
			}
		}
	}
	r.coef[normSym(v)] = 1
	if bt, ok := v.Type().Underlying().(*types.Basic); ok && bt.Info()&types.IsUnsigned != 0 {
		c.unsigned[normSym(v)] = true
	}
	return r
}

func newlineCount(s string) int64 { return int64(strings.Count(s, "\n")) }

// str: the number of lines of a string value.
func (c *lcPath) str(v ssa.Value) linForm { return c.strD(v, 0) }

func (c *lcPath) strD(v ssa.Value, d int) linForm {
	v = c.at(v)
	if d > 24 {
		return c.sym("L:", v, 1)
	}
	switch x := v.(type) {
	case *ssa.Const:
		if x.Value != nil && x.Value.Kind() == constant.String {
			r := newLin()
			r.c = newlineCount(constant.StringVal(x.Value)) + 1
			return r
		}
	case *ssa.BinOp:
		if x.Op == token.ADD {
			r := c.strD(x.X, d+1).add(c.strD(x.Y, d+1), 1)
			r.c--
			return r
		}
	case *ssa.ChangeType:
		return c.strD(x.X, d+1)
	case *ssa.Slice:
		// x[:strings.LastIndex(x, "\n")] and x[:0]
		if isStringType(x.X.Type()) && x.Low == nil && x.High != nil {
			hi := c.at(x.High)
			if k, ok := constInt(hi); ok && k == 0 {
				r := newLin()
				r.c = 1
				return r
			}
			if call, ok := hi.(*ssa.Call); ok && isLibCall(&call.Call, "strings", "", "LastIndex") && c.at(call.Call.Args[0]) == c.at(x.X) {
				if s, ok := constString(call.Call.Args[1]); ok && s == "\n" {
					l := c.strD(x.X, d+1)
					two := l.add(newLin(), 0)
					two.c -= 2
					if c.nonNeg(two) {
						l.c--
						return l
					}
					c.problem("the text cut at its last line feed at %s is not known to have one", c.P.InstrPos(x))
				}
			}
		}
	case *ssa.Call:
		switch {
		case isLibCall(&x.Call, "strings", "", "Repeat"):
			if s, ok := constString(x.Call.Args[0]); ok {
				n := c.num(x.Call.Args[1])
				if !c.nonNeg(n) {
					c.problem("the count of strings.Repeat at %s is not known to be non-negative", c.P.InstrPos(x))
				}
				r := newLin().add(n, newlineCount(s))
				r.c++
				return r
			}
		case isLibCall(&x.Call, "strings", "", "Join"):
			if sep, ok := constString(x.Call.Args[1]); ok && sep == "\n" {
				if n, clean := c.sliceInfo(x.Call.Args[0]); clean {
					one := n.add(newLin(), 0)
					one.c--
					if c.nonNeg(one) {
						return n
					}
					if c.nonNeg(newLin().add(n, -1)) {
						r := newLin()
						r.c = 1
						return r
					}
					c.problem("strings.Join at %s joins a slice that may be empty (%s lines): joining nothing still gives one (empty) line", c.P.InstrPos(x), n.String())
				}
			}
		default:
			if c.summary != nil {
				if f, ok := c.summary(x); ok && isStringType(x.Type()) {
					return f
				}
			}
		}
	}
	return c.sym("L:", v, 1)
}

// slice: the length of a slice value.
func (c *lcPath) slice(v ssa.Value) (linForm, bool) {
	n, _ := c.sliceInfo(v)
	return n, true
}

// sliceInfo: length, and whether every element is known to be a single line.
func (c *lcPath) sliceInfo(v ssa.Value) (linForm, bool) {
	v = c.at(v)
	switch x := v.(type) {
	case *ssa.Call:
		if isLibCall(&x.Call, "strings", "", "Split") {
			if sep, ok := constString(x.Call.Args[1]); ok && sep == "\n" {
				return c.str(x.Call.Args[0]), true
			}
		}
	case *ssa.Slice:
		if _, isSlice := x.X.Type().Underlying().(*types.Slice); isSlice {
			n, clean := c.sliceInfo(x.X)
			lo, hi := newLin(), n
			if x.Low != nil {
				lo = c.num(x.Low)
			}
			if x.High != nil {
				hi = c.num(x.High)
			}
			// 0 <= lo <= hi <= len, else the expression panics
			if !c.nonNeg(lo) || !c.nonNeg(hi.add(lo, -1)) || !c.nonNeg(n.add(hi, -1)) {
				c.problem("the slice bounds at %s are not known to be within the %s lines (slice bounds out of range)", c.P.InstrPos(x), n.String())
			}
			return hi.add(lo, -1), clean
		}
	}
	switch v.(type) {
	case *ssa.Call, *ssa.Const, *ssa.MakeSlice, *ssa.Slice:
		// append(…), nil, make, a slice of an array: lengths that are known
		if n, ok := lenOfSlice(c, v, 0); ok {
			return n, false
		}
	}
	return c.sym("len:", v, 0), false
}

// proveNonNeg3: as proveNonNeg, with up to three hypotheses combined.
func proveNonNeg3(g linForm, hyps []linForm, unsignedSyms map[string]bool) bool {
	if proveNonNeg(g, hyps, unsignedSyms) {
		return true
	}
	for i, h1 := range hyps {
		g1 := g.add(h1, -1)
		for j := i; j < len(hyps); j++ {
			g2 := g1.add(hyps[j], -1)
			for k := j; k < len(hyps); k++ {
				if nonNegByNature(g2.add(hyps[k], -1), unsignedSyms) {
					return true
				}
			}
		}
	}
	return false
}

// proveEq: f == 0 under the hypotheses.
func (c *lcPath) proveEq(f linForm) bool {
	return c.nonNeg(f) && c.nonNeg(newLin().add(f, -1))
}

// loopHeads: the blocks of fn that have a back edge.
func loopHeads(fn *ssa.Function) map[*ssa.BasicBlock]bool {
	heads := map[*ssa.BasicBlock]bool{}
	for _, b := range fn.Blocks {
		for _, p := range b.Preds {
			if b.Dominates(p) {
				heads[b] = true
			}
		}
	}
	return heads
}

// opaqueLoops makes the phis of every loop head but `except` opaque and
// assumes of each counter among them what its monotonicity gives: a counter
// that only drops round the loop is at most its initial value, one that only
// rises at least.
func (c *lcPath) opaqueLoops(except *ssa.BasicBlock) {
	c.opaque = map[*ssa.BasicBlock]bool{}
	for h := range loopHeads(c.fn) {
		if h != except {
			c.opaque[h] = true
		}
	}
	for h := range c.opaque {
		c.assumeMonotone(h)
	}
}

func (c *lcPath) assumeMonotone(h *ssa.BasicBlock) {
	for _, in := range h.Instrs {
		ph, ok := in.(*ssa.Phi)
		if !ok {
			break
		}
		if !isInteger(ph.Type()) {
			continue
		}
		var init ssa.Value
		nInit, dir, okPhi := 0, 0, true
		for k, p := range h.Preds {
			if !h.Dominates(p) {
				init = ph.Edges[k]
				nInit++
				continue
			}
			b, ok := ph.Edges[k].(*ssa.BinOp)
			if !ok || b.X != ssa.Value(ph) {
				okPhi = false
				break
			}
			n, ok := constInt(b.Y)
			if !ok || (b.Op != token.ADD && b.Op != token.SUB) {
				okPhi = false
				break
			}
			if b.Op == token.SUB {
				n = -n
			}
			d := 0
			if n > 0 {
				d = 1
			} else if n < 0 {
				d = -1
			}
			if d == 0 || dir != 0 && d != dir {
				okPhi = false
				break
			}
			dir = d
		}
		if !okPhi || nInit != 1 || dir == 0 {
			continue
		}
		me := newLin()
		me.coef[normSym(ph)] = 1
		i0 := c.num(init)
		if dir < 0 {
			c.assume(i0.add(me, -1))
			// a counter that starts non-negative and is only lowered where it is known to be large enough stays non-negative
			if c.nonNeg(i0) {
				keeps := true
				for k, p := range h.Preds {
					if !h.Dominates(p) {
						continue
					}
					b := ph.Edges[k].(*ssa.BinOp)
					if !proveNonNeg(lin(b), ineqs(factsOf(c.fn).At(p)), nil) {
						keeps = false
					}
				}
				if keeps {
					c.assume(me)
				}
			}
		} else {
			c.assume(me.add(i0, -1))
		}
	}
}
