package main

import (
	"bytes"
	"fmt"
	"go/ast"
	"go/printer"
	"go/token"
	"go/types"
	"strings"

	"golang.org/x/tools/go/ast/astutil"
	"golang.org/x/tools/go/packages"
)

type expansion struct {
	text         string
	consumedNext bool              // the guard statement after the call was absorbed
	addImports   map[string]string // import path -> name: imports the caller's file needs in addition
}

// retClass: what is known, from the helper's own text, about the last (error)
// result of one of its return statements.
type retClass int

const (
	retUnknown retClass = iota
	retNilErr
	retNonNilErr
	retTrue
	retFalse
)

// expandSite produces the replacement text for the statement containing the
// call (and, when the error guard that follows it is threaded, for that guard).
func expandSite(s *inlineSite, k int, overlay map[string][]byte) (*expansion, error) {
	hinfo := s.hpkg.TypesInfo
	cinfo := s.pkg.TypesInfo
	fset := s.pkg.Fset
	suffix := fmt.Sprintf("_inl%d", k)
	helper := s.helper
	sig, ok := hinfo.Defs[helper.Name].Type().(*types.Signature)
	if !ok {
		return nil, fmt.Errorf("no signature")
	}
	// a generic helper: the signature of this call's instantiation, and the type
	// arguments to put in the place of the type parameters in the body
	typeArgs := map[types.Object]types.Type{}
	if helper.Type.TypeParams != nil {
		if s.form == "value" || s.call == nil {
			return nil, fmt.Errorf("generic helper used as a value")
		}
		fun := s.call.Fun
		if ix, isIx := fun.(*ast.IndexExpr); isIx {
			fun = ix.X
		}
		if ix, isIx := fun.(*ast.IndexListExpr); isIx {
			fun = ix.X
		}
		id, _ := fun.(*ast.Ident)
		if sel, isSel := fun.(*ast.SelectorExpr); isSel {
			id = sel.Sel
		}
		inst, have := cinfo.Instances[id]
		isig, isSig := inst.Type.(*types.Signature)
		if id == nil || !have || !isSig || inst.TypeArgs.Len() != sig.TypeParams().Len() {
			return nil, fmt.Errorf("instantiation of the generic helper not found")
		}
		for i := 0; i < sig.TypeParams().Len(); i++ {
			typeArgs[sig.TypeParams().At(i).Obj()] = inst.TypeArgs.At(i)
		}
		sig = isig
	}
	// qualifier for type strings: names as imported in the caller's file
	imports := map[string]string{}
	for _, im := range s.file.Imports {
		p := strings.Trim(im.Path.Value, "\"")
		name := ""
		if im.Name != nil {
			name = im.Name.Name
		} else if ip := s.pkg.Imports[p]; ip != nil {
			name = ip.Name
		}
		imports[p] = name
	}
	missingImport := ""
	addImports := map[string]string{}
	nameFree := func(name string) bool {
		for _, n := range imports {
			if n == name {
				return false
			}
		}
		if s.pkg.Types.Scope().Lookup(name) != nil {
			return false
		}
		// no local of the caller carries the name either
		free := true
		ast.Inspect(s.caller, func(n ast.Node) bool {
			if id, ok := n.(*ast.Ident); ok && id.Name == name {
				if _, isPkg := cinfo.Uses[id].(*types.PkgName); !isPkg {
					free = false
				}
			}
			return free
		})
		return free
	}
	qual := func(p *types.Package) string {
		if p == s.pkg.Types {
			return ""
		}
		if n, ok := imports[p.Path()]; ok && n != "" && n != "_" && n != "." {
			return n
		}
		if n, ok := addImports[p.Path()]; ok {
			return n
		}
		if nameFree(p.Name()) {
			addImports[p.Path()] = p.Name()
			return p.Name()
		}
		missingImport = p.Path()
		return p.Name()
	}
	typeStr := func(t types.Type) string { return types.TypeString(t, qual) }
	printExpr := func(e ast.Expr) string {
		var b bytes.Buffer
		printer.Fprint(&b, fset, e)
		return b.String()
	}
	printNode := func(n ast.Node) string {
		var b bytes.Buffer
		printer.Fprint(&b, fset, n)
		return b.String()
	}

	// ---- copy and rename the helper's body
	hfile := fset.File(helper.Pos())
	if hfile == nil {
		return nil, fmt.Errorf("no file for helper")
	}
	body, bodyFset, err := copyBlock(fset, helper.Body, readSource(hfile.Name(), overlay))
	if err != nil {
		return nil, err
	}
	local := func(obj types.Object) bool {
		return obj != nil && obj.Pos() >= helper.Pos() && obj.Pos() <= helper.End() && obj.Parent() != nil && obj.Parent() != s.hpkg.Types.Scope()
	}
	var origIdents, copyIdents []*ast.Ident
	ast.Inspect(helper.Body, func(n ast.Node) bool {
		if id, ok := n.(*ast.Ident); ok {
			origIdents = append(origIdents, id)
		}
		return true
	})
	ast.Inspect(body, func(n ast.Node) bool {
		if id, ok := n.(*ast.Ident); ok {
			copyIdents = append(copyIdents, id)
		}
		return true
	})
	if len(origIdents) != len(copyIdents) {
		return nil, fmt.Errorf("copy mismatch")
	}
	// the symbolic variable of a type switch has no object of its own
	symbolic := map[*ast.Ident]bool{}
	ast.Inspect(helper.Body, func(n ast.Node) bool {
		if ts, ok := n.(*ast.TypeSwitchStmt); ok {
			if as, ok := ts.Assign.(*ast.AssignStmt); ok && as.Tok == token.DEFINE && len(as.Lhs) == 1 {
				if id, ok := as.Lhs[0].(*ast.Ident); ok {
					symbolic[id] = true
				}
			}
		}
		return true
	})
	// A pointer receiver or pointer parameter whose actual is `&x` / `x` for a
	// plain local variable x of the caller, and which the helper only uses as
	// the base of selectors (p.field, p.method()), is substituted by x instead
	// of being bound to a fresh pointer variable: no address of x is taken, so
	// the variable stays a candidate for scalar replacement.
	substitute := map[types.Object]string{}
	{
		onlySelectorBase := func(obj types.Object) bool {
			ok := true
			var stack []ast.Node
			ast.Inspect(helper.Body, func(n ast.Node) bool {
				if n == nil {
					stack = stack[:len(stack)-1]
					return true
				}
				if id, isID := n.(*ast.Ident); isID && hinfo.Uses[id] == obj {
					parent := ast.Node(nil)
					if len(stack) > 0 {
						parent = stack[len(stack)-1]
					}
					if sel, isSel := parent.(*ast.SelectorExpr); !isSel || sel.X != ast.Expr(id) {
						ok = false
					}
				}
				stack = append(stack, n)
				return true
			})
			return ok
		}
		localVarName := func(e ast.Expr, wantPtr bool) string {
			if u, isAddr := e.(*ast.UnaryExpr); isAddr && u.Op == token.AND && wantPtr {
				e = u.X
			}
			// a plain local, or a chain of field selections on one (`w.word`): the same
			// variable every time it is written
			root := e
			for {
				sel, isSel := root.(*ast.SelectorExpr)
				if !isSel {
					break
				}
				if si := cinfo.Selections[sel]; si == nil || si.Kind() != types.FieldVal {
					return ""
				}
				root = sel.X
			}
			id, isID := root.(*ast.Ident)
			if !isID {
				return ""
			}
			v, isVar := cinfo.Uses[id].(*types.Var)
			if !isVar || v.IsField() || v.Parent() == nil || v.Parent() == s.pkg.Types.Scope() || v.Pkg() != s.pkg.Types {
				return ""
			}
			if root != e {
				return printExpr(e)
			}
			return id.Name
		}
		if helper.Recv != nil && len(helper.Recv.List) == 1 && len(helper.Recv.List[0].Names) == 1 && helper.Recv.List[0].Names[0].Name != "_" {
			if _, isPtr := sig.Recv().Type().Underlying().(*types.Pointer); isPtr {
				if s.call == nil {
					// a method value: nothing to substitute
				} else if sel, isSel := s.call.Fun.(*ast.SelectorExpr); isSel {
					robj := hinfo.Defs[helper.Recv.List[0].Names[0]]
					if name := localVarName(sel.X, true); name != "" && robj != nil && onlySelectorBase(robj) {
						substitute[robj] = name
					}
				}
			}
		}
		if helper.Type.Params != nil {
			ai := 0
			for _, f := range helper.Type.Params.List {
				names := f.Names
				if len(names) == 0 {
					ai++
					continue
				}
				for _, nm := range names {
					if s.call != nil && ai < len(s.call.Args) && ai < sig.Params().Len() && nm.Name != "_" {
						if _, isPtr := sig.Params().At(ai).Type().Underlying().(*types.Pointer); isPtr && !sig.Variadic() {
							pobj := hinfo.Defs[nm]
							if name := localVarName(s.call.Args[ai], true); name != "" && pobj != nil && onlySelectorBase(pobj) {
								// `x` itself (a pointer variable) or `&x` (a struct variable): both read p.f as x.f
								if _, isAddr := s.call.Args[ai].(*ast.UnaryExpr); isAddr || isPointerTyped(cinfo, s.call.Args[ai]) {
									substitute[pobj] = name
								}
							}
						}
					}
					ai++
				}
			}
		}
	}
	for i, id := range origIdents {
		obj := hinfo.Defs[id]
		if obj == nil {
			obj = hinfo.Uses[id]
		}
		if name, sub := substitute[obj]; sub && obj != nil && hinfo.Uses[id] == obj {
			copyIdents[i].Name = name
			continue
		}
		if symbolic[id] && id.Name != "_" {
			copyIdents[i].Name = id.Name + suffix
			continue
		}
		if obj == nil {
			continue
		}
		if ta, isTP := typeArgs[obj]; isTP {
			copyIdents[i].Name = typeStr(ta)
			continue
		}
		if v, isVar := obj.(*types.Var); isVar && v.IsField() {
			continue
		}
		if _, isLabel := obj.(*types.Label); isLabel {
			copyIdents[i].Name = id.Name + suffix
			continue
		}
		if pn, ok := obj.(*types.PkgName); ok {
			// package names must resolve in the caller's file
			if n, have := imports[pn.Imported().Path()]; !have || n == "" || n == "_" {
				// import it, under the name the helper's file uses, if that name is free in the caller
				if an, added := addImports[pn.Imported().Path()]; added {
					copyIdents[i].Name = an
				} else if nameFree(pn.Name()) {
					addImports[pn.Imported().Path()] = pn.Name()
					copyIdents[i].Name = pn.Name()
				} else {
					return nil, fmt.Errorf("caller file does not import %s", pn.Imported().Path())
				}
			} else {
				copyIdents[i].Name = n
			}
			continue
		}
		if local(obj) {
			copyIdents[i].Name = id.Name + suffix
			continue
		}
		if hinfo.Uses[id] == nil {
			continue
		}
		// a free name must mean the same thing at the call site
		if f, isFunc := obj.(*types.Func); isFunc && f.Type().(*types.Signature).Recv() != nil {
			continue
		}
		if obj.Pkg() != nil && obj.Pkg() != s.pkg.Types {
			continue
		}
		if sc := s.pkg.Types.Scope().Innermost(s.stmt.Pos()); sc != nil {
			if _, found := sc.LookupParent(id.Name, s.stmt.Pos()); found != obj {
				return nil, fmt.Errorf("name %s is shadowed at the call site", id.Name)
			}
		}
	}

	// ---- classify the returns of the helper (outside nested function literals)
	nres := sig.Results().Len()
	lastIsError := nres > 0 && types.Identical(sig.Results().At(nres-1).Type(), types.Universe.Lookup("error").Type())
	lastIsBool := nres > 0 && types.Identical(sig.Results().At(nres-1).Type(), types.Typ[types.Bool])
	var origRets []*ast.ReturnStmt
	var retKinds []retClass
	{
		var stack []ast.Node
		ast.Inspect(helper.Body, func(n ast.Node) bool {
			if n == nil {
				stack = stack[:len(stack)-1]
				return true
			}
			if _, isLit := n.(*ast.FuncLit); isLit {
				return false
			}
			stack = append(stack, n)
			if r, ok := n.(*ast.ReturnStmt); ok {
				origRets = append(origRets, r)
				kind := retUnknown
				if lastIsError && len(r.Results) == nres {
					kind = classifyErrExpr(hinfo, helper, r.Results[nres-1], r, stack)
				}
				if lastIsBool && len(r.Results) == nres {
					if id, ok := r.Results[nres-1].(*ast.Ident); ok {
						switch hinfo.Uses[id] {
						case types.Universe.Lookup("true"):
							kind = retTrue
						case types.Universe.Lookup("false"):
							kind = retFalse
						}
					}
				}
				retKinds = append(retKinds, kind)
			}
			return true
		})
	}

	// ---- a function or method value: the helper becomes a function literal
	if s.form == "value" {
		var pre bytes.Buffer
		if helper.Recv != nil && len(helper.Recv.List) == 1 {
			sel := s.value.(*ast.SelectorExpr)
			recvField := helper.Recv.List[0]
			recvT := sig.Recv().Type()
			recvExpr := printExpr(sel.X)
			xt := cinfo.TypeOf(sel.X)
			_, wantPtr := recvT.Underlying().(*types.Pointer)
			_, havePtr := xt.Underlying().(*types.Pointer)
			if wantPtr && !havePtr {
				recvExpr = "&" + recvExpr
			} else if !wantPtr && havePtr {
				recvExpr = "*" + recvExpr
			}
			if len(recvField.Names) == 1 && recvField.Names[0].Name != "_" {
				fmt.Fprintf(&pre, "var %s%s %s = %s\n_ = %s%s\n", recvField.Names[0].Name, suffix, typeStr(recvT), recvExpr, recvField.Names[0].Name, suffix)
			} else {
				fmt.Fprintf(&pre, "_ = %s\n", recvExpr)
			}
		}
		var params, results []string
		pi := 0
		if helper.Type.Params != nil {
			for _, f := range helper.Type.Params.List {
				names := f.Names
				if len(names) == 0 {
					names = []*ast.Ident{ast.NewIdent("_")}
				}
				for _, nm := range names {
					n := nm.Name
					if n != "_" {
						n += suffix
					}
					params = append(params, n+" "+typeStr(sig.Params().At(pi).Type()))
					pi++
				}
			}
		}
		for i := 0; i < sig.Results().Len(); i++ {
			r := typeStr(sig.Results().At(i).Type())
			if n := sig.Results().At(i).Name(); n != "" && n != "_" {
				r = n + suffix + " " + r
			} else if n == "_" {
				r = "_ " + r
			}
			results = append(results, r)
		}
		var bb bytes.Buffer
		if err := printer.Fprint(&bb, bodyFset, body); err != nil {
			return nil, err
		}
		hp := fset.Position(helper.Body.Lbrace)
		lit := "func(" + strings.Join(params, ", ") + ") (" + strings.Join(results, ", ") + ") " +
			fmt.Sprintf("/*line %s:%d:1*/", hp.Filename, hp.Line) + bb.String()
		repl := ast.NewIdent(lit)
		astutil.Apply(s.stmt, func(c *astutil.Cursor) bool {
			if c.Node() == ast.Node(s.value) {
				c.Replace(repl)
				return false
			}
			return true
		}, nil)
		stmtText := printNode(s.stmt)
		astutil.Apply(s.stmt, func(c *astutil.Cursor) bool {
			if c.Node() == ast.Node(repl) {
				c.Replace(s.value)
				return false
			}
			return true
		}, nil)
		var o bytes.Buffer
		o.Write(pre.Bytes())
		sp := fset.Position(s.stmt.Pos())
		fmt.Fprintf(&o, "//line %s:%d\n", sp.Filename, sp.Line)
		o.WriteString(stmtText)
		ep := fset.Position(s.stmt.End())
		fmt.Fprintf(&o, "\n//line %s:%d\n", ep.Filename, ep.Line)
		if missingImport != "" {
			return nil, fmt.Errorf("caller file does not import %s", missingImport)
		}
		return &expansion{addImports: addImports, text: o.String()}, nil
	}

	// ---- receiver and parameters, evaluated in order
	var prelude bytes.Buffer
	if helper.Recv != nil && len(helper.Recv.List) == 1 {
		sel, ok := s.call.Fun.(*ast.SelectorExpr)
		if !ok {
			return nil, fmt.Errorf("method call without selector")
		}
		if selInfo := cinfo.Selections[sel]; selInfo == nil || len(selInfo.Index()) != 1 {
			return nil, fmt.Errorf("method reached through an embedded field")
		}
		recvField := helper.Recv.List[0]
		recvT := sig.Recv().Type()
		recvExpr := printExpr(sel.X)
		xt := cinfo.TypeOf(sel.X)
		_, wantPtr := recvT.Underlying().(*types.Pointer)
		_, havePtr := xt.Underlying().(*types.Pointer)
		if wantPtr && !havePtr {
			recvExpr = "&" + recvExpr
		} else if !wantPtr && havePtr {
			recvExpr = "*" + recvExpr
		}
		if len(recvField.Names) == 1 && recvField.Names[0].Name != "_" {
			if _, sub := substitute[hinfo.Defs[recvField.Names[0]]]; !sub {
				if !wantPtr && havePtr && readsFieldsOnly(hinfo, helper, hinfo.Defs[recvField.Names[0]]) {
					// a value receiver that is only read, field by field, by a body that stores
					// nothing and calls nothing: the fields are read where they are, no copy
					fmt.Fprintf(&prelude, "var %s%s %s = %s\n_ = %s%s\n", recvField.Names[0].Name, suffix, typeStr(xt), printExpr(sel.X), recvField.Names[0].Name, suffix)
				} else {
					fmt.Fprintf(&prelude, "var %s%s %s = %s\n_ = %s%s\n", recvField.Names[0].Name, suffix, typeStr(recvT), recvExpr, recvField.Names[0].Name, suffix)
				}
			}
		} else {
			fmt.Fprintf(&prelude, "_ = %s\n", recvExpr)
		}
	}
	argi := 0
	// f(g()) with g returning exactly the parameters of f: the results are bound in one assignment
	if len(s.call.Args) == 1 && sig.Params().Len() > 1 {
		if tup, isTup := cinfo.TypeOf(s.call.Args[0]).(*types.Tuple); isTup && tup.Len() == sig.Params().Len() && helper.Type.Params != nil {
			var lhs []string
			pi := 0
			for _, f := range helper.Type.Params.List {
				names := f.Names
				if len(names) == 0 {
					names = []*ast.Ident{ast.NewIdent("_")}
				}
				for _, nm := range names {
					if nm.Name == "_" {
						lhs = append(lhs, "_")
					} else {
						fmt.Fprintf(&prelude, "var %s%s %s\n_ = %s%s\n", nm.Name, suffix, typeStr(sig.Params().At(pi).Type()), nm.Name, suffix)
						lhs = append(lhs, nm.Name+suffix)
					}
					pi++
				}
			}
			fmt.Fprintf(&prelude, "%s = %s\n", strings.Join(lhs, ", "), printExpr(s.call.Args[0]))
			argi = 1
			goto bound
		}
	}
	if helper.Type.Params != nil {
		for _, f := range helper.Type.Params.List {
			names := f.Names
			if len(names) == 0 {
				names = []*ast.Ident{ast.NewIdent("_")}
			}
			for _, nm := range names {
				if _, isVariadic := f.Type.(*ast.Ellipsis); isVariadic {
					// the rest of the arguments, as the slice the callee sees
					if s.call.Ellipsis.IsValid() {
						return nil, fmt.Errorf("variadic helper called with a spread slice")
					}
					st := sig.Params().At(sig.Params().Len() - 1).Type()
					var rest []string
					for _, a := range s.call.Args[argi:] {
						rest = append(rest, printExpr(a))
					}
					val := typeStr(st) + "{" + strings.Join(rest, ", ") + "}"
					if len(rest) == 0 {
						val = "nil"
					}
					if nm.Name == "_" {
						fmt.Fprintf(&prelude, "_ = %s\n", val)
					} else {
						fmt.Fprintf(&prelude, "var %s%s %s = %s\n_ = %s%s\n", nm.Name, suffix, typeStr(st), val, nm.Name, suffix)
					}
					argi = len(s.call.Args)
					continue
				}
				if argi >= len(s.call.Args) {
					return nil, fmt.Errorf("argument count mismatch")
				}
				pt := sig.Params().At(argi).Type()
				arg := printExpr(s.call.Args[argi])
				if nm.Name == "_" {
					fmt.Fprintf(&prelude, "_ = %s\n", arg)
				} else if _, sub := substitute[hinfo.Defs[nm]]; sub {
					// used in place
				} else {
					fmt.Fprintf(&prelude, "var %s%s %s = %s\n_ = %s%s\n", nm.Name, suffix, typeStr(pt), arg, nm.Name, suffix)
				}
				argi++
			}
		}
	}
bound:
	if argi != len(s.call.Args) {
		return nil, fmt.Errorf("argument count mismatch")
	}

	// named results are ordinary locals of the helper, zero at entry; a bare
	// return returns their current values (the helper has no defer)
	var namedResults []string
	if helper.Type.Results != nil {
		for _, f := range helper.Type.Results.List {
			for _, nm := range f.Names {
				n := nm.Name
				if n == "_" {
					n = fmt.Sprintf("_blank%d", len(namedResults))
				}
				namedResults = append(namedResults, n+suffix)
			}
		}
	}
	if len(namedResults) == nres && nres > 0 {
		for i, n := range namedResults {
			fmt.Fprintf(&prelude, "var %s %s\n_ = %s\n", n, typeStr(sig.Results().At(i).Type()), n)
		}
	} else {
		namedResults = nil
	}

	// ---- decide the shape of the expansion
	resName := func(i int) string { return fmt.Sprintf("_r%d%s", i, suffix) }
	endLabel, okLabel := "_end"+suffix, "_ok"+suffix
	cpos := fset.Position(s.stmt.Pos())
	lineOf := func(p token.Pos) string {
		pp := fset.Position(p)
		return fmt.Sprintf("//line %s:%d\n", pp.Filename, pp.Line)
	}
	hpos := fset.Position(helper.Body.Lbrace)
	bodyLine := fmt.Sprintf("//line %s:%d\n", hpos.Filename, hpos.Line)

	// the replacement of each return statement, by index
	type retRewrite func(idx int, results []ast.Expr) []ast.Stmt
	applyReturns := func(rw retRewrite) {
		idx := 0
		astutil.Apply(body, func(c *astutil.Cursor) bool {
			if _, isLit := c.Node().(*ast.FuncLit); isLit {
				return false
			}
			ret, ok := c.Node().(*ast.ReturnStmt)
			if !ok {
				return true
			}
			results := ret.Results
			if len(results) == 0 && namedResults != nil {
				for _, n := range namedResults {
					results = append(results, ast.NewIdent(n))
				}
			}
			stmts := rw(idx, results)
			idx++
			if stmts != nil {
				c.Replace(&ast.BlockStmt{List: stmts})
			}
			return false
		}, nil)
	}
	printBody := func() (string, error) {
		var b bytes.Buffer
		if err := printer.Fprint(&b, bodyFset, body); err != nil {
			return "", err
		}
		return b.String(), nil
	}
	rawStmt := func(text string) ast.Stmt {
		// a statement carried as text: an expression statement over an identifier
		// that prints as the text (the printer emits identifier names verbatim)
		return &ast.ExprStmt{X: ast.NewIdent(text)}
	}
	gotoStmt := func(label string) ast.Stmt {
		return &ast.BranchStmt{Tok: token.GOTO, Label: ast.NewIdent(label)}
	}

	var out bytes.Buffer

	// (0) go helper(...) / defer helper(...): the arguments are evaluated now, the
	// body runs in the new goroutine (at function exit)
	if s.form == "go" || s.form == "defer" {
		applyReturns(func(idx int, results []ast.Expr) []ast.Stmt {
			if len(results) == 0 {
				return nil
			}
			lhs := make([]ast.Expr, nres)
			for i := range lhs {
				lhs[i] = ast.NewIdent("_")
			}
			return []ast.Stmt{&ast.AssignStmt{Lhs: lhs, Tok: token.ASSIGN, Rhs: results}, &ast.ReturnStmt{}}
		})
		txt, err := printBody()
		if err != nil {
			return nil, err
		}
		out.WriteString("{\n")
		out.Write(prelude.Bytes())
		out.WriteString(lineOf(s.stmt.Pos()))
		fmt.Fprintf(&out, "%s func() \n", s.form)
		// the body follows on the same logical statement
		b := out.Bytes()
		b = bytes.TrimRight(b, "\n")
		out.Reset()
		out.Write(b)
		out.WriteString(" " + txt + "()\n}\n")
		out.WriteString(lineOf(s.stmt.End()))
		if missingImport != "" {
			return nil, fmt.Errorf("caller file does not import %s", missingImport)
		}
		return &expansion{addImports: addImports, text: out.String()}, nil
	}

	// (1) `return helper(...)` with identical result types: the helper's returns
	// are the caller's returns
	if s.form == "return" {
		csig, _ := cinfo.Defs[s.caller.Name].Type().(*types.Signature)
		if enc := enclosingFuncLit(s.caller, s.stmt); enc != nil {
			csig, _ = cinfo.TypeOf(enc).(*types.Signature)
		}
		same := csig != nil && csig.Results().Len() == nres
		if same {
			for i := 0; i < nres; i++ {
				if !types.Identical(csig.Results().At(i).Type(), sig.Results().At(i).Type()) {
					same = false
				}
			}
			if csig.Results().Len() > 0 && csig.Results().At(0).Name() != "" {
				same = false // named results of the caller: keep the general form
			}
		}
		if same && endsTerminating(helper.Body) {
			if namedResults != nil {
				applyReturns(func(idx int, results []ast.Expr) []ast.Stmt {
					return []ast.Stmt{&ast.ReturnStmt{Results: results}}
				})
			}
			txt, err := printBody()
			if err != nil {
				return nil, err
			}
			out.WriteString("{\n")
			out.Write(prelude.Bytes())
			out.WriteString(bodyLine)
			out.WriteString(txt)
			out.WriteString("\n}\n")
			out.WriteString(lineOf(s.stmt.End()))
			if missingImport != "" {
				return nil, fmt.Errorf("caller file does not import %s", missingImport)
			}
			return &expansion{addImports: addImports, text: out.String()}, nil
		}
	}

	// (2) assignment (or if-init) whose error result is tested by the guard that
	// follows: thread each return of the helper to the guard's outcome it decides
	tupleReturn := false
	for _, r := range origRets {
		if len(r.Results) != nres {
			tupleReturn = true
		}
	}
	if th := threadable(s, cinfo, sig, nres, lastIsError, lastIsBool); th != nil && !(tupleReturn && th.direct) {
		var lhs []ast.Expr
		var tok token.Token
		if th.assign != nil {
			lhs, tok = th.assign.Lhs, th.assign.Tok
		}
		// new variables of a := become declarations in front
		var decls bytes.Buffer
		lhsText := make([]string, len(lhs))
		rename := map[types.Object]string{}
		for i, l := range lhs {
			lhsText[i] = printExpr(l)
			id, isId := l.(*ast.Ident)
			if tok == token.DEFINE && isId && id.Name != "_" {
				if obj := cinfo.Defs[id]; obj != nil {
					name := id.Name
					if th.ifInit {
						name = id.Name + "_g" + suffix
						rename[obj] = name
					}
					fmt.Fprintf(&decls, "var %s %s\n_ = %s\n", name, typeStr(obj.Type()), name)
					lhsText[i] = name
				}
			}
		}
		if th.direct {
			fmt.Fprintf(&decls, "var %s bool\n_ = %s\n", resName(0), resName(0))
		}
		// the guard's parts, with if-init variables renamed
		guardText := func(n ast.Node) string {
			if len(rename) == 0 {
				return printNode(n)
			}
			var changed []*ast.Ident
			var old []string
			ast.Inspect(n, func(m ast.Node) bool {
				if id, ok := m.(*ast.Ident); ok {
					obj := cinfo.Uses[id]
					if obj == nil {
						obj = cinfo.Defs[id]
					}
					if nn, ok := rename[obj]; ok && obj != nil {
						changed = append(changed, id)
						old = append(old, id.Name)
						id.Name = nn
					}
				}
				return true
			})
			txt := printNode(n)
			for i, id := range changed {
				id.Name = old[i]
			}
			return txt
		}
		thenText, condText := "", ""
		thenFalls := false
		if th.guard != nil {
			thenText = guardText(th.guard.Body)
			if th.direct {
				condText = resName(0)
				if th.negate {
					condText = "!" + condText
				}
			} else {
				condText = guardText(th.guard.Cond)
			}
			thenFalls = !endsTerminating(th.guard.Body)
		}
		assignText := func(results []ast.Expr) string {
			if th.direct {
				var b bytes.Buffer
				printer.Fprint(&b, bodyFset, results[0])
				return resName(0) + " = " + b.String()
			}
			var rhs []string
			if len(results) == 1 && nres > 1 {
				// return f() with a tuple-valued call
				var b bytes.Buffer
				printer.Fprint(&b, bodyFset, results[0])
				return strings.Join(lhsText, ", ") + " = " + b.String()
			}
			for i, r := range results {
				var b bytes.Buffer
				printer.Fprint(&b, bodyFset, r)
				e := b.String()
				// keep the conversion to the helper's result type that the return performed
				var lt types.Type
				if id, isId := lhs[i].(*ast.Ident); !isId || id.Name != "_" {
					lt = cinfo.TypeOf(lhs[i])
				}
				rt := sig.Results().At(i).Type()
				if lt == nil || !types.Identical(lt, rt) {
					e = "(" + typeStr(rt) + ")(" + e + ")"
				}
				rhs = append(rhs, e)
			}
			return strings.Join(lhsText, ", ") + " = " + strings.Join(rhs, ", ")
		}
		usedEnd, usedOk := false, false
		applyReturns(func(idx int, results []ast.Expr) []ast.Stmt {
			taken, known := th.decide(retKinds[idx])
			switch {
			case known && !taken:
				usedOk = true
				return []ast.Stmt{rawStmt(assignText(results)), gotoStmt(okLabel)}
			case known && taken:
				st := []ast.Stmt{rawStmt(assignText(results)), rawStmt(thenText)}
				if thenFalls {
					usedOk = true
					st = append(st, gotoStmt(okLabel))
				}
				return st
			}
			if th.guard != nil {
				// undecided here: test it here, so that the value and the error of
				// one producer stay paired on their own path
				usedOk = true
				return []ast.Stmt{rawStmt(assignText(results)), rawStmt("if " + condText + " " + thenText), gotoStmt(okLabel)}
			}
			usedEnd = true
			return []ast.Stmt{rawStmt(assignText(results)), gotoStmt(endLabel)}
		})
		txt, err := printBody()
		if err != nil {
			return nil, err
		}
		wrap := th.ifInit || th.preCond != nil
		if th.preCond != nil {
			fmt.Fprintf(&out, "if %s {\n", printExpr(th.preCond))
		} else if wrap {
			out.WriteString("{\n")
		}
		out.Write(decls.Bytes())
		out.WriteString("{\n")
		out.Write(prelude.Bytes())
		out.WriteString(bodyLine)
		out.WriteString(txt)
		out.WriteString("\n}\n")
		if th.guard == nil {
			if usedEnd {
				fmt.Fprintf(&out, "%s:\n;\n", endLabel)
			}
			out.WriteString(lineOf(s.stmt.End()))
			if missingImport != "" {
				return nil, fmt.Errorf("caller file does not import %s", missingImport)
			}
			return &expansion{addImports: addImports, text: out.String()}, nil
		}
		if usedEnd {
			fmt.Fprintf(&out, "%s:\n", endLabel)
			out.WriteString(lineOf(th.guard.Pos()))
			fmt.Fprintf(&out, "if %s %s\n", condText, thenText)
		}
		if wrap {
			out.WriteString("}\n")
		}
		if usedOk {
			fmt.Fprintf(&out, "%s:\n;\n", okLabel)
		}
		out.WriteString(lineOf(th.guard.End()))
		if missingImport != "" {
			return nil, fmt.Errorf("caller file does not import %s", missingImport)
		}
		return &expansion{addImports: addImports, text: out.String(), consumedNext: th.guard != s.stmt}, nil
	}

	// (3) the general form: result variables, returns jump to the end
	usedGoto := false
	applyReturns(func(idx int, results []ast.Expr) []ast.Stmt {
		var stmts []ast.Stmt
		if nres > 0 {
			lhs := make([]ast.Expr, nres)
			for i := range lhs {
				lhs[i] = ast.NewIdent(resName(i))
			}
			stmts = append(stmts, &ast.AssignStmt{Lhs: lhs, Tok: token.ASSIGN, Rhs: results})
		}
		stmts = append(stmts, gotoStmt(endLabel))
		usedGoto = true
		return stmts
	})
	for i := 0; i < nres; i++ {
		fmt.Fprintf(&out, "var %s %s\n_ = %s\n", resName(i), typeStr(sig.Results().At(i).Type()), resName(i))
	}
	txt, err := printBody()
	if err != nil {
		return nil, err
	}
	out.WriteString("{\n")
	out.Write(prelude.Bytes())
	out.WriteString(bodyLine)
	out.WriteString(txt)
	out.WriteString("\n}\n")
	if usedGoto {
		// the label labels an empty statement, so that what follows stays a statement of its own
		fmt.Fprintf(&out, "%s:\n;\n", endLabel)
	}
	fmt.Fprintf(&out, "//line %s:%d\n", cpos.Filename, cpos.Line)
	results := make([]string, nres)
	for i := range results {
		results[i] = resName(i)
	}
	joined := strings.Join(results, ", ")
	replaceCall := func() string {
		if nres != 1 {
			return ""
		}
		repl := ast.NewIdent(resName(0))
		astutil.Apply(s.stmt, func(c *astutil.Cursor) bool {
			if c.Node() == ast.Node(s.call) {
				c.Replace(repl)
				return false
			}
			return true
		}, nil)
		txt := printNode(s.stmt)
		astutil.Apply(s.stmt, func(c *astutil.Cursor) bool {
			if c.Node() == ast.Node(repl) {
				c.Replace(s.call)
				return false
			}
			return true
		}, nil)
		return txt
	}
	switch s.form {
	case "assign":
		as := s.stmt.(*ast.AssignStmt)
		var lhs []string
		for _, l := range as.Lhs {
			lhs = append(lhs, printExpr(l))
		}
		if nres == 0 {
			return nil, fmt.Errorf("void helper in assignment")
		}
		fmt.Fprintf(&out, "%s %s %s\n", strings.Join(lhs, ", "), as.Tok.String(), joined)
	case "return":
		fmt.Fprintf(&out, "return %s\n", joined)
	case "expr":
		out.WriteString(";\n")
	case "cond":
		return nil, fmt.Errorf("condition form that cannot be threaded")
	case "if-init", "hoist":
		r := replaceCall()
		if r == "" {
			return nil, fmt.Errorf("cannot hoist a call with %d results", nres)
		}
		out.WriteString(r + "\n")
	}
	out.WriteString(lineOf(s.stmt.End()))
	if missingImport != "" {
		return nil, fmt.Errorf("caller file does not import %s", missingImport)
	}
	return &expansion{addImports: addImports, text: out.String()}, nil
}

// enclosingFuncLit: the innermost function literal of caller that contains stmt.
func enclosingFuncLit(caller *ast.FuncDecl, stmt ast.Stmt) *ast.FuncLit {
	var best *ast.FuncLit
	ast.Inspect(caller, func(n ast.Node) bool {
		if fl, ok := n.(*ast.FuncLit); ok && fl.Pos() <= stmt.Pos() && stmt.End() <= fl.End() {
			best = fl
		}
		return true
	})
	return best
}

// endsTerminating: the block's last statement ends the function (syntactic
// approximation of the spec's terminating statements that is enough here).
func endsTerminating(b *ast.BlockStmt) bool {
	if len(b.List) == 0 {
		return false
	}
	switch last := b.List[len(b.List)-1].(type) {
	case *ast.ReturnStmt:
		return true
	case *ast.BlockStmt:
		return endsTerminating(last)
	case *ast.IfStmt:
		if last.Else == nil {
			return false
		}
		if !endsTerminating(last.Body) {
			return false
		}
		switch e := last.Else.(type) {
		case *ast.BlockStmt:
			return endsTerminating(e)
		case *ast.IfStmt:
			return endsTerminating(&ast.BlockStmt{List: []ast.Stmt{e}})
		}
	case *ast.ExprStmt:
		if call, ok := last.X.(*ast.CallExpr); ok {
			if id, ok := call.Fun.(*ast.Ident); ok && id.Name == "panic" {
				return true
			}
		}
	case *ast.BranchStmt:
		return last.Tok == token.GOTO
	case *ast.LabeledStmt:
		return endsTerminating(&ast.BlockStmt{List: []ast.Stmt{last.Stmt}})
	case *ast.ForStmt:
		return last.Cond == nil && !hasBreak(last.Body)
	case *ast.SwitchStmt:
		return clausesTerminating(last.Body)
	case *ast.TypeSwitchStmt:
		return clausesTerminating(last.Body)
	}
	return false
}

func hasBreak(n ast.Node) bool {
	found := false
	ast.Inspect(n, func(m ast.Node) bool {
		if _, isLit := m.(*ast.FuncLit); isLit {
			return false
		}
		if b, ok := m.(*ast.BranchStmt); ok && b.Tok == token.BREAK {
			found = true
		}
		return !found
	})
	return found
}

// clausesTerminating: a switch with a default clause whose every clause ends in
// a terminating statement and that contains no break.
func clausesTerminating(body *ast.BlockStmt) bool {
	hasDefault := false
	for _, s := range body.List {
		cc, ok := s.(*ast.CaseClause)
		if !ok {
			return false
		}
		if cc.List == nil {
			hasDefault = true
		}
		if len(cc.Body) == 0 {
			return false
		}
		if br, ok := cc.Body[len(cc.Body)-1].(*ast.BranchStmt); ok && br.Tok == token.FALLTHROUGH {
			continue
		}
		if !endsTerminating(&ast.BlockStmt{List: cc.Body}) {
			return false
		}
	}
	return hasDefault && !hasBreak(body)
}

type threadInfo struct {
	assign  *ast.AssignStmt // receives the helper's results; nil when the call is the condition
	guard   *ast.IfStmt     // the test of the helper's last result
	ifInit  bool            // the assignment is the guard's own init statement
	direct  bool            // the call (possibly negated, possibly after `A &&`) is the condition
	preCond ast.Expr        // A in `if A && helper() {`
	negate  bool
	decide  func(retClass) (taken, known bool)
}

// threadable recognises the tests of a helper's last result that can be decided
// per return statement of the helper:
//
//	x, err := helper(...)          if err := helper(...); err != nil { … }
//	if err != nil { … }
//	v, ok := helper(...)           if v, ok := helper(...); ok { … }
//	if !ok { … }
//	if helper(...) { … }           if A && !helper(...) { … }
//
// (no else branch; the then-branch can be duplicated).
func threadable(s *inlineSite, info *types.Info, sig *types.Signature, nres int, lastIsError, lastIsBool bool) *threadInfo {
	if th := threadableGuard(s, info, sig, nres, lastIsError, lastIsBool); th != nil {
		return th
	}
	// no guard to thread: still assign the results where they are produced, so
	// that the branches of the helper stay the branches of the caller
	if as, ok := s.stmt.(*ast.AssignStmt); ok && s.form == "assign" && len(as.Lhs) == nres && len(as.Rhs) == 1 {
		for _, l := range as.Lhs {
			if _, isId := l.(*ast.Ident); !isId {
				return nil
			}
		}
		return &threadInfo{assign: as, decide: func(retClass) (bool, bool) { return false, false }}
	}
	return nil
}

func threadableGuard(s *inlineSite, info *types.Info, sig *types.Signature, nres int, lastIsError, lastIsBool bool) *threadInfo {
	if !lastIsError && !lastIsBool {
		return nil
	}
	th := &threadInfo{}
	switch s.form {
	case "assign":
		th.assign = s.stmt.(*ast.AssignStmt)
		g, ok := s.next.(*ast.IfStmt)
		if !ok || g.Init != nil {
			return nil
		}
		th.guard = g
	case "if-init":
		th.guard = s.stmt.(*ast.IfStmt)
		th.assign = th.guard.Init.(*ast.AssignStmt)
		th.ifInit = true
	case "hoist", "cond":
		g, ok := s.stmt.(*ast.IfStmt)
		if !ok || g.Init != nil || nres != 1 || !lastIsBool {
			return nil
		}
		th.guard, th.direct = g, true
		cond := ast.Expr(g.Cond)
		if be, ok := cond.(*ast.BinaryExpr); ok && be.Op == token.LAND {
			th.preCond, cond = be.X, be.Y
		}
		for {
			if p, ok := cond.(*ast.ParenExpr); ok {
				cond = p.X
				continue
			}
			if u, ok := cond.(*ast.UnaryExpr); ok && u.Op == token.NOT {
				th.negate = !th.negate
				cond = u.X
				continue
			}
			break
		}
		if cond != ast.Expr(s.call) {
			return nil
		}
	default:
		return nil
	}
	guard := th.guard
	if guard.Else != nil {
		return nil
	}
	if !th.direct {
		as := th.assign
		if len(as.Lhs) != nres || len(as.Rhs) != 1 {
			return nil
		}
		tested, ok := as.Lhs[nres-1].(*ast.Ident)
		if !ok || tested.Name == "_" {
			return nil
		}
		obj := info.Defs[tested]
		if obj == nil {
			obj = info.Uses[tested]
		}
		if obj == nil {
			return nil
		}
		cond := guard.Cond
		if lastIsError {
			be, ok := cond.(*ast.BinaryExpr)
			if !ok || be.Op != token.NEQ {
				return nil
			}
			x, ok := be.X.(*ast.Ident)
			if !ok || info.Uses[x] != obj {
				return nil
			}
			if y, ok := be.Y.(*ast.Ident); !ok || info.Uses[y] != types.Universe.Lookup("nil") {
				return nil
			}
		} else {
			for {
				if p, ok := cond.(*ast.ParenExpr); ok {
					cond = p.X
					continue
				}
				if u, ok := cond.(*ast.UnaryExpr); ok && u.Op == token.NOT {
					th.negate = !th.negate
					cond = u.X
					continue
				}
				break
			}
			x, ok := cond.(*ast.Ident)
			if !ok || info.Uses[x] != obj {
				return nil
			}
		}
	}
	if lastIsError {
		th.decide = func(k retClass) (bool, bool) {
			switch k {
			case retNilErr:
				return false, true
			case retNonNilErr:
				return true, true
			}
			return false, false
		}
	} else {
		neg := th.negate
		th.decide = func(k retClass) (bool, bool) {
			switch k {
			case retTrue:
				return !neg, true
			case retFalse:
				return neg, true
			}
			return false, false
		}
	}
	// the then-branch can be duplicated
	if len(guard.Body.List) == 0 {
		return nil
	}
	dup := true
	ast.Inspect(guard.Body, func(n ast.Node) bool {
		switch n.(type) {
		case *ast.LabeledStmt, *ast.BranchStmt, *ast.FuncLit, *ast.DeferStmt:
			dup = false
		}
		return dup
	})
	if !dup {
		return nil
	}
	return th
}

// classifyErrExpr: is the error expression of this return known, from the text
// of the helper alone, to be nil or to be non-nil?
func classifyErrExpr(info *types.Info, helper *ast.FuncDecl, e ast.Expr, ret *ast.ReturnStmt, stack []ast.Node) retClass {
	if id, ok := e.(*ast.Ident); ok && id.Name == "nil" && info.Uses[id] == types.Universe.Lookup("nil") {
		return retNilErr
	}
	if id, ok := e.(*ast.Ident); ok {
		if rhs := lastAssigned(info, id, ret, stack); rhs != nil {
			if rid, ok := rhs.(*ast.Ident); ok && rid.Name == "nil" && info.Uses[rid] == types.Universe.Lookup("nil") {
				return retNilErr
			}
			if _, again := rhs.(*ast.Ident); !again && exprNonNil(info, helper, rhs, ret, stack) {
				return retNonNilErr
			}
		}
	}
	if exprNonNil(info, helper, e, ret, stack) {
		return retNonNilErr
	}
	return retUnknown
}

// lastAssigned: the expression assigned to variable id by the statement that
// textually precedes the return in its own block or in the blocks that directly
// enclose it ({ x = E; { return x } }), nothing else in between.
func lastAssigned(info *types.Info, id *ast.Ident, ret *ast.ReturnStmt, stack []ast.Node) ast.Expr {
	obj := info.Uses[id]
	if obj == nil {
		return nil
	}
	var child ast.Node = ret
	for i := len(stack) - 1; i >= 0; i-- {
		if stack[i] == ast.Node(ret) {
			continue
		}
		blk, ok := stack[i].(*ast.BlockStmt)
		if !ok {
			return nil
		}
		at := -1
		for j, st := range blk.List {
			if ast.Node(st) == child {
				at = j
			}
		}
		if at < 0 {
			return nil
		}
		if at > 0 {
			as, ok := blk.List[at-1].(*ast.AssignStmt)
			if !ok || len(as.Lhs) != len(as.Rhs) {
				return nil
			}
			for k, l := range as.Lhs {
				if lid, ok := l.(*ast.Ident); ok && (info.Uses[lid] == obj || info.Defs[lid] == obj) {
					return as.Rhs[k]
				}
			}
			return nil
		}
		child = blk
	}
	return nil
}

func exprNonNil(info *types.Info, helper *ast.FuncDecl, e ast.Expr, ret *ast.ReturnStmt, stack []ast.Node) bool {
	switch x := e.(type) {
	case *ast.ParenExpr:
		return exprNonNil(info, helper, x.X, ret, stack)
	case *ast.CallExpr:
		var fn *types.Func
		switch f := x.Fun.(type) {
		case *ast.SelectorExpr:
			fn, _ = info.Uses[f.Sel].(*types.Func)
		}
		if fn == nil || fn.Pkg() == nil {
			return false
		}
		switch fn.Pkg().Path() + "." + fn.Name() {
		case "errors.New", "fmt.Errorf":
			return true
		case "errors.Join":
			for _, a := range x.Args {
				if exprNonNil(info, helper, a, ret, stack) {
					return true
				}
			}
		}
		return false
	case *ast.SelectorExpr:
		if sentinelErrs[info.Uses[x.Sel]] {
			return true // a sentinel of another package (object.ErrKeyNotPresent)
		}
		// `if p.err != nil { …; return …, p.err }`: a chain of field selections that
		// is tested against nil by an enclosing if statement, with nothing between
		// the test and the return but assignments of call-free expressions to
		// plain variables (what threading an inner helper's returns leaves behind)
		if !isFieldChain(info, x) {
			return false
		}
		for i := len(stack) - 1; i > 0; i-- {
			blk, ok := stack[i].(*ast.BlockStmt)
			if !ok {
				if _, isRet := stack[i].(*ast.ReturnStmt); isRet {
					continue
				}
				return false
			}
			is, ok := stack[i-1].(*ast.IfStmt)
			if !ok {
				if _, inBlock := stack[i-1].(*ast.BlockStmt); inBlock {
					continue // a nested plain block
				}
				return false
			}
			if is.Body != blk || is.Init != nil {
				return false
			}
			be, ok := is.Cond.(*ast.BinaryExpr)
			if !ok || be.Op != token.NEQ {
				return false
			}
			if cy, ok := be.Y.(*ast.Ident); !ok || cy.Name != "nil" || info.Uses[cy] != types.Universe.Lookup("nil") {
				return false
			}
			cx, ok := be.X.(*ast.SelectorExpr)
			if !ok || !isFieldChain(info, cx) || types.ExprString(cx) != types.ExprString(x) {
				return false
			}
			clean := true
			ast.Inspect(blk, func(n ast.Node) bool {
				if n == nil || n.Pos() >= ret.Pos() {
					return false
				}
				switch st := n.(type) {
				case *ast.CallExpr, *ast.GoStmt, *ast.DeferStmt, *ast.SendStmt, *ast.FuncLit, *ast.IncDecStmt:
					clean = false
				case *ast.AssignStmt:
					for _, l := range st.Lhs {
						if _, isID := l.(*ast.Ident); !isID {
							clean = false
						}
					}
				case *ast.UnaryExpr:
					if st.Op == token.AND || st.Op == token.ARROW {
						clean = false
					}
				}
				return clean
			})
			return clean
		}
		return false
	case *ast.Ident:
		// a sentinel: a package-level error variable made by errors.New / fmt.Errorf and never assigned again
		if sentinelErrs[info.Uses[x]] {
			return true
		}
		obj, _ := info.Uses[x].(*types.Var)
		if obj == nil || obj.IsField() || obj.Parent() == nil || obj.Pkg() == nil || obj.Parent() == obj.Pkg().Scope() {
			return false
		}
		// assigned inside a function literal anywhere: give up
		captured := false
		ast.Inspect(helper.Body, func(n ast.Node) bool {
			if fl, ok := n.(*ast.FuncLit); ok {
				ast.Inspect(fl, func(m ast.Node) bool {
					if id, ok := m.(*ast.Ident); ok && info.Uses[id] == obj {
						captured = true
					}
					return true
				})
				return false
			}
			return true
		})
		if captured {
			return false
		}
		// innermost enclosing `if obj != nil {` whose then-branch holds the return,
		// with no assignment to obj between the test and the return
		for i := len(stack) - 1; i > 0; i-- {
			blk, ok := stack[i].(*ast.BlockStmt)
			if !ok {
				continue
			}
			is, ok := stack[i-1].(*ast.IfStmt)
			if !ok || is.Body != blk {
				continue
			}
			be, ok := is.Cond.(*ast.BinaryExpr)
			if !ok || be.Op != token.NEQ {
				continue
			}
			cx, ok := be.X.(*ast.Ident)
			if !ok || info.Uses[cx] != obj {
				continue
			}
			if cy, ok := be.Y.(*ast.Ident); !ok || cy.Name != "nil" {
				continue
			}
			clean := true
			ast.Inspect(blk, func(n ast.Node) bool {
				if n == nil || n.Pos() >= ret.Pos() {
					return n == nil || n.Pos() < ret.Pos()
				}
				switch st := n.(type) {
				case *ast.AssignStmt:
					for _, l := range st.Lhs {
						if id, ok := l.(*ast.Ident); ok && (info.Uses[id] == obj || info.Defs[id] == obj) {
							clean = false
						}
					}
				case *ast.UnaryExpr:
					if id, ok := st.X.(*ast.Ident); ok && st.Op == token.AND && info.Uses[id] == obj {
						clean = false
					}
				}
				return true
			})
			return clean
		}
	}
	return false
}

func isPointerTyped(info *types.Info, e ast.Expr) bool {
	t := info.TypeOf(e)
	if t == nil {
		return false
	}
	_, ok := t.Underlying().(*types.Pointer)
	return ok
}

// isFieldChain: x.f.g… where x is a local variable (or parameter or receiver)
// and every selection is a field.
func isFieldChain(info *types.Info, e *ast.SelectorExpr) bool {
	for {
		sel := info.Selections[e]
		if sel == nil || sel.Kind() != types.FieldVal {
			return false
		}
		switch x := e.X.(type) {
		case *ast.SelectorExpr:
			e = x
		case *ast.Ident:
			v, ok := info.Uses[x].(*types.Var)
			return ok && !v.IsField() && v.Pkg() != nil && v.Parent() != v.Pkg().Scope()
		default:
			return false
		}
	}
}

// readsFieldsOnly: obj (a receiver or parameter of struct type) is used in the
// helper only as the base of field selections that are read, and the body has
// no store outside its own locals, no call of anything but a builtin or a
// conversion, no closure, no send, no go or defer statement. Then binding obj
// to a pointer to the argument instead of a copy of it cannot be observed
// (as long as the pointer is not nil, in which case both forms panic before
// or at the first field read).
func readsFieldsOnly(info *types.Info, helper *ast.FuncDecl, obj types.Object) bool {
	if obj == nil || helper.Body == nil {
		return false
	}
	if _, isStruct := obj.Type().Underlying().(*types.Struct); !isStruct {
		return false
	}
	ok := true
	local := func(e ast.Expr) bool {
		id, isId := e.(*ast.Ident)
		if !isId {
			return false
		}
		if id.Name == "_" {
			return true
		}
		o := info.ObjectOf(id)
		return o != nil && o != obj && o.Pos() >= helper.Body.Pos() && o.Pos() < helper.Body.End()
	}
	var stack []ast.Node
	ast.Inspect(helper.Body, func(n ast.Node) bool {
		if n == nil {
			stack = stack[:len(stack)-1]
			return true
		}
		stack = append(stack, n)
		switch x := n.(type) {
		case *ast.FuncLit, *ast.GoStmt, *ast.DeferStmt, *ast.SendStmt:
			ok = false
		case *ast.AssignStmt:
			for _, l := range x.Lhs {
				if !local(l) {
					ok = false
				}
			}
		case *ast.IncDecStmt:
			if !local(x.X) {
				ok = false
			}
		case *ast.RangeStmt:
			if (x.Key != nil && !local(x.Key)) || (x.Value != nil && !local(x.Value)) {
				ok = false
			}
		case *ast.UnaryExpr:
			if x.Op == token.AND || x.Op == token.ARROW {
				ok = false
			}
		case *ast.CallExpr:
			tv, has := info.Types[x.Fun]
			if !has || !(tv.IsType() || tv.IsBuiltin()) {
				ok = false
			}
			if id, isId := x.Fun.(*ast.Ident); isId && tv.IsBuiltin() {
				switch id.Name {
				case "len", "cap", "min", "max":
				default:
					ok = false
				}
			}
		case *ast.Ident:
			if info.Uses[x] == obj {
				sel, isSel := stack[len(stack)-2].(*ast.SelectorExpr)
				if !isSel || sel.X != x {
					ok = false
				} else if s := info.Selections[sel]; s == nil || s.Kind() != types.FieldVal {
					ok = false
				}
			}
		}
		return ok
	})
	return ok
}

// sentinelErrs: package-level error variables of the module that are
// initialised with errors.New or fmt.Errorf and never stored to or have their
// address taken anywhere in the module (computed per inlining round).
var sentinelErrs = map[types.Object]bool{}

func computeSentinelErrs(pkgs []*packages.Package) {
	sentinelErrs = map[types.Object]bool{}
	for _, pkg := range pkgs {
		if !isServitorPath(pkg.PkgPath) || pkg.TypesInfo == nil {
			continue
		}
		for _, f := range pkg.Syntax {
			for _, d := range f.Decls {
				gd, ok := d.(*ast.GenDecl)
				if !ok || gd.Tok != token.VAR {
					continue
				}
				for _, sp := range gd.Specs {
					vs := sp.(*ast.ValueSpec)
					if len(vs.Names) != len(vs.Values) {
						continue
					}
					for i, nm := range vs.Names {
						call, ok := vs.Values[i].(*ast.CallExpr)
						if !ok {
							continue
						}
						sel, ok := call.Fun.(*ast.SelectorExpr)
						if !ok {
							continue
						}
						fn, _ := pkg.TypesInfo.Uses[sel.Sel].(*types.Func)
						if fn == nil || fn.Pkg() == nil {
							continue
						}
						if n := fn.Pkg().Path() + "." + fn.Name(); n == "errors.New" || n == "fmt.Errorf" {
							if o := pkg.TypesInfo.Defs[nm]; o != nil {
								sentinelErrs[o] = true
							}
						}
					}
				}
			}
		}
	}
	for _, pkg := range pkgs {
		if !isServitorPath(pkg.PkgPath) || pkg.TypesInfo == nil {
			continue
		}
		objOf := func(e ast.Expr) types.Object {
			switch x := e.(type) {
			case *ast.Ident:
				return pkg.TypesInfo.Uses[x]
			case *ast.SelectorExpr:
				return pkg.TypesInfo.Uses[x.Sel]
			}
			return nil
		}
		for _, f := range pkg.Syntax {
			ast.Inspect(f, func(n ast.Node) bool {
				switch x := n.(type) {
				case *ast.AssignStmt:
					for _, l := range x.Lhs {
						if o := objOf(l); o != nil {
							delete(sentinelErrs, o)
						}
					}
				case *ast.UnaryExpr:
					if x.Op == token.AND {
						if o := objOf(x.X); o != nil {
							delete(sentinelErrs, o)
						}
					}
				case *ast.IncDecStmt:
					if o := objOf(x.X); o != nil {
						delete(sentinelErrs, o)
					}
				}
				return true
			})
		}
	}
}
