package main

import (
	"fmt"
	"go/token"
	"go/types"
	"math"
	"sort"
	"strings"

	"golang.org/x/tools/go/ssa"
)

func init() { registry["C19"] = propC19 }

func propC19() *Property {
	return &Property{
		ID:          "C19",
		Explanation: "Static dominance and table-agreement rules on package config and its consumers. Decided: (R1) config.parse returns a configuration only for an empty location, a missing file, or a decode without error AND without undecoded keys; defaults are stored before decoding into the same object; the package initialiser exits non-zero after a diagnostic on every error of parse and postprocess; (R2) for every field of Style.Colors (enumerated from the type) postprocess stores hexToAnsi of that same field with the error checked; hexToAnsi slices under len == 7 and parses each pair base 16 with the error checked; (R3) every read of a config.Parsed field anywhere in the module is in the consumer table, and for each consumer assumption (non-empty hook, positive cache size, non-negative preload amount, positive timeout) package config contains a comparison of that field whose failing edge reaches only error returns and which rejects every violating value. A new consumer without a table entry fails the check. (R4) every multiplication or shift of a value read from the configuration object by a constant inside package config is dominated by an upper bound that keeps the product inside its type. (R6 = C20.R2) the hook list that is run is a full private copy of the list that was validated, element 0 the program. (R7 = C11.R7) a feed with no sources is an accepted configuration and ends at once. (R3, addition) arithmetic on a validated value on its way to its consumer counts as a new consumer. (R8 = C20.R6) the hook is not rewritten between the file and its consumers. Not decided: TOML parsing itself; that two hex digits parse to 0..255 (library semantics).",
		Assumptions: []string{"BurntSushi/toml reports unknown keys through MetaData.Undecoded", "strconv.ParseUint(s, 16, 0) of two characters is 0..255 or an error"},
		Rules: []Rule{
			{ID: "C19.R1", Title: "strict decoding, defaults first, exit on every error", Floor: 8, Run: c19R1},
			{ID: "C19.R2", Title: "every colour is converted by hexToAnsi with its error checked", Floor: 7, Run: c19R2},
			{ID: "C19.R3", Title: "every consumer assumption about a config value is validated", Floor: 15, Run: c19R3},
			{ID: "C19.R4", Title: "arithmetic on validated settings cannot overflow", Floor: 0, Run: c19R4},
			{ID: "C19.R8", Title: "what is validated at start-up is what is configured: the hook is not rewritten (expanded, trimmed, filtered) between the file and its consumers (same instances as C20.R6)", Floor: 1, Run: c20R6},
			{ID: "C19.R7", Title: "a feed configured with no sources is an accepted configuration and simply ends: the selection step of the splicer looks at sources only inside its loop over them (same instances as C11.R7)", Floor: 3, Run: c11R7},
			{ID: "C19.R6", Title: "the program of the media hook exists because the list that was validated at start-up is the list that is run: argv is a full private copy of config.Parsed.Media.Hook, element 0 the program (same instances as C20.R2)", Floor: 2, Run: c20R2},
			{ID: "C19.R5", Title: "an accepted configuration cannot crash the feed it names: source k of the feed is input k, for any number of inputs (same instances as C11.R8)", Floor: 1, Run: c11R8},
		},
	}
}

func c19R1(c *Ctx) {
	P := c.P
	parse := P.Func("servitor/config", "parse")
	name := FuncName(parse)
	var decode *ssa.Call
	eachInstr(parse, func(_ *ssa.BasicBlock, _ int, in ssa.Instruction) {
		if call, ok := in.(*ssa.Call); ok {
			if f := calleeObj(&call.Call); f != nil && f.Pkg() != nil && f.Pkg().Path() == "github.com/BurntSushi/toml" && strings.HasPrefix(f.Name(), "Decode") {
				decode = call
			}
		}
	})
	if decode == nil {
		c.bad(name+"/decode", P.Pos(parse.Pos()), name, "config.parse no longer decodes a TOML file")
		return
	}
	decErr, _ := errorResult(decode)
	meta := resultValue(decode, 0)
	// the object decoded into
	var target ssa.Value
	if mi, ok := decode.Call.Args[len(decode.Call.Args)-1].(*ssa.MakeInterface); ok {
		target = mi.X
	}
	ft := factsOf(parse)
	for _, b := range parse.Blocks {
		ret, ok := b.Instrs[len(b.Instrs)-1].(*ssa.Return)
		if !ok {
			continue
		}
		pos := P.InstrPos(ret)
		if !isNilConst(ret.Results[1]) {
			c.check(isNilConst(ret.Results[0]) && provablyNonNilErr(ret.Results[1], b, 0), name+"/return:error", pos, name, "rejects with a non-nil error and no configuration", "returns a configuration together with an error, or a possibly-nil error")
			continue
		}
		facts := ft.At(b)
		c.check(ret.Results[0] == target, name+"/return:same-object", pos, name, "returns the object that received the defaults", "the configuration returned is not the object the defaults were stored in / the file was decoded into")
		if !dominatesInstr(decode, ret) {
			// before decoding: only for an empty location
			okEmpty := false
			for _, f := range facts {
				if cmp, ok := f.Cmp(); ok && cmp.Op == token.EQL {
					if s, isC := constString(cmp.Y); isC && s == "" {
						if _, isParam := cmp.X.(*ssa.Parameter); isParam {
							okEmpty = true
						}
					}
				}
			}
			c.check(okEmpty, name+"/return:defaults-no-location", pos, name, "defaults returned only when there is no config location", "defaults are returned without decoding although a location is set")
			continue
		}
		// after decoding: on every path to this return either the file is missing
		// (defaults) or the decoder reported no error and left no key undecoded. A
		// return that several ways of accepting share (`goto ok` after inlining)
		// is judged way by way.
		judge := func(facts []Fact) (missing, okErr, undecoded bool) {
			for _, f := range facts {
				if e, s, truth, ok := f.ErrorsIs(); ok && truth && e == decErr {
					if u, ok := s.(*ssa.UnOp); ok {
						if g, ok := u.X.(*ssa.Global); ok && g.Name() == "ErrNotExist" {
							missing = true
						}
					}
				}
				cmp, ok := f.Cmp()
				if !ok || cmp.Op != token.EQL {
					continue
				}
				if decErr != nil && (cmp.X == decErr || unwrapLoad(cmp.X) == decErr) && isNilConst(cmp.Y) {
					okErr = true
				}
				if k, isC := constInt(cmp.Y); isC && k == 0 {
					if lc, ok := cmp.X.(*ssa.Call); ok {
						if bi, ok := lc.Call.Value.(*ssa.Builtin); ok && bi.Name() == "len" {
							if uc, ok := lc.Call.Args[0].(*ssa.Call); ok {
								if uf := calleeObj(&uc.Call); uf != nil && uf.Name() == "Undecoded" && (uc.Call.Args[0] == meta || unwrapLoad(uc.Call.Args[0]) == meta || metaOf(uc.Call.Args[0]) == meta) {
									undecoded = true
								}
							}
						}
					}
				}
			}
			return
		}
		missing, okErr, undecoded := judge(facts)
		if !missing && decErr != nil && knownNil(decErr, b) {
			okErr = true
		}
		if !missing && !(okErr && undecoded) {
			if paths, complete := enumeratePaths(parse, b, 512); complete && len(paths) > 0 {
				allMissing, allErr, allStrict := true, true, true
				for _, pf := range paths {
					m, e, u := judge(append(append([]Fact{}, facts...), pf.facts...))
					if m {
						continue
					}
					allMissing = false
					allErr = allErr && e
					allStrict = allStrict && u
				}
				if allMissing {
					missing = true
				} else {
					okErr, undecoded = allErr, allStrict
				}
			}
		}
		if missing {
			c.ok(name+"/return:defaults-missing-file", pos, name, "a missing file falls back to the defaults")
			continue
		}
		c.check(okErr, name+"/return:decode-error-checked", pos, name, "accepted only if decoding reported no error", "a configuration is accepted although the TOML decoder reported an error (syntax error, wrong value type)")
		c.check(undecoded, name+"/return:strict", pos, name, "accepted only if len(metadata.Undecoded()) == 0", "a configuration with unknown keys is accepted (strict decoding removed)")
	}
	// defaults before decoding, into the same object
	nDefaults := 0
	if a, ok := target.(*ssa.Alloc); ok {
		eachInstr(parse, func(_ *ssa.BasicBlock, _ int, in ssa.Instruction) {
			st, ok := in.(*ssa.Store)
			if !ok {
				return
			}
			if rootAddr(st.Addr) == ssa.Value(a) {
				nDefaults++
				if !dominatesInstr(st, decode) {
					c.bad(name+"/default-after-decode", P.InstrPos(in), name, "a default is stored after decoding: it overwrites the user's value")
				}
			}
		})
	}
	c.check(nDefaults >= 9, name+"/defaults", P.Pos(parse.Pos()), name, fmt.Sprintf("%d defaults stored before decoding", nDefaults), fmt.Sprintf("only %d defaults are stored before decoding (missing keys would be zero values)", nDefaults))
	// init exits on every error
	var initFn *ssa.Function
	for _, fn := range P.FuncsIn("servitor/config") {
		if strings.HasPrefix(fn.Name(), "init#") {
			initFn = fn
		}
	}
	if initFn == nil {
		broken("config has no init function")
	}
	iname := FuncName(initFn)
	for _, callee := range []string{"parse", "postprocess"} {
		found := false
		eachInstr(initFn, func(_ *ssa.BasicBlock, _ int, in ssa.Instruction) {
			call, ok := in.(*ssa.Call)
			if !ok || call.Call.StaticCallee() == nil || call.Call.StaticCallee().Name() != callee {
				return
			}
			found = true
			e, _ := errorResult(call)
			okExit := false
			if e != nil {
				for _, r := range refs(e) {
					// err may be stored in a local first
					_ = r
				}
				okExit = errorLeadsToExit(initFn, e)
			}
			c.check(okExit, iname+"/exit-on-error:"+callee, P.InstrPos(in), iname, "a failing "+callee+" ends in a diagnostic and os.Exit(non-zero)", "an error of config."+callee+" does not end the program: servitor would run with a rejected configuration")
		})
		c.check(found, iname+"/calls:"+callee, P.Pos(initFn.Pos()), iname, callee+" runs at start-up", "the package initialiser no longer calls "+callee)
	}
}

func metaOf(v ssa.Value) ssa.Value {
	// metadata is a struct value often spilled into a local and its address taken
	if a, ok := v.(*ssa.Alloc); ok {
		if sts := wholeStores(a); len(sts) == 1 {
			return sts[0]
		}
	}
	return unwrapLoad(v)
}

// errorLeadsToExit: on the edge where e != nil every path calls os.Exit with a
// non-zero constant after writing a diagnostic.
func errorLeadsToExit(fn *ssa.Function, e ssa.Value) bool {
	res := false
	eachInstr(fn, func(b *ssa.BasicBlock, _ int, in ssa.Instruction) {
		iff, ok := in.(*ssa.If)
		if !ok {
			return
		}
		cmp, ok := iff.Cond.(*ssa.BinOp)
		if !ok || !(isNilConst(cmp.X) || isNilConst(cmp.Y)) {
			return
		}
		other := cmp.X
		if isNilConst(other) {
			other = cmp.Y
		}
		if other != e && unwrapLoad(other) != e && path(other) != path(e) {
			return
		}
		branch := b.Succs[0]
		if cmp.Op == token.EQL {
			branch = b.Succs[1]
		}
		// straight-line: the branch block must contain a write to stderr and os.Exit(k != 0)
		wrote, exited := false, false
		for _, bi := range branch.Instrs {
			if cc := callOf(bi); cc != nil {
				// a helper that reports and terminates
				if sc := cc.StaticCallee(); sc != nil && len(sc.Blocks) > 0 && reportsAndExits(sc) {
					exited = true
				}
				if isLibCall(cc, "os", "File", "WriteString") || isLibCall(cc, "os", "File", "Write") || isLibCall(cc, "fmt", "", "Fprintln") || isLibCall(cc, "fmt", "", "Fprintf") {
					wrote = true
				}
				if isLibCall(cc, "os", "", "Exit") {
					if k, isC := constInt(cc.Args[0]); isC && k != 0 && wrote {
						exited = true
					}
				}
			}
		}
		if exited {
			res = true
		}
	})
	return res
}

func colourFields(P *Program) []*types.Var {
	cfg := P.NamedType("servitor/config", "Config").Underlying().(*types.Struct)
	var out []*types.Var
	var walk func(st *types.Struct, in bool)
	walk = func(st *types.Struct, in bool) {
		for i := 0; i < st.NumFields(); i++ {
			f := st.Field(i)
			if sub, ok := f.Type().Underlying().(*types.Struct); ok {
				walk(sub, in || f.Name() == "Colors")
			} else if in {
				out = append(out, f)
			}
		}
	}
	walk(cfg, false)
	return out
}

func c19R2(c *Ctx) {
	P := c.P
	post := P.Func("servitor/config", "postprocess")
	hex := P.Func("servitor/config", "hexToAnsi")
	name := FuncName(post)
	colours := colourFields(P)
	if len(colours) == 0 {
		broken("no colour fields in config.Config.Style.Colors")
	}
	for _, fld := range colours {
		okStore := false
		why := "postprocess never stores hexToAnsi(" + fld.Name() + ") back into " + fld.Name()
		eachInstr(post, func(_ *ssa.BasicBlock, _ int, in ssa.Instruction) {
			st, ok := in.(*ssa.Store)
			if !ok {
				return
			}
			fa, ok := st.Addr.(*ssa.FieldAddr)
			if !ok || fieldOf(fa) != fld {
				return
			}
			ex, ok := st.Val.(*ssa.Extract)
			if !ok || ex.Index != 0 {
				why = "the value stored into " + fld.Name() + " is not the result of hexToAnsi"
				return
			}
			call, ok := ex.Tuple.(*ssa.Call)
			if !ok || call.Call.StaticCallee() != hex {
				why = "the value stored into " + fld.Name() + " is not the result of hexToAnsi"
				return
			}
			// argument: load of the same field of the same object
			arg := call.Call.Args[0]
			same := false
			if u, ok := arg.(*ssa.UnOp); ok {
				if afa, ok := u.X.(*ssa.FieldAddr); ok && fieldOf(afa) == fld && path(afa.X) == path(fa.X) {
					same = true
				}
			}
			if !same {
				why = fld.Name() + " is computed from a different field"
				return
			}
			e, _ := errorResult(call)
			if e == nil {
				why = "the error of hexToAnsi(" + fld.Name() + ") is dropped"
				return
			}
			checked := false
			for _, r := range refs(e) {
				if cmp, ok := r.(*ssa.BinOp); ok && nonNilBranchFails(cmp) {
					checked = true
				}
			}
			if !checked {
				why = "a malformed " + fld.Name() + " colour does not make postprocess fail"
				return
			}
			okStore = true
		})
		if !okStore {
			// table form: &colors.F sits in a local table of pointers, and a range
			// loop over the whole table stores hexToAnsi(*p) back through p, error checked
			if ok2, why2 := colourViaTable(P, post, hex, fld); ok2 {
				okStore = true
			} else if why2 != "" {
				why = why2
			}
		}
		c.check(okStore, name+"/colour:"+fld.Name(), P.Pos(fld.Pos()), name, "converted by hexToAnsi of the same field, error checked", why)
	}
	// hexToAnsi
	hname := FuncName(hex)
	text := hex.Params[0]
	nComponents := 0
	eachInstr(hex, func(b *ssa.BasicBlock, _ int, in ssa.Instruction) {
		switch x := in.(type) {
		case *ssa.Slice:
			if unwrapLoad(x.X) != ssa.Value(text) {
				return
			}
			lenOK := false
			hi, _ := constInt(x.High)
			for _, f := range factsOf(hex).At(b) {
				cmp, ok := f.Cmp()
				if !ok || cmp.Op != token.EQL {
					continue
				}
				if k, isC := constInt(cmp.Y); isC && k >= hi {
					if lc, ok := cmp.X.(*ssa.Call); ok {
						if bi, ok := lc.Call.Value.(*ssa.Builtin); ok && bi.Name() == "len" && unwrapLoad(lc.Call.Args[0]) == ssa.Value(text) {
							lenOK = true
						}
					}
				}
			}
			c.check(lenOK, hname+"/slice", P.InstrPos(in), hname, "slice with constant bounds under len(text) == 7", "colour text sliced without the length being established (panics on short input)")
		case *ssa.Call:
			if isLibCall(&x.Call, "strconv", "", "ParseInt") || isLibCall(&x.Call, "strconv", "", "Atoi") {
				c.bad(hname+"/parse", P.InstrPos(in), hname, "colour digits are parsed with a signed parser: \"#-12345\" is accepted and yields a negative colour component (a malformed SGR code)")
				return
			}
			if isLibCall(&x.Call, "strconv", "", "ParseUint") {
				base, _ := constInt(x.Call.Args[1])
				e, _ := errorResult(x)
				checked := false
				if e != nil {
					for _, r := range refs(e) {
						if cmp, ok := r.(*ssa.BinOp); ok && nonNilBranchFails(cmp) {
							checked = true
						}
					}
				}
				sl, isSlice := x.Call.Args[0].(*ssa.Slice)
				two := false
				inLoop := 1
				if isSlice {
					lo, ok1 := constInt(sl.Low)
					hi, ok2 := constInt(sl.High)
					two = ok1 && ok2 && hi-lo == 2
					if !two && sl.Low != nil && sl.High != nil {
						// text[start:start+2] with a counter that takes constant values
						if vals, okC := constCounterValues(sl.Low); okC && lin(sl.High).add(lin(sl.Low), -1).String() == linConst(2).String() {
							two = true
							inLoop = len(vals)
							for _, v := range vals {
								if v < 1 || v+2 > 7 {
									two = false
								}
							}
						}
					}
				}
				if base == 16 && checked && isSlice && two {
					nComponents += inLoop
				}
				c.check(base == 16 && checked && isSlice && two, hname+"/parse", P.InstrPos(in), hname, "two hex digits parsed (unsigned) base 16, error checked", "a colour component is not parsed as two checked unsigned base-16 digits of the text (components above 255 or signs become possible)")
			}
		}
	})
	c.check(nComponents == 3, hname+"/components", P.Pos(hex.Pos()), hname, "three colour components, each two checked unsigned base-16 digits",
		fmt.Sprintf("hexToAnsi obtains %d of its three components from strconv.ParseUint of two digits: another parser decides what a well-formed colour is (signs, blanks or trailing text can be accepted, components can leave 0..255)", nComponents))
	for _, b := range hex.Blocks {
		if ret, ok := b.Instrs[len(b.Instrs)-1].(*ssa.Return); ok && !isNilConst(ret.Results[1]) {
			s, isC := constString(ret.Results[0])
			c.check(isC && s == "" && provablyNonNilErr2(ret.Results[1], b), hname+"/return:error", P.InstrPos(ret), hname, "malformed colour rejected", "hexToAnsi returns a value with an error or a possibly-nil error")
		}
	}
}

func provablyNonNilErr2(v ssa.Value, b *ssa.BasicBlock) bool {
	if provablyNonNilErr(v, b, 0) {
		return true
	}
	// a local error variable created once by errors.New
	w := unwrapLoad(v)
	if w != v && provablyNonNilErr(w, b, 0) {
		return true
	}
	// a package-level error value: `var errX = errors.New(…)`, assigned by the initialiser only
	if ld, ok := v.(*ssa.UnOp); ok && ld.Op == token.MUL {
		if g, ok := ld.X.(*ssa.Global); ok && g.Pkg != nil {
			n, good := 0, true
			for _, m := range g.Pkg.Members {
				f, ok := m.(*ssa.Function)
				if !ok {
					continue
				}
				for _, ff := range append([]*ssa.Function{f}, f.AnonFuncs...) {
					eachInstr(ff, func(_ *ssa.BasicBlock, _ int, in ssa.Instruction) {
						st, ok := in.(*ssa.Store)
						if !ok || st.Addr != ssa.Value(g) {
							return
						}
						n++
						call, isCall := st.Val.(*ssa.Call)
						if ff.Name() != "init" || !isCall || !(isLibCall(&call.Call, "errors", "", "New") || isLibCall(&call.Call, "fmt", "", "Errorf")) {
							good = false
						}
					})
				}
			}
			return n == 1 && good
		}
	}
	return false
}

// consumerReq describes what a consumer needs from a config field.
type consumerReq struct {
	field string // dotted path below Config
	need  string // "", "len>=1", ">=0", ">0"
	why   string
}

var consumerTable = []consumerReq{
	{"Feeds", "", "map lookup only"},
	{"Media.Hook", "len>=1", "ui.openExternally indexes element 0 and slices [1:]"},
	{"Style.Colors.Primary", "", "validated by hexToAnsi (R2)"},
	{"Style.Colors.Error", "", "validated by hexToAnsi (R2)"},
	{"Style.Colors.Highlight", "", "validated by hexToAnsi (R2)"},
	{"Style.Colors.Code", "", "validated by hexToAnsi (R2)"},
	{"Network.Context", ">=0", "converted to uint for Harvest/Parents and used as loop bound in ui"},
	{"Network.Timeout", ">0", "dial timeout and I/O deadline in jtp (zero or negative: no timeout / immediate expiry)"},
	{"Network.CacheSize", ">0", "lru.New fails for size <= 0 and its nil result is dereferenced by every fetch"},
}

// configFieldPath: for an address rooted at config.Parsed (or a *Config
// parameter inside package config) returns the dotted field path.
func configFieldPath(v ssa.Value) (string, bool) {
	var parts []string
	for d := 0; d < 8; d++ {
		switch x := v.(type) {
		case *ssa.FieldAddr:
			parts = append([]string{fieldOf(x).Name()}, parts...)
			v = x.X
		case *ssa.Field:
			parts = append([]string{fieldOf(x).Name()}, parts...)
			v = x.X
		case *ssa.UnOp:
			if x.Op != token.MUL {
				return "", false
			}
			if g, ok := x.X.(*ssa.Global); ok && g.Name() == "Parsed" && g.Pkg.Pkg.Path() == "servitor/config" {
				return strings.Join(parts, "."), len(parts) > 0
			}
			v = x.X
		case *ssa.Parameter:
			if isNamed(x.Type(), "servitor/config", "Config") {
				return strings.Join(parts, "."), len(parts) > 0
			}
			return "", false
		case *ssa.Alloc:
			if isNamed(x.Type(), "servitor/config", "Config") {
				return strings.Join(parts, "."), len(parts) > 0
			}
			// a local copy of a part of the configuration (`network := config.Network`),
			// assigned once and never written through: reads of the copy are reads of the original
			sts := storesToAlloc(x)
			if len(sts) != 1 {
				return "", false
			}
			for _, r := range refs(x) {
				if fa, ok := r.(*ssa.FieldAddr); ok {
					for _, rr := range refs(fa) {
						if st, ok := rr.(*ssa.Store); ok && st.Addr == ssa.Value(fa) {
							return "", false
						}
					}
				}
			}
			v = sts[0].Val
		default:
			return "", false
		}
	}
	return "", false
}

func c19R3(c *Ctx) {
	P := c.P
	table := map[string]consumerReq{}
	for _, r := range consumerTable {
		table[r.field] = r
	}
	// every read of a config field outside package config is in the table
	reads := map[string][]string{}
	for _, fn := range P.Funcs {
		if P.PkgOf(fn) == "servitor/config" {
			continue
		}
		eachInstr(fn, func(_ *ssa.BasicBlock, _ int, in ssa.Instruction) {
			u, ok := in.(*ssa.UnOp)
			if !ok || u.Op != token.MUL {
				return
			}
			if _, isFA := u.X.(*ssa.FieldAddr); !isFA {
				return
			}
			fp, ok := configFieldPath(u.X)
			if !ok {
				return
			}
			// only leaves (non-struct values)
			if _, isStruct := u.Type().Underlying().(*types.Struct); isStruct {
				return
			}
			reads[fp] = append(reads[fp], P.InstrPos(in))
			_, known := table[fp]
			c.check(known, FuncName(fn)+"/config-read:"+fp, P.InstrPos(in), FuncName(fn),
				"consumer of config value "+fp+" is in the consumer table ("+table[fp].why+")",
				"new consumer of config value "+fp+" without an entry in the consumer table: its assumptions about the value are not known to be validated")
		})
	}
	// the consumer whose requirement the table records must still be the consumer
	wantUse := map[string][]string{
		"Network.CacheSize": {"github.com/hashicorp/golang-lru/v2.New"},
		"Network.Timeout":   {"(time.Time).Add", "store:net.Dialer.Timeout"},
		"Media.Hook":        {"builtin:len", "builtin:copy", "builtin:append", "slices.Clone", "golang.org/x/exp/slices.Clone"},
	}
	for _, fn := range P.Funcs {
		if P.PkgOf(fn) == "servitor/config" {
			continue
		}
		eachInstr(fn, func(_ *ssa.BasicBlock, _ int, in ssa.Instruction) {
			u, ok := in.(*ssa.UnOp)
			if !ok || u.Op != token.MUL {
				return
			}
			if _, isFA := u.X.(*ssa.FieldAddr); !isFA {
				return
			}
			fp, ok := configFieldPath(u.X)
			if !ok || wantUse[fp] == nil {
				return
			}
			for _, r := range refs(u) {
				use := ""
				switch x := r.(type) {
				case ssa.CallInstruction:
					cc := x.Common()
					if b, ok := cc.Value.(*ssa.Builtin); ok {
						use = "builtin:" + b.Name()
					} else {
						use = objFullName(calleeObj(cc))
					}
				case *ssa.Store:
					if fa, ok := x.Addr.(*ssa.FieldAddr); ok {
						if o := structOwner(fa); o != nil && o.Obj().Pkg() != nil {
							use = "store:" + o.Obj().Pkg().Name() + "." + o.Obj().Name() + "." + fieldOf(fa).Name()
						}
					}
				case *ssa.DebugRef:
					continue
				case *ssa.BinOp:
					switch x.Op {
					case token.ADD, token.SUB, token.MUL, token.QUO, token.REM, token.SHL, token.SHR:
						// what reaches the consumer is no longer the validated value but something computed from it
						use = "arithmetic (" + x.Op.String() + ") at " + P.InstrPos(x)
					default:
						continue // comparisons do not consume the value
					}
				default:
					continue
				}
				okUse := false
				for _, w := range wantUse[fp] {
					if use == w {
						okUse = true
					}
				}
				c.check(okUse, FuncName(fn)+"/config-use:"+fp, P.InstrPos(r), FuncName(fn),
					fp+" is consumed by "+use+", whose requirement the consumer table records",
					fp+" is now consumed by "+use+": the value range that consumer needs is not the one config validates (table entry: "+strings.Join(wantUse[fp], ", ")+")")
			}
		})
	}
	var rk []string
	for k, v := range reads {
		rk = append(rk, fmt.Sprintf("%s×%d", k, len(v)))
	}
	sort.Strings(rk)
	c.info("config_reads", rk)
	// each requirement is validated inside package config
	for _, req := range consumerTable {
		if req.need == "" {
			continue
		}
		ok, why := validated(P, req)
		c.check(ok, "servitor/config/validates:"+req.field, "config/config.go", "servitor/config.postprocess",
			"config rejects values of "+req.field+" violating "+req.need+" ("+req.why+")",
			"no start-up validation rejects "+req.field+" values violating "+req.need+": "+req.why+" — "+why)
	}
}

// validated: some function of package config (parse / postprocess chain)
// compares the field against a constant such that the failing edge reaches only
// error returns and every violating sample value takes that edge.
func validated(P *Program, req consumerReq) (bool, string) {
	var samples []int64 // values that must be rejected
	switch req.need {
	case "len>=1":
		samples = []int64{0}
	case ">=0":
		samples = []int64{-1, -2, -1000000}
	case ">0":
		samples = []int64{0, -1, -1000000}
	}
	var accept []int64 // values that must not be rejected by this comparison alone
	switch req.need {
	case "len>=1":
		accept = []int64{1, 2}
	case ">=0":
		accept = []int64{0, 5}
	case ">0":
		accept = []int64{1, 10}
	}
	why := "no comparison of this field found in package config"
	rejected := map[int64]bool{}
	type candidate struct {
		cmp                   *ssa.BinOp
		at                    ssa.Instruction
		trueFails, falseFails bool
		direct                bool
	}
	for _, fn := range P.FuncsIn("servitor/config") {
		var cands []candidate
		for _, b := range fn.Blocks {
			if len(b.Instrs) == 0 {
				continue
			}
			iff, ok := b.Instrs[len(b.Instrs)-1].(*ssa.If)
			if !ok {
				continue
			}
			if cmp, ok := iff.Cond.(*ssa.BinOp); ok {
				cands = append(cands, candidate{cmp, iff, onlyErrorReturnsFrom(b.Succs[0]), onlyErrorReturnsFrom(b.Succs[1]), true})
			}
		}
		// comparisons evaluated into a table of checks that a loop runs through, failing on the first that is true
		for _, tc := range tableTestedComparisons(fn) {
			cands = append(cands, candidate{tc.cmp, tc.cmp, true, false, false})
		}
		for _, cd := range cands {
			cmp, iff := cd.cmp, cd.at
			{
				// (scope kept for the code below)
			}
			x, y, op := cmp.X, cmp.Y, cmp.Op
			if _, isC := x.(*ssa.Const); isC {
				x, y = y, x
				op = flipOp(op)
			}
			k, isC := constInt(y)
			if !isC {
				continue
			}
			// x: the field value (or its len)
			val := x
			isLen := false
			if lc, ok := x.(*ssa.Call); ok {
				if bi, ok := lc.Call.Value.(*ssa.Builtin); ok && bi.Name() == "len" {
					val = lc.Call.Args[0]
					isLen = true
				}
			}
			// a widening conversion between signed integers keeps the value (`int64(network.Context) < 0`)
			for d := 0; d < 3; d++ {
				val = unwrapLoad(val)
				if ct, isCT := val.(*ssa.ChangeType); isCT {
					val = ct.X // time.Duration <-> int64: the same integer
					continue
				}
				cv, isCv := val.(*ssa.Convert)
				if !isCv {
					break
				}
				from, ok1 := cv.X.Type().Underlying().(*types.Basic)
				to, ok2 := cv.Type().Underlying().(*types.Basic)
				if !ok1 || !ok2 || from.Info()&types.IsInteger == 0 || to.Info()&types.IsInteger == 0 || from.Info()&types.IsUnsigned != 0 || to.Info()&types.IsUnsigned != 0 {
					break
				}
				if sizeOfInt(to) < sizeOfInt(from) {
					break
				}
				val = cv.X
			}
			u, ok := val.(*ssa.UnOp)
			if !ok {
				continue
			}
			fp, ok := configFieldPath(u.X)
			if !ok || fp != req.field || isLen != (req.need == "len>=1") {
				continue
			}
			trueFails := cd.trueFails
			falseFails := cd.falseFails
			if !trueFails && !falseFails {
				why = "the comparison at " + P.InstrPos(iff) + " does not lead to an error return"
				continue
			}
			eval := func(v int64) bool {
				switch op {
				case token.LSS:
					return v < k
				case token.LEQ:
					return v <= k
				case token.GTR:
					return v > k
				case token.GEQ:
					return v >= k
				case token.EQL:
					return v == k
				case token.NEQ:
					return v != k
				}
				return false
			}
			for _, s := range samples {
				r := eval(s)
				if (r && trueFails) || (!r && falseFails) {
					rejected[s] = true
				}
			}
			for _, a := range accept {
				r := eval(a)
				if (r && trueFails && !falseFails) || (!r && falseFails && !trueFails) {
					return false, fmt.Sprintf("the comparison at %s rejects the legitimate value %d", P.InstrPos(iff), a)
				}
			}
			// the validation must happen before the value is rescaled (Timeout *= time.Second keeps the sign)
		}
	}
	for _, s := range samples {
		if !rejected[s] {
			if len(rejected) > 0 {
				why = fmt.Sprintf("value %d is not rejected", s)
			}
			return false, why
		}
	}
	return true, ""
}

// reportsAndExits: fn writes a diagnostic and then calls os.Exit with a
// non-zero constant on every path (the exit dominates every return).
func reportsAndExits(fn *ssa.Function) bool {
	var exit, write ssa.Instruction
	eachInstr(fn, func(_ *ssa.BasicBlock, _ int, in ssa.Instruction) {
		cc := callOf(in)
		if cc == nil {
			return
		}
		if isLibCall(cc, "os", "", "Exit") {
			if k, isC := constInt(cc.Args[0]); isC && k != 0 {
				exit = in
			}
		}
		if isLibCall(cc, "os", "File", "WriteString") || isLibCall(cc, "os", "File", "Write") || isLibCall(cc, "fmt", "", "Fprintln") || isLibCall(cc, "fmt", "", "Fprintf") || isLibCall(cc, "fmt", "", "Fprint") {
			write = in
		}
	})
	if exit == nil || write == nil || !dominatesInstr(write, exit) {
		return false
	}
	return dominatesAllReturns(exit)
}

// c19R4: a setting is validated in the unit the user writes (seconds) and
// consumed in another (nanoseconds): between the two, package config scales
// it. A validated positive value times a constant can wrap around to a
// negative one, which the consumers were promised never to see. Every
// multiplication (or left shift) of a value read from the configuration object
// by a constant k inside package config must be dominated by an upper bound
// v <= C (or v < C) on that very value with C·k inside the range of its type.
func c19R4(c *Ctx) {
	P := c.P
	n := 0
	for _, fn := range P.FuncsIn("servitor/config") {
		fname := FuncName(fn)
		eachInstr(fn, func(b *ssa.BasicBlock, _ int, in ssa.Instruction) {
			bo, ok := in.(*ssa.BinOp)
			if !ok || (bo.Op != token.MUL && bo.Op != token.SHL) || !isInteger(bo.Type()) {
				return
			}
			var v ssa.Value
			var k int64
			if kk, isC := constInt(bo.Y); isC {
				v, k = bo.X, kk
			} else if kk, isC := constInt(bo.X); isC && bo.Op == token.MUL {
				v, k = bo.Y, kk
			} else {
				return
			}
			if bo.Op == token.SHL {
				if k < 0 || k > 62 {
					return
				}
				k = int64(1) << uint(k)
			}
			// only values read from the configuration object
			vp := path(v)
			if !strings.Contains(vp, ".&") || k <= 1 {
				return
			}
			bt, ok := bo.Type().Underlying().(*types.Basic)
			if !ok {
				return
			}
			var max int64 = math.MaxInt64
			switch bt.Kind() {
			case types.Int32:
				max = math.MaxInt32
			case types.Int16:
				max = math.MaxInt16
			case types.Int8:
				max = math.MaxInt8
			case types.Uint32:
				max = math.MaxUint32
			case types.Uint16:
				max = math.MaxUint16
			case types.Uint8:
				max = math.MaxUint8
			}
			n++
			bounded := false
			facts := factsOf(fn).At(b)
			// comparisons that a table-of-checks loop has run through before this point are known to be false
			for _, tc := range tableTestedComparisons(fn) {
				if tc.header.Dominates(b) && !blockInLoop(tc.header, b) {
					facts = append(facts, Fact{tc.cmp, false})
				}
			}
			for _, f := range facts {
				cmp, ok := f.Cmp()
				if !ok {
					continue
				}
				x, y, op := cmp.X, cmp.Y, cmp.Op
				if _, isC := constInt(x); isC {
					x, y = y, x
					switch op {
					case token.LSS:
						op = token.GTR
					case token.LEQ:
						op = token.GEQ
					case token.GTR:
						op = token.LSS
					case token.GEQ:
						op = token.LEQ
					}
				}
				bound, isC := constInt(y)
				if !isC {
					continue
				}
				if path(x) != vp {
					// the same setting read through a local copy of its section (`network := config.Network`)
					same := false
					if ux, ok := x.(*ssa.UnOp); ok && ux.Op == token.MUL {
						if uv, ok := v.(*ssa.UnOp); ok && uv.Op == token.MUL {
							px, okx := configFieldPath(ux.X)
							pv, okv := configFieldPath(uv.X)
							same = okx && okv && px == pv
						}
					}
					if !same {
						continue
					}
				}
				if op == token.LSS {
					bound--
				} else if op != token.LEQ {
					continue
				}
				if bound >= 0 && bound <= max/k {
					bounded = true
				}
			}
			field := vp[strings.LastIndex(vp, ".&")+2:]
			c.check(bounded, fname+"/scaled:"+strings.TrimSuffix(field, ".*"), P.InstrPos(in), fname,
				fmt.Sprintf("an upper bound dominates the scaling by %d", k),
				fmt.Sprintf("a setting is multiplied by %d without an upper bound having been checked: a large accepted value wraps around (e.g. timeout_seconds = 9999999999 becomes a negative duration, and every fetch fails at once)", k))
		})
	}
	c.info("scalings", n)
}

// colourViaTable: the address of the colour field travels through a local
// table (a slice of pointers, or of structs holding one), and a range loop
// converts every element in place: some store writes result #0 of hexToAnsi(*p)
// back through the same pointer expression p, with the error checked, inside a
// range loop, and p can be the address of this field (backward value flow of
// the pointer).
func colourViaTable(P *Program, post, hex *ssa.Function, fld *types.Var) (bool, string) {
	f := c01FlowCached(P)
	okLoop, why := false, ""
	eachInstr(post, func(b *ssa.BasicBlock, _ int, in ssa.Instruction) {
		st, ok := in.(*ssa.Store)
		if !ok || okLoop {
			return
		}
		ex, ok := st.Val.(*ssa.Extract)
		if !ok || ex.Index != 0 {
			return
		}
		call, ok := ex.Tuple.(*ssa.Call)
		if !ok || call.Call.StaticCallee() != hex {
			return
		}
		if _, direct := st.Addr.(*ssa.FieldAddr); direct {
			return
		}
		// may the pointer be &colors.F ?
		reaches := false
		f.Backward(f.val(st.Addr), func(n int) bool {
			k := f.keys[n]
			if k.kind == nValue {
				if fa, ok := k.v.(*ssa.FieldAddr); ok && fieldOf(fa) == fld {
					reaches = true
					return true
				}
			}
			return false
		})
		if !reaches {
			return
		}
		arg, ok := call.Call.Args[0].(*ssa.UnOp)
		if !ok || path(arg.X) != path(st.Addr) {
			why = "a colour in the table is computed from another element"
			return
		}
		// inside a range loop (over the table)
		inRange := false
		for _, blk := range post.Blocks {
			if !blk.Dominates(b) {
				continue
			}
			for _, hi := range blk.Instrs {
				if ph, ok := hi.(*ssa.Phi); ok && ph.Comment == "rangeindex" {
					inRange = true
				}
			}
		}
		if !inRange {
			why = "the table of colours is not walked by a range loop"
			return
		}
		e, _ := errorResult(call)
		checked := false
		if e != nil {
			for _, r := range refs(e) {
				if cmp, ok := r.(*ssa.BinOp); ok && nonNilBranchFails(cmp) {
					checked = true
				}
			}
		}
		if !checked {
			why = "a malformed colour in the table does not make postprocess fail"
			return
		}
		okLoop = true
	})
	return okLoop, why
}

// constCounterValues: v is a loop counter with a constant start, a constant
// positive step and a constant exclusive (or inclusive) upper bound tested at
// the loop head; the values it takes in the loop body.
func constCounterValues(v ssa.Value) ([]int64, bool) {
	ph, ok := v.(*ssa.Phi)
	if !ok {
		return nil, false
	}
	var init, step int64
	haveInit, haveStep := false, false
	for _, e := range ph.Edges {
		if k, isC := constInt(e); isC {
			if haveInit {
				return nil, false
			}
			init, haveInit = k, true
			continue
		}
		bo, ok := e.(*ssa.BinOp)
		if !ok || bo.Op != token.ADD || bo.X != ssa.Value(ph) {
			return nil, false
		}
		k, isC := constInt(bo.Y)
		if !isC || k < 1 || (haveStep && k != step) {
			return nil, false
		}
		step, haveStep = k, true
	}
	if !haveInit || !haveStep {
		return nil, false
	}
	b := ph.Block()
	iff, ok := b.Instrs[len(b.Instrs)-1].(*ssa.If)
	if !ok {
		return nil, false
	}
	cmp, ok := iff.Cond.(*ssa.BinOp)
	if !ok || cmp.X != ssa.Value(ph) {
		return nil, false
	}
	bound, isC := constInt(cmp.Y)
	if !isC {
		return nil, false
	}
	switch cmp.Op {
	case token.LSS:
	case token.LEQ:
		bound++
	default:
		return nil, false
	}
	var out []int64
	for x := init; x < bound && len(out) < 64; x += step {
		out = append(out, x)
	}
	return out, len(out) > 0
}

// tableTestedComparisons: comparisons whose boolean result is stored into a
// field F of the elements of a local table, where a range loop over that very
// table tests F of every element and leaves through error returns only when it
// is true. After the loop every such comparison is known to have been false.
type tableTested struct {
	cmp    *ssa.BinOp
	header *ssa.BasicBlock // the head of the loop that runs through the table
}

func tableTestedComparisons(fn *ssa.Function) []tableTested {
	var out []tableTested
	eachInstr(fn, func(_ *ssa.BasicBlock, _ int, in ssa.Instruction) {
		cmp, ok := in.(*ssa.BinOp)
		if !ok {
			return
		}
		switch cmp.Op {
		case token.EQL, token.NEQ, token.LSS, token.LEQ, token.GTR, token.GEQ:
		default:
			return
		}
		for _, r := range refs(cmp) {
			st, ok := r.(*ssa.Store)
			if !ok || st.Val != ssa.Value(cmp) {
				continue
			}
			// into field F of a composite element …
			fa, ok := st.Addr.(*ssa.FieldAddr)
			if !ok {
				continue
			}
			fld := fieldOf(fa)
			// … that is, or is copied into, a slot of a local array
			var table *ssa.Alloc
			switch base := fa.X.(type) {
			case *ssa.IndexAddr:
				table, _ = base.X.(*ssa.Alloc)
			case *ssa.Alloc:
				// a temporary literal that is then stored into the slot
				for _, rr := range refs(base) {
					if ld, ok := rr.(*ssa.UnOp); ok && ld.Op == token.MUL {
						for _, r3 := range refs(ld) {
							if st2, ok := r3.(*ssa.Store); ok && st2.Val == ssa.Value(ld) {
								if ia, ok := st2.Addr.(*ssa.IndexAddr); ok {
									table, _ = ia.X.(*ssa.Alloc)
								}
							}
						}
					}
				}
			}
			if table == nil {
				continue
			}
			// the loop: an If on field F of the current element of (a slice of) the table, true branch fails
			for _, b := range fn.Blocks {
				if len(b.Instrs) == 0 {
					continue
				}
				iff, ok := b.Instrs[len(b.Instrs)-1].(*ssa.If)
				if !ok {
					continue
				}
				ld, ok := iff.Cond.(*ssa.UnOp)
				if !ok || ld.Op != token.MUL {
					continue
				}
				fa2, ok := ld.X.(*ssa.FieldAddr)
				if !ok || fieldOf(fa2) != fld {
					continue
				}
				if !elementOfTable(fa2.X, table, 0) || !onlyErrorReturnsFrom(b.Succs[0]) {
					continue
				}
				// the loop head: the block with the range index phi that dominates b
				var header *ssa.BasicBlock
				for _, hb := range fn.Blocks {
					if !hb.Dominates(b) {
						continue
					}
					for _, hi := range hb.Instrs {
						if ph, ok := hi.(*ssa.Phi); ok && ph.Comment == "rangeindex" {
							header = hb
						}
					}
				}
				if header != nil {
					out = append(out, tableTested{cmp, header})
				}
			}
		}
	})
	return out
}

// elementOfTable: v is the address of the current element of a range over the
// table (directly, or of a local copy of it).
func elementOfTable(v ssa.Value, table *ssa.Alloc, d int) bool {
	if d > 4 {
		return false
	}
	switch x := v.(type) {
	case *ssa.IndexAddr:
		switch b := x.X.(type) {
		case *ssa.Alloc:
			return b == table
		case *ssa.Slice:
			return b.X == ssa.Value(table)
		}
	case *ssa.Alloc:
		// a local copy: *x = *(&slice[i])
		for _, r := range refs(x) {
			if st, ok := r.(*ssa.Store); ok && st.Addr == ssa.Value(x) {
				if ld, ok := st.Val.(*ssa.UnOp); ok && ld.Op == token.MUL && elementOfTable(ld.X, table, d+1) {
					return true
				}
			}
		}
	}
	return false
}

// blockInLoop: b can reach the loop head again (it lies inside the loop).
func blockInLoop(header, b *ssa.BasicBlock) bool {
	seen := map[*ssa.BasicBlock]bool{}
	var walk func(x *ssa.BasicBlock) bool
	walk = func(x *ssa.BasicBlock) bool {
		if x == header {
			return true
		}
		if seen[x] {
			return false
		}
		seen[x] = true
		for _, s := range x.Succs {
			if walk(s) {
				return true
			}
		}
		return false
	}
	for _, s := range b.Succs {
		if walk(s) {
			return true
		}
	}
	return false
}

func sizeOfInt(b *types.Basic) int {
	switch b.Kind() {
	case types.Int8, types.Uint8:
		return 1
	case types.Int16, types.Uint16:
		return 2
	case types.Int32, types.Uint32:
		return 4
	}
	return 8 // int, int64, uint, uint64, uintptr on the platforms servitor builds for
}
