package main

import (
	"fmt"
	"go/token"
	"go/types"
	"strings"

	"golang.org/x/tools/go/ssa"
)

func init() {
	registry["C18"] = func() *Property {
		return &Property{
			ID:          "C18",
			Explanation: "Per-operation specifications and an inductive invariant, decided by path-wise abstract interpretation in the linear domain of engine E8 (symbols: the fields of the receiver before the operation; hypotheses: the invariant and the branch facts of the path; loads of a field must precede the store to it on every path, so that they denote the state before the operation). History: with the invariant `elements is nil and index is 0, or 0 <= index <= len(elements)-1`, (R1) Back stores index-1 exactly where index >= 1 is known and otherwise leaves a history whose index is 0 untouched; Forward stores index+1 exactly where index+1 <= len-1 is known and otherwise is at the last entry; Add stores append(elements[:index+1], the new element) and index+1 (or a one-element list and 0 on a fresh history), so every entry up to the current one is kept and nothing else; every operation re-establishes the invariant; Current indexes within bounds whenever the history is not empty. Feed: (R2) Contains(k) is true exactly when lowerBound < index+k < upperBound; MoveUp/MoveDown/MoveToCenter store index-1/index+1/0 only on paths that know the target is contained and touch nothing else; (R3) Append writes only keys >= the old upperBound and then raises upperBound by len(input), Prepend only keys <= the old lowerBound and lowers lowerBound by len(input): existing items are neither moved nor overwritten; (R4) Get returns feed[index+offset] under Contains(offset) and panics otherwise, Current returns feed[index], IsParent/IsChild test the sign of index+offset, the constructors establish bounds around the opened item at key 0 (or the first appended item at key 1). By induction over the operations this is the list-with-cursor / two-sided-sequence behaviour. Not decided: the contents of the map beyond which keys are written (values stored are the elements of the input in order: checked by shape only), behaviour of a Feed made by CreateEmpty (unused in the program), the exhaustive comparison with an executable reference model.",
			Assumptions: []string{"the fields of History and Feed are only written by their own methods (unexported fields; checked: no store from outside the packages)", "Go's append/slice semantics as summarised (len(append(s[:k], x)) = k+1, entries below k kept)"},
			Rules: []Rule{
				{ID: "C18.R1", Title: "History: per-operation specification and inductive invariant", Floor: 8, Run: c18R1},
				{ID: "C18.R2", Title: "Feed: containment and guarded moves", Floor: 6, Run: c18R2},
				{ID: "C18.R3", Title: "Feed: append and prepend write fresh keys and move one bound", Floor: 4, Run: c18R3},
				{ID: "C18.R4", Title: "Feed: lookup, classification and constructors agree with positions relative to the opened item", Floor: 6, Run: c18R4},
			},
		}
	}
}

// methodsOfType: the (instantiated) methods of pkg.typ by base name.
func methodsOfType(P *Program, pkg, typ string) map[string]*ssa.Function {
	out := map[string]*ssa.Function{}
	for _, fn := range P.Funcs {
		if P.PkgOf(fn) != pkg || fn.Parent() != nil || fn.Signature.Recv() == nil || len(fn.Blocks) == 0 {
			continue
		}
		n := namedOf(fn.Signature.Recv().Type())
		if n == nil || n.Obj().Name() != typ {
			continue
		}
		name := fn.Name()
		if i := strings.Index(name, "["); i >= 0 {
			name = name[:i]
		}
		out[name] = fn
	}
	return out
}

// opEffect: what one path of a method does to the receiver.
type opEffect struct {
	lc        *lcPath
	pf        pathFacts
	ret       *ssa.Return
	stored    map[string]ssa.Value // field -> value stored last on this path
	mapKeys   map[string][]ssa.Value
	readAfter []string
	calls     []*ssa.Call // calls of methods on the same receiver
}

func recvField(fn *ssa.Function, addr ssa.Value) (string, bool) {
	fa, ok := addr.(*ssa.FieldAddr)
	if !ok || len(fn.Params) == 0 || unwrapLoad(fa.X) != ssa.Value(fn.Params[0]) {
		return "", false
	}
	return fieldOf(fa).Name(), true
}

func effectOnPath(P *Program, fn *ssa.Function, pf pathFacts, ret *ssa.Return) *opEffect {
	e := &opEffect{pf: pf, ret: ret, stored: map[string]ssa.Value{}, mapKeys: map[string][]ssa.Value{}}
	e.lc = newLcPath(P, fn, pf)
	callsAt := map[string]int{}
	for _, b := range pf.blocks {
		for _, in := range b.Instrs {
			switch x := in.(type) {
			case *ssa.Store:
				if f, ok := recvField(fn, x.Addr); ok {
					e.stored[f] = x.Val
					callsAt[f] = len(e.calls)
				}
			case *ssa.UnOp:
				if x.Op == token.MUL {
					if f, ok := recvField(fn, x.X); ok {
						if val, written := e.stored[f]; written {
							// the value just stored, unless a method of the receiver ran in between
							if callsAt[f] == len(e.calls) {
								if e.lc.fwd == nil {
									e.lc.fwd = map[ssa.Value]ssa.Value{}
								}
								e.lc.fwd[x] = val
							} else {
								e.readAfter = append(e.readAfter, f)
							}
						}
					}
				}
			case *ssa.MapUpdate:
				if ld, ok := x.Map.(*ssa.UnOp); ok && ld.Op == token.MUL {
					if f, ok := recvField(fn, ld.X); ok {
						e.mapKeys[f] = append(e.mapKeys[f], x.Key)
					}
				}
			case *ssa.Call:
				if sc := x.Call.StaticCallee(); sc != nil && sc.Signature.Recv() != nil && len(x.Call.Args) > 0 && unwrapLoad(x.Call.Args[0]) == ssa.Value(fn.Params[0]) {
					e.calls = append(e.calls, x)
				}
			}
		}
	}
	return e
}

func preInt(field string) linForm {
	r := newLin()
	r.coef["recv.&"+field+".*"] = 1
	return r
}

func preLen(field string) linForm {
	r := newLin()
	r.coef["len:recv.&"+field+".*"] = 1
	return r
}

func linConst(k int64) linForm {
	r := newLin()
	r.c = k
	return r
}

// lenOfSlice: the length of a slice value as a linear form.
func lenOfSlice(lc *lcPath, v ssa.Value, depth int) (linForm, bool) {
	v = lc.at(v)
	if depth > 6 {
		return linForm{}, false
	}
	switch x := v.(type) {
	case *ssa.Const:
		if x.Value == nil {
			return linConst(0), true
		}
	case *ssa.MakeSlice:
		return lc.num(x.Len), true
	case *ssa.Slice:
		if al, ok := x.X.(*ssa.Alloc); ok {
			if arr, ok := deref(al.Type()).Underlying().(*types.Array); ok {
				lo, hi := linConst(0), linConst(arr.Len())
				if x.Low != nil {
					lo = lc.num(x.Low)
				}
				if x.High != nil {
					hi = lc.num(x.High)
				}
				return hi.add(lo, -1), true
			}
		}
		base, ok := lenOfSlice(lc, x.X, depth+1)
		if !ok {
			return linForm{}, false
		}
		lo, hi := linConst(0), base
		if x.Low != nil {
			lo = lc.num(x.Low)
		}
		if x.High != nil {
			hi = lc.num(x.High)
		}
		return hi.add(lo, -1), true
	case *ssa.Call:
		if b, ok := x.Call.Value.(*ssa.Builtin); ok && b.Name() == "append" && len(x.Call.Args) == 2 {
			a, ok1 := lenOfSlice(lc, x.Call.Args[0], depth+1)
			c, ok2 := lenOfSlice(lc, x.Call.Args[1], depth+1)
			if ok1 && ok2 {
				return a.add(c, 1), true
			}
		}
	case *ssa.UnOp:
		if x.Op == token.MUL {
			n, _ := lc.slice(v)
			return n, true
		}
	case *ssa.Parameter:
		n, _ := lc.slice(v)
		return n, true
	}
	return linForm{}, false
}

func sliceNilFact(pf pathFacts, field string) (isNil, known bool) {
	for _, f := range pf.facts {
		cmp, ok := f.Cmp()
		if !ok || !isNilConst(cmp.Y) {
			continue
		}
		if strings.HasSuffix(normSym(cmp.X), "recv.&"+field+".*") {
			return cmp.Op == token.EQL, true
		}
	}
	return false, false
}

func c18R1(c *Ctx) {
	P := c.P
	ms := methodsOfType(P, "servitor/history", "History")
	for _, want := range []string{"Current", "Back", "Forward", "Add"} {
		if ms[want] == nil {
			c.bad("servitor/history.History/methods", "history", "servitor/history", "method "+want+" of History is not instantiated in the program: the operations the specification speaks about cannot be identified")
			return
		}
	}
	idx, ln := preInt("index"), preLen("elements")
	type invCase struct {
		name  string
		empty bool
	}
	cases := []invCase{{"fresh history", true}, {"non-empty history", false}}
	assume := func(lc *lcPath, cs invCase) {
		if cs.empty {
			lc.assumeEq(ln, 0)
			lc.assumeEq(idx, 0)
		} else {
			lc.assume(lcGE(ln, 1))
			lc.assume(idx)                      // index >= 0
			lc.assume(lcGE(ln.add(idx, -1), 1)) // len - index >= 1
		}
		lc.unsigned["len:recv.&elements.*"] = true
	}
	for _, name := range []string{"Back", "Forward", "Add"} {
		fn := ms[name]
		fname := FuncName(fn)
		nPaths := 0
		eachReturnPath(fn, func(ret *ssa.Return, pf pathFacts, k int) {
			for _, cs := range cases {
				if isNil, known := sliceNilFact(pf, "elements"); known && isNil != cs.empty {
					continue
				}
				e := effectOnPath(P, fn, pf, ret)
				assume(e.lc, cs)
				e.lc.useFacts()
				if e.lc.infeasible() {
					continue
				}
				nPaths++
				where := fmt.Sprintf("%s, path through lines %s", cs.name, pathLines(P, pf))
				if len(e.readAfter) > 0 {
					c.bad(fname+"/state-read-after-write", P.InstrPos(ret), fname, "field "+e.readAfter[0]+" is read after it was written in the same operation ("+where+"): the operation cannot be specified in terms of the state before it")
					continue
				}
				// the state after the operation
				idx2, len2 := idx, ln
				okLen := true
				if v, ok := e.stored["index"]; ok {
					idx2 = e.lc.num(v)
				}
				if v, ok := e.stored["elements"]; ok {
					len2, okLen = lenOfSlice(e.lc, v, 0)
				}
				if !okLen {
					c.bad(fname+"/elements", P.InstrPos(ret), fname, "cannot determine the length of what is stored into elements ("+where+")")
					continue
				}
				// invariant re-established
				invOK := (e.lc.proveEq(len2) && e.lc.proveEq(idx2)) ||
					(e.lc.nonNeg(lcGE(len2, 1)) && e.lc.nonNeg(idx2) && e.lc.nonNeg(lcGE(len2.add(idx2, -1), 1)))
				c.check(invOK, fname+"/invariant", P.InstrPos(ret), fname, "0 <= index <= len(elements)-1 again after the operation ("+where+")",
					fmt.Sprintf("after the operation index = %s and len(elements) = %s: the cursor is not known to point at an entry (%s)", idx2.String(), len2.String(), where))
				// the operation itself
				_, wroteIdx := e.stored["index"]
				_, wroteEl := e.stored["elements"]
				spec, why := false, ""
				switch name {
				case "Back":
					if wroteEl {
						why = "Back changes the list of pages"
					} else if wroteIdx {
						spec = e.lc.proveEq(idx2.add(idx, -1).add(linConst(1), 1)) && e.lc.nonNeg(lcGE(idx, 1))
						why = "Back does not move the cursor by exactly one towards the start under index >= 1"
					} else {
						spec = e.lc.nonNeg(linConst(0).add(idx, -1)) // index <= 0
						why = "Back leaves the cursor alone although it is not known to be at the first page"
					}
				case "Forward":
					if wroteEl {
						why = "Forward changes the list of pages"
					} else if wroteIdx {
						spec = e.lc.proveEq(idx2.add(idx, -1).add(linConst(1), -1)) && e.lc.nonNeg(lcGE(ln.add(idx, -1), 2))
						why = "Forward does not move the cursor by exactly one towards the end under index+1 <= len-1"
					} else {
						spec = e.lc.nonNeg(linConst(1).add(ln.add(idx, -1), -1)) // len - index <= 1
						why = "Forward leaves the cursor alone although it is not known to be at the last page"
					}
				case "Add":
					if cs.empty {
						spec = wroteEl && wroteIdx && e.lc.proveEq(lcGE(len2, 1)) && e.lc.proveEq(idx2)
						why = "Add on a fresh history does not produce a one-page history with the cursor on it"
					} else {
						spec = wroteEl && wroteIdx && e.lc.proveEq(len2.add(idx, -1).add(linConst(2), -1)) && e.lc.proveEq(idx2.add(idx, -1).add(linConst(1), -1))
						why = "Add does not produce index+2 pages with the cursor on the new last one"
						// shape: append(elements[:index+1], element)
						if spec {
							spec = false
							why = "the new list is not append(elements[:index+1], element): pages up to the current one must be kept, those after it dropped, the new one added"
							if call, ok := e.lc.at(e.stored["elements"]).(*ssa.Call); ok {
								if b, ok := call.Call.Value.(*ssa.Builtin); ok && b.Name() == "append" {
									if sl, ok := e.lc.at(call.Call.Args[0]).(*ssa.Slice); ok && sl.Low == nil && sl.High != nil {
										if f, ok := sliceOfRecvField(fn, sl.X); ok && f == "elements" && e.lc.proveEq(e.lc.num(sl.High).add(idx, -1).add(linConst(1), -1)) {
											if appendsExactly(call.Call.Args[1], fn.Params[1]) {
												spec = true
											}
										}
									}
								}
							}
						}
					}
				}
				c.check(spec, fname+"/operation", P.InstrPos(ret), fname, name+" does what a list with a cursor does ("+where+")", why+" ("+where+")")
			}
		})
		c.check(nPaths > 0, fname+"/paths", P.Pos(fn.Pos()), fname, fmt.Sprintf("%d feasible (path, state) pairs", nPaths), "no feasible path of "+name+" could be analysed")
	}
	// Current: elements[index], within bounds on a non-empty history
	cur := ms["Current"]
	cname := FuncName(cur)
	eachInstr(cur, func(b *ssa.BasicBlock, _ int, in ssa.Instruction) {
		ia, ok := in.(*ssa.IndexAddr)
		if !ok {
			return
		}
		pf := pathFacts{blocks: []*ssa.BasicBlock{b}}
		if paths, _ := enumeratePaths(cur, b, 64); len(paths) > 0 {
			pf = paths[0]
		}
		lc := newLcPath(P, cur, pf)
		assume(lc, cases[1])
		lc.useFacts()
		f, okF := sliceOfRecvField(cur, ia.X)
		i := lc.num(ia.Index)
		okB := okF && f == "elements" && lc.nonNeg(i) && lc.nonNeg(lcGE(ln.add(i, -1), 1)) && lc.proveEq(i.add(idx, -1))
		c.check(okB, cname+"/current", P.InstrPos(in), cname, "Current is elements[index], within bounds whenever a page exists", "Current does not index elements at the cursor, or the index is not within bounds on a non-empty history")
	})
	// entries are written by Add's append only: any other write into the
	// list must provably hit a forward entry (index+1 or beyond), which the
	// append discards anyway
	elemWrites := 0
	for _, fn := range ms {
		fname := FuncName(fn)
		eachInstr(fn, func(b *ssa.BasicBlock, _ int, in ssa.Instruction) {
			var index ssa.Value
			switch x := in.(type) {
			case *ssa.Store:
				ia, ok := x.Addr.(*ssa.IndexAddr)
				if !ok {
					return
				}
				if f, ok := sliceRootedAtRecvField(fn, ia.X); !ok || f != "elements" {
					return
				}
				index = ia.Index
			case *ssa.Call:
				bi, ok := x.Call.Value.(*ssa.Builtin)
				if !ok || (bi.Name() != "copy" && bi.Name() != "clear") {
					return
				}
				if f, ok := sliceRootedAtRecvField(fn, x.Call.Args[0]); !ok || f != "elements" {
					return
				}
			default:
				return
			}
			elemWrites++
			ok := index != nil
			if ok {
				paths, complete := enumeratePaths(fn, b, 256)
				ok = complete && len(paths) > 0
				for _, pf := range paths {
					lc := newLcPath(P, fn, pf)
					assume(lc, cases[1])
					lc.useFacts()
					if lc.infeasible() {
						continue
					}
					if sl, isSl := unwrapLoad(in.(*ssa.Store).Addr.(*ssa.IndexAddr).X).(*ssa.Slice); isSl {
						_ = sl
						ok = false // an index relative to a sub-slice: not followed
						break
					}
					if !lc.nonNeg(lcGE(lc.num(index).add(idx, -1), 1)) {
						ok = false
						break
					}
				}
			}
			c.check(ok, fname+"/element-write", P.InstrPos(in), fname, "writes forward entries only", "an operation writes into the list of pages at a position that is not known to lie after the current page: entries up to the cursor must survive every operation")
		})
	}
	c.info("history_element_writes", elemWrites)
	// nobody else writes the fields
	c18NoForeignWrites(c, "servitor/history", "History")
}

// sliceRootedAtRecvField: v is recv.field or a sub-slice of it.
func sliceRootedAtRecvField(fn *ssa.Function, v ssa.Value) (string, bool) {
	for i := 0; i < 6; i++ {
		if f, ok := sliceOfRecvField(fn, v); ok {
			return f, true
		}
		sl, ok := v.(*ssa.Slice)
		if !ok {
			return "", false
		}
		v = sl.X
	}
	return "", false
}

func sliceOfRecvField(fn *ssa.Function, v ssa.Value) (string, bool) {
	u, ok := v.(*ssa.UnOp)
	if !ok || u.Op != token.MUL {
		return "", false
	}
	return recvField(fn, u.X)
}

// appendsExactly: the variadic operand of append is the one-element slice [p].
func appendsExactly(v ssa.Value, p ssa.Value) bool {
	sl, ok := v.(*ssa.Slice)
	if !ok {
		return false
	}
	al, ok := sl.X.(*ssa.Alloc)
	if !ok {
		return false
	}
	arr, ok := deref(al.Type()).Underlying().(*types.Array)
	if !ok || arr.Len() != 1 {
		return false
	}
	for _, r := range refs(al) {
		if ia, ok := r.(*ssa.IndexAddr); ok {
			for _, rr := range refs(ia) {
				if st, ok := rr.(*ssa.Store); ok && unwrapLoad(st.Val) == p {
					return true
				}
			}
		}
	}
	return false
}

// c18NoForeignWrites: the fields of pkg.typ are stored only by functions of pkg.
func c18NoForeignWrites(c *Ctx, pkg, typ string) {
	P := c.P
	n := 0
	for _, fn := range P.Funcs {
		eachInstr(fn, func(_ *ssa.BasicBlock, _ int, in ssa.Instruction) {
			st, ok := in.(*ssa.Store)
			if !ok {
				return
			}
			fa, ok := st.Addr.(*ssa.FieldAddr)
			if !ok {
				return
			}
			o := structOwner(fa)
			if o == nil || o.Obj().Pkg() == nil || o.Obj().Pkg().Path() != pkg || o.Obj().Name() != typ {
				return
			}
			n++
			c.check(P.PkgOf(fn) == pkg, FuncName(fn)+"/writes:"+typ+"."+fieldOf(fa).Name(), P.InstrPos(in), FuncName(fn), "written by its own package", "a field of "+typ+" is written from outside its package: the invariant of its operations is not under their control")
		})
	}
	c.info("stores_"+typ, n)
	// nobody outside copies a whole value either: a copy shares the storage
	// (backing array, map) of the original, and assigning one back rewrites
	// every field at once behind the operations' back
	isTyp := func(t types.Type) bool {
		nm, ok := t.(*types.Named)
		if !ok {
			return false
		}
		o := nm.Origin().Obj()
		_, isStruct := nm.Underlying().(*types.Struct)
		return isStruct && o.Pkg() != nil && o.Pkg().Path() == pkg && o.Name() == typ
	}
	copies := 0
	for _, fn := range P.Funcs {
		if P.PkgOf(fn) == pkg || !strings.HasPrefix(P.PkgOf(fn), "servitor") {
			continue
		}
		eachInstr(fn, func(_ *ssa.BasicBlock, _ int, in ssa.Instruction) {
			switch x := in.(type) {
			case *ssa.UnOp:
				if x.Op == token.MUL && isTyp(x.Type()) {
					copies++
					c.bad(FuncName(fn)+"/copies:"+typ, P.InstrPos(in), FuncName(fn), "a "+typ+" is copied by value outside its package: the copy shares its storage with the original, so an operation on one silently changes (or a later assignment of the copy undoes only part of) the other")
				}
			case *ssa.Store:
				if isTyp(x.Val.Type()) {
					if _, zero := x.Val.(*ssa.Const); zero {
						return
					}
					copies++
					c.bad(FuncName(fn)+"/assigns:"+typ, P.InstrPos(in), FuncName(fn), "a whole "+typ+" value is assigned outside its package: all its fields are rewritten behind the back of its operations")
				}
			}
		})
	}
	c.check(copies == 0, pkg+"."+typ+"/used-in-place", pkg, pkg, typ+" values are only used in place (through their address) outside their package", fmt.Sprintf("%d whole-value copies or assignments of %s outside its package", copies, typ))
}

// containsHyps: on a path of a Feed method, the facts `f.Contains(k)` become
// hypotheses about index, lowerBound and upperBound (R2 establishes that this is
// what Contains means).
func containsHyps(lc *lcPath, fn *ssa.Function, pf pathFacts) (known []struct {
	k     linForm
	truth bool
}) {
	lo, up, idx := preInt("lowerBound"), preInt("upperBound"), preInt("index")
	for _, f := range pf.facts {
		call, ok := f.Cond.(*ssa.Call)
		if !ok {
			continue
		}
		sc := call.Call.StaticCallee()
		if sc == nil || sc.Name() != "Contains" || len(call.Call.Args) != 2 || unwrapLoad(call.Call.Args[0]) != ssa.Value(fn.Params[0]) {
			continue
		}
		k := lc.num(call.Call.Args[1])
		known = append(known, struct {
			k     linForm
			truth bool
		}{k, f.Truth})
		if f.Truth {
			t := idx.add(k, 1)
			lc.assume(lcGE(up.add(t, -1), 1)) // index+k < upperBound
			lc.assume(lcGE(t.add(lo, -1), 1)) // index+k > lowerBound
		}
	}
	return known
}

func c18R2(c *Ctx) {
	P := c.P
	ms := methodsOfType(P, "servitor/feed", "Feed")
	for _, want := range []string{"Contains", "MoveUp", "MoveDown", "MoveToCenter", "Append", "Prepend", "Get", "Current", "IsParent", "IsChild"} {
		if ms[want] == nil {
			c.bad("servitor/feed.Feed/methods", "feed", "servitor/feed", "method "+want+" of Feed not found")
			return
		}
	}
	lo, up, idx := preInt("lowerBound"), preInt("upperBound"), preInt("index")
	// Contains(k): true exactly when lowerBound < index+k < upperBound
	ct := ms["Contains"]
	cname := FuncName(ct)
	eachReturnPath(ct, func(ret *ssa.Return, pf pathFacts, k int) {
		for _, truth := range []bool{true, false} {
			e := effectOnPath(P, ct, pf, ret)
			e.lc.useFacts()
			v := e.lc.at(ret.Results[0])
			if cst, ok := v.(*ssa.Const); ok && cst.Value != nil {
				if (cst.Value.ExactString() == "true") != truth {
					continue
				}
			} else {
				m := map[Fact]bool{}
				addCondFacts(m, v, truth)
				var fs []Fact
				for f := range m {
					fs = append(fs, f)
				}
				e.lc.facts = fs
				e.lc.useFacts()
			}
			if e.lc.infeasible() {
				continue
			}
			t := idx.add(e.lc.num(ct.Params[1]), 1)
			inUp, inLo := lcGE(up.add(t, -1), 1), lcGE(t.add(lo, -1), 1)
			where := fmt.Sprintf("result %v, path through lines %s", truth, pathLines(P, pf))
			if truth {
				c.check(e.lc.nonNeg(inUp) && e.lc.nonNeg(inLo), cname+"/true-means-contained", P.InstrPos(ret), cname, "true only if lowerBound < index+offset < upperBound ("+where+")",
					"Contains can answer true for a position outside the open interval (lowerBound, upperBound) ("+where+")")
			} else {
				outUp, outLo := linConst(0).add(up.add(t, -1), -1), linConst(0).add(t.add(lo, -1), -1) // t >= up, t <= lo
				c.check(e.lc.nonNeg(outUp) || e.lc.nonNeg(outLo), cname+"/false-means-outside", P.InstrPos(ret), cname, "false only if index+offset is outside the bounds ("+where+")",
					"Contains can answer false for a position inside the bounds ("+where+")")
			}
			c.check(len(e.stored) == 0 && len(e.mapKeys) == 0, cname+"/pure", P.InstrPos(ret), cname, "Contains changes nothing", "Contains writes the feed")
		}
	})
	// the moves
	target := map[string]func(lc *lcPath) linForm{
		"MoveUp":       func(*lcPath) linForm { return idx.add(linConst(1), -1) },
		"MoveDown":     func(*lcPath) linForm { return idx.add(linConst(1), 1) },
		"MoveToCenter": func(*lcPath) linForm { return linConst(0) },
	}
	for _, name := range []string{"MoveUp", "MoveDown", "MoveToCenter"} {
		fn := ms[name]
		fname := FuncName(fn)
		eachReturnPath(fn, func(ret *ssa.Return, pf pathFacts, k int) {
			e := effectOnPath(P, fn, pf, ret)
			known := containsHyps(e.lc, fn, pf)
			e.lc.useFacts()
			if e.lc.infeasible() {
				return
			}
			where := "path through lines " + pathLines(P, pf)
			want := target[name](e.lc)
			okOther := len(e.mapKeys) == 0
			for f := range e.stored {
				if f != "index" {
					okOther = false
				}
			}
			if v, moved := e.stored["index"]; moved {
				nv := e.lc.num(v)
				inB := e.lc.nonNeg(lcGE(up.add(nv, -1), 1)) && e.lc.nonNeg(lcGE(nv.add(lo, -1), 1))
				c.check(okOther && len(e.readAfter) == 0 && e.lc.proveEq(nv.add(want, -1)) && inB, fname+"/move", P.InstrPos(ret), fname, "the cursor moves to "+want.String()+", known to be within the bounds ("+where+")",
					"the cursor is moved to "+nv.String()+" which is not the documented target within the bounds ("+where+")")
			} else {
				// staying put is right only where the target is known not to be contained
				refused := false
				for _, kf := range known {
					if !kf.truth && e.lc.proveEq(idx.add(kf.k, 1).add(want, -1)) {
						refused = true
					}
				}
				if !refused {
					// the test itself instead of the call: the target is known to be at or beyond a bound
					refused = e.lc.nonNeg(want.add(up, -1)) || e.lc.nonNeg(lo.add(want, -1))
				}
				c.check(okOther && refused, fname+"/stay", P.InstrPos(ret), fname, "the cursor stays because the target is not in the feed ("+where+")",
					"the cursor stays although the target position is not known to be outside the feed ("+where+")")
			}
		})
	}
	// any other method that moves the cursor: wherever it puts it, an item is there
	for name, fn := range ms {
		if name == "MoveUp" || name == "MoveDown" || name == "MoveToCenter" || len(fn.Blocks) == 0 {
			continue
		}
		fname := FuncName(fn)
		eachReturnPath(fn, func(ret *ssa.Return, pf pathFacts, k int) {
			e := effectOnPath(P, fn, pf, ret)
			containsHyps(e.lc, fn, pf)
			e.lc.useFacts()
			if e.lc.infeasible() {
				return
			}
			v, moved := e.stored["index"]
			if !moved {
				return
			}
			nv := e.lc.num(v)
			inB := e.lc.nonNeg(lcGE(up.add(nv, -1), 1)) && e.lc.nonNeg(lcGE(nv.add(lo, -1), 1))
			c.check(inB && len(e.readAfter) == 0, fname+"/move", P.InstrPos(ret), fname, "the cursor is put on a position known to be within the bounds (path through lines "+pathLines(P, pf)+")",
				"the cursor is moved to "+nv.String()+", which is not known to lie strictly between lowerBound and upperBound (path through lines "+pathLines(P, pf)+"): on a feed that has no item there the selected position is empty")
		})
	}
	c18NoForeignWrites(c, "servitor/feed", "Feed")
}

func c18R3(c *Ctx) {
	P := c.P
	ms := methodsOfType(P, "servitor/feed", "Feed")
	lo, up := preInt("lowerBound"), preInt("upperBound")
	for _, name := range []string{"Append", "Prepend"} {
		fn := ms[name]
		if fn == nil {
			c.bad("servitor/feed.Feed/"+name, "feed", "servitor/feed", "method "+name+" of Feed not found")
			continue
		}
		fname := FuncName(fn)
		input := fn.Params[1]
		// every map update writes a key beyond the bound that is being moved
		nUpd := 0
		eachInstr(fn, func(b *ssa.BasicBlock, _ int, in ssa.Instruction) {
			mu, ok := in.(*ssa.MapUpdate)
			if !ok {
				return
			}
			nUpd++
			okAll := true
			paths, complete := enumeratePaths(fn, b, 256)
			if !complete || len(paths) == 0 {
				okAll = false
			}
			for _, pf := range paths {
				lc := newLcPath(P, fn, pf)
				lc.useFacts()
				key := lc.num(mu.Key)
				if name == "Append" {
					if !lc.nonNeg(key.add(up, -1)) { // key >= upperBound
						okAll = false
					}
				} else if !lc.nonNeg(lo.add(key, -1)) { // key <= lowerBound
					okAll = false
				}
			}
			// the value stored is an element of the input
			okVal := false
			if ld, ok := unwrapLoad(mu.Value).(*ssa.UnOp); ok && ld.Op == token.MUL {
				if ia, ok := ld.X.(*ssa.IndexAddr); ok && unwrapLoad(ia.X) == ssa.Value(input) {
					okVal = true
				}
			}
			if ex, ok := mu.Value.(*ssa.Extract); ok {
				if _, isNext := ex.Tuple.(*ssa.Next); isNext {
					okVal = true
				}
			}
			side := map[string]string{"Append": "at or above the old upperBound", "Prepend": "at or below the old lowerBound"}[name]
			c.check(okAll && okVal, fname+"/fresh-key", P.InstrPos(in), fname, "writes an element of the input at a key "+side+": no existing item is overwritten or moved",
				name+" writes a key that is not known to lie "+side+" (or a value that is not an element of its input): an existing item can be overwritten")
		})
		c.check(nUpd >= 1, fname+"/writes", P.Pos(fn.Pos()), fname, fmt.Sprintf("%d map updates", nUpd), name+" no longer adds its input to the feed")
		// the bound moves by len(input), once, after the loop; nothing else is stored
		eachReturnPath(fn, func(ret *ssa.Return, pf pathFacts, k int) {
			e := effectOnPath(P, fn, pf, ret)
			e.lc.useFacts()
			n, _ := e.lc.slice(input)
			field, delta := "upperBound", int64(1)
			old := up
			if name == "Prepend" {
				field, delta, old = "lowerBound", -1, lo
			}
			v, wrote := e.stored[field]
			okB := wrote && len(e.stored) == 1 && e.lc.proveEq(e.lc.num(v).add(old, -1).add(n, -delta))
			c.check(okB, fname+"/bound", P.InstrPos(ret), fname, field+" moves by len(input) and nothing else changes (path through lines "+pathLines(P, pf)+")",
				name+" does not move "+field+" by exactly len(input), or changes the cursor or the other bound (path through lines "+pathLines(P, pf)+")")
		})
	}
}

func c18R4(c *Ctx) {
	P := c.P
	ms := methodsOfType(P, "servitor/feed", "Feed")
	idx := preInt("index")
	// Get: feed[index+offset] where Contains(offset), panic otherwise
	if fn := ms["Get"]; fn != nil {
		fname := FuncName(fn)
		eachReturnPath(fn, func(ret *ssa.Return, pf pathFacts, k int) {
			e := effectOnPath(P, fn, pf, ret)
			known := containsHyps(e.lc, fn, pf)
			e.lc.useFacts()
			guarded := false
			for _, kf := range known {
				if kf.truth && e.lc.proveEq(kf.k.add(e.lc.num(fn.Params[1]), -1)) {
					guarded = true
				}
			}
			if !guarded {
				// the test itself instead of the call: lowerBound < index+offset < upperBound is known on the path
				lo, up := preInt("lowerBound"), preInt("upperBound")
				t := idx.add(e.lc.num(fn.Params[1]), 1)
				guarded = e.lc.nonNeg(lcGE(up.add(t, -1), 1)) && e.lc.nonNeg(lcGE(t.add(lo, -1), 1))
			}
			okLookup := false
			if lk, ok := e.lc.at(ret.Results[0]).(*ssa.Lookup); ok {
				if f, ok := sliceOfRecvField(fn, lk.X); ok && f == "feed" {
					okLookup = e.lc.proveEq(e.lc.num(lk.Index).add(idx, -1).add(e.lc.num(fn.Params[1]), -1))
				}
			}
			c.check(guarded && okLookup && len(e.stored) == 0, fname+"/lookup", P.InstrPos(ret), fname, "feed[index+offset] under Contains(offset)", "Get returns something other than feed[index+offset], or without Contains(offset) being known")
		})
	}
	if fn := ms["Current"]; fn != nil {
		fname := FuncName(fn)
		eachReturnPath(fn, func(ret *ssa.Return, pf pathFacts, k int) {
			lc := newLcPath(P, fn, pf)
			lc.useFacts()
			ok := false
			if lk, isLk := lc.at(ret.Results[0]).(*ssa.Lookup); isLk {
				if f, okF := sliceOfRecvField(fn, lk.X); okF && f == "feed" {
					ok = lc.proveEq(lc.num(lk.Index).add(idx, -1))
				}
			}
			c.check(ok, fname+"/current", P.InstrPos(ret), fname, "feed[index]", "Current is not the item under the cursor")
		})
	}
	for name, op := range map[string]token.Token{"IsParent": token.LSS, "IsChild": token.GTR} {
		fn := ms[name]
		if fn == nil {
			continue
		}
		fname := FuncName(fn)
		eachReturnPath(fn, func(ret *ssa.Return, pf pathFacts, k int) {
			lc := newLcPath(P, fn, pf)
			ok := false
			if bo, isB := lc.at(ret.Results[0]).(*ssa.BinOp); isB && bo.Op == op {
				if z, isC := constInt(bo.Y); isC && z == 0 {
					ok = lc.proveEq(lc.num(bo.X).add(idx, -1).add(lc.num(fn.Params[1]), -1))
				}
			}
			c.check(ok, fname+"/sign", P.InstrPos(ret), fname, "the sign of index+offset: before / after the opened item at position 0", name+" does not classify by the sign of index+offset")
		})
	}
	// constructors: the opened item sits at key 0 with bounds (-1, 1); a list starts at key 1 with the cursor on it
	for _, name := range []string{"Create", "CreateAndAppend"} {
		fn := P.FuncOpt("servitor/feed", name)
		if fn == nil {
			c.bad("servitor/feed."+name, "feed", "servitor/feed", "constructor "+name+" not found")
			continue
		}
		fname := FuncName(fn)
		vals := map[string]int64{}
		var al *ssa.Alloc
		eachInstr(fn, func(_ *ssa.BasicBlock, _ int, in ssa.Instruction) {
			st, ok := in.(*ssa.Store)
			if !ok {
				return
			}
			fa, ok := st.Addr.(*ssa.FieldAddr)
			if !ok {
				return
			}
			if a, ok := fa.X.(*ssa.Alloc); ok {
				al = a
				if k, isC := constInt(st.Val); isC {
					vals[fieldOf(fa).Name()] = k
				}
			}
		})
		// every return hands out that very allocation
		eachInstr(fn, func(_ *ssa.BasicBlock, _ int, in ssa.Instruction) {
			ret, ok := in.(*ssa.Return)
			if !ok || len(ret.Results) != 1 {
				return
			}
			own := al != nil
			var walk func(v ssa.Value, d int)
			walk = func(v ssa.Value, d int) {
				if ph, ok := v.(*ssa.Phi); ok && d < 6 {
					for _, e := range ph.Edges {
						walk(e, d+1)
					}
					return
				}
				if v != ssa.Value(al) {
					own = false
				}
			}
			walk(ret.Results[0], 0)
			c.check(own, fname+"/returns-own", P.InstrPos(ret), fname, "returns the feed it has just set up", name+" can return something else than the feed whose bounds and cursor it has just set up (another constructor's result, a remembered feed): the positions of what is appended later are then relative to other bounds")
		})
		switch name {
		case "Create":
			lo, hasLo := vals["lowerBound"]
			up, hasUp := vals["upperBound"]
			ix := vals["index"]
			zeroKey := false
			eachInstr(fn, func(_ *ssa.BasicBlock, _ int, in ssa.Instruction) {
				if mu, ok := in.(*ssa.MapUpdate); ok {
					if k, isC := constInt(mu.Key); isC && k == 0 && unwrapLoad(mu.Value) == ssa.Value(fn.Params[0]) {
						zeroKey = true
					}
				}
			})
			c.check(al != nil && hasLo && hasUp && lo == -1 && up == 1 && ix == 0 && zeroKey, fname+"/opened-item", P.Pos(fn.Pos()), fname, "the opened item at key 0, bounds (-1, 1), cursor 0", "Create does not place the opened item at position 0 inside the bounds with the cursor on it")
		case "CreateAndAppend":
			up := vals["upperBound"]
			ix := vals["index"]
			lo := vals["lowerBound"]
			appended := false
			eachInstr(fn, func(_ *ssa.BasicBlock, _ int, in ssa.Instruction) {
				if call, ok := in.(*ssa.Call); ok {
					if sc := call.Call.StaticCallee(); sc != nil && sc.Name() == "Append" && len(call.Call.Args) == 2 && unwrapLoad(call.Call.Args[1]) == ssa.Value(fn.Params[0]) {
						appended = true
					}
				}
			})
			c.check(al != nil && up == 1 && ix == 1 && lo == 0 && appended, fname+"/list", P.Pos(fn.Pos()), fname, "items appended from key 1 on, lower bound 0, cursor on the first", "CreateAndAppend does not start the list at key 1 with the cursor on its first item")
		}
	}
}
