package main

import (
	"fmt"
	"go/token"
	"go/types"
	"sort"
	"strings"

	"golang.org/x/tools/go/ssa"
)

// E5 — effects: which abstract memory a function may write, transitively.
//
// Roots of an address: "param:k" (reachable from parameter k), "free:k"
// (captured variable k), "global:<name>", "local" (allocated in this function
// and not stored anywhere the analysis loses track of), "unknown".

type Effects struct {
	P       *Program
	writes  map[*ssa.Function]map[string]string // root -> example position
	rootsMe map[ssa.Value][]string
}

func NewEffects(P *Program) *Effects {
	e := &Effects{P: P, writes: map[*ssa.Function]map[string]string{}, rootsMe: map[ssa.Value][]string{}}
	for _, fn := range P.Funcs {
		e.writes[fn] = map[string]string{}
	}
	// direct writes
	for _, fn := range P.Funcs {
		for _, w := range e.directWrites(fn) {
			for _, r := range e.Roots(w.addr) {
				if r == "local" {
					continue
				}
				if _, ok := e.writes[fn][r]; !ok {
					e.writes[fn][r] = P.InstrPos(w.in)
				}
			}
		}
	}
	// transitive over synchronous and asynchronous calls inside the module
	changed := true
	for changed {
		changed = false
		for _, fn := range P.Funcs {
			eachInstr(fn, func(_ *ssa.BasicBlock, _ int, in ssa.Instruction) {
				switch x := in.(type) {
				case ssa.CallInstruction:
					for _, callee := range P.Callees(x) {
						cw, ok := e.writes[callee]
						if !ok {
							continue
						}
						for r, pos := range cw {
							for _, mapped := range e.mapRoot(fn, x, callee, r) {
								if mapped == "local" {
									continue
								}
								if _, have := e.writes[fn][mapped]; !have {
									e.writes[fn][mapped] = pos
									changed = true
								}
							}
						}
					}
				}
			})
		}
	}
	return e
}

type writeSite struct {
	in   ssa.Instruction
	addr ssa.Value
}

// libWrites: library calls that write through an argument (index into Args
// including the receiver). Everything else in the libraries used by servitor
// is treated as not writing through its arguments (trusted base).
func libWrites(c *ssa.CallCommon) []int {
	f := calleeObj(c)
	if f == nil || f.Pkg() == nil {
		return nil
	}
	full := f.FullName()
	switch full {
	case "(*encoding/json.Decoder).Decode":
		return []int{1}
	case "encoding/json.Unmarshal":
		return []int{1}
	case "github.com/BurntSushi/toml.DecodeFile", "github.com/BurntSushi/toml.Decode":
		return []int{1}
	case "sort.Slice", "sort.SliceStable", "sort.Strings", "sort.Ints", "sort.Sort", "sort.Stable":
		return []int{0}
	case "(*github.com/yuin/goldmark.markdown).Convert", "(github.com/yuin/goldmark.Markdown).Convert":
		return []int{2}
	}
	if strings.HasPrefix(full, "(*bytes.Buffer).Write") || strings.HasPrefix(full, "(*strings.Builder).Write") ||
		full == "(*bytes.Buffer).Reset" || full == "(*strings.Builder).Reset" {
		return []int{0}
	}
	if strings.HasPrefix(full, "golang.org/x/exp/slices.Sort") || strings.HasPrefix(full, "slices.Sort") {
		return []int{0}
	}
	// mutating methods of the synchronised containers: race-free, but state all the same
	if strings.HasPrefix(full, "(*sync/atomic.") || strings.HasPrefix(full, "(*sync.Map).") || full == "(*sync.Once).Do" {
		switch f.Name() {
		case "Store", "Swap", "CompareAndSwap", "Add", "And", "Or", "LoadOrStore", "LoadAndDelete", "Delete", "CompareAndDelete", "Do", "Clear":
			return []int{0}
		}
	}
	if strings.HasPrefix(full, "sync/atomic.") {
		switch {
		case strings.HasPrefix(f.Name(), "Store"), strings.HasPrefix(f.Name(), "Swap"), strings.HasPrefix(f.Name(), "CompareAndSwap"), strings.HasPrefix(f.Name(), "Add"), strings.HasPrefix(f.Name(), "And"), strings.HasPrefix(f.Name(), "Or"):
			return []int{0}
		}
	}
	return nil
}

func (e *Effects) directWrites(fn *ssa.Function) []writeSite {
	var out []writeSite
	eachInstr(fn, func(_ *ssa.BasicBlock, _ int, in ssa.Instruction) {
		switch x := in.(type) {
		case *ssa.Store:
			out = append(out, writeSite{in, x.Addr})
		case *ssa.MapUpdate:
			out = append(out, writeSite{in, x.Map})
		case ssa.CallInstruction:
			c := x.Common()
			if b, ok := c.Value.(*ssa.Builtin); ok {
				switch b.Name() {
				case "copy", "delete", "clear":
					out = append(out, writeSite{in, c.Args[0]})
				}
				return
			}
			args := c.Args
			if c.IsInvoke() {
				args = append([]ssa.Value{c.Value}, c.Args...)
			}
			for _, k := range libWrites(c) {
				if k < len(args) {
					out = append(out, writeSite{in, args[k]})
				}
			}
		}
	})
	return out
}

// Roots of the memory an address (or reference-typed value) points into.
func (e *Effects) Roots(v ssa.Value) []string {
	seen := map[ssa.Value]bool{}
	set := map[string]bool{}
	e.roots(v, seen, set, 0)
	var out []string
	for r := range set {
		out = append(out, r)
	}
	sort.Strings(out)
	return out
}

func (e *Effects) roots(v ssa.Value, seen map[ssa.Value]bool, set map[string]bool, depth int) {
	if v == nil || seen[v] {
		return
	}
	seen[v] = true
	if depth > 40 {
		set["unknown"] = true
		return
	}
	switch x := v.(type) {
	case *ssa.Parameter:
		for i, p := range x.Parent().Params {
			if p == x {
				set[fmt.Sprintf("param:%d", i)] = true
			}
		}
	case *ssa.FreeVar:
		for i, p := range x.Parent().FreeVars {
			if p == x {
				set[fmt.Sprintf("free:%d", i)] = true
			}
		}
	case *ssa.Global:
		set["global:"+x.String()] = true
	case *ssa.Alloc:
		// the cell itself is local; what it *holds* matters when it is loaded
		set["local"] = true
	case *ssa.Const:
		// nil or constant: nothing
	case *ssa.FieldAddr:
		e.roots(x.X, seen, set, depth+1)
	case *ssa.Field:
		e.roots(x.X, seen, set, depth+1)
	case *ssa.IndexAddr:
		e.roots(x.X, seen, set, depth+1)
	case *ssa.Index:
		e.roots(x.X, seen, set, depth+1)
	case *ssa.Lookup:
		e.roots(x.X, seen, set, depth+1)
	case *ssa.Slice:
		e.roots(x.X, seen, set, depth+1)
	case *ssa.ChangeType:
		e.roots(x.X, seen, set, depth+1)
	case *ssa.Convert:
		e.roots(x.X, seen, set, depth+1)
	case *ssa.MakeInterface:
		e.roots(x.X, seen, set, depth+1)
	case *ssa.TypeAssert:
		e.roots(x.X, seen, set, depth+1)
	case *ssa.ChangeInterface:
		e.roots(x.X, seen, set, depth+1)
	case *ssa.Extract:
		e.roots(x.Tuple, seen, set, depth+1)
	case *ssa.Phi:
		for _, ed := range x.Edges {
			e.roots(ed, seen, set, depth+1)
		}
	case *ssa.UnOp:
		if x.Op != token.MUL {
			return
		}
		// load of a pointer/reference from memory
		if a, ok := resolveCell(x.X).(*ssa.Alloc); ok {
			// local variable: whatever was stored into it
			sts := storesToAlloc(a)
			if len(sts) == 0 {
				set["local"] = true
			}
			for _, st := range sts {
				e.roots(st.Val, seen, set, depth+1)
			}
			// a captured variable of the parent seen from a closure
			if _, isFree := x.X.(*ssa.FreeVar); isFree {
				e.roots(x.X, seen, set, depth+1)
			}
			return
		}
		e.roots(x.X, seen, set, depth+1)
	case *ssa.MakeMap, *ssa.MakeSlice, *ssa.MakeChan, *ssa.MakeClosure:
		set["local"] = true
	case *ssa.Call:
		// result of a call: fresh unless the callee is known to hand out its
		// arguments; approximated by the reference-typed arguments' roots for
		// servitor callees that return a parameter, "local" otherwise
		set["local"] = true
	case *ssa.Next, *ssa.Range:
		set["unknown"] = true
	default:
		set["unknown"] = true
	}
}

// mapRoot translates a callee's written root into the caller's roots.
func (e *Effects) mapRoot(caller *ssa.Function, site ssa.CallInstruction, callee *ssa.Function, root string) []string {
	switch {
	case strings.HasPrefix(root, "global:"), root == "unknown":
		return []string{root}
	case strings.HasPrefix(root, "param:"):
		var k int
		fmt.Sscanf(root, "param:%d", &k)
		c := site.Common()
		args := c.Args
		if c.IsInvoke() {
			args = append([]ssa.Value{c.Value}, c.Args...)
		}
		// bound method closures and wrappers may shift parameters; be conservative
		if k >= len(args) {
			return []string{"unknown"}
		}
		return e.Roots(args[k])
	case strings.HasPrefix(root, "free:"):
		var k int
		fmt.Sscanf(root, "free:%d", &k)
		// find the MakeClosure for callee in caller (or an ancestor)
		var out []string
		found := false
		for f := caller; f != nil && !found; f = f.Parent() {
			eachInstr(f, func(_ *ssa.BasicBlock, _ int, in ssa.Instruction) {
				if mc, ok := in.(*ssa.MakeClosure); ok && mc.Fn == ssa.Value(callee) && k < len(mc.Bindings) {
					found = true
					if f == caller {
						// the binding is the address of the captured variable
						out = append(out, e.cellRoots(mc.Bindings[k])...)
					} else {
						out = append(out, "unknown")
					}
				}
			})
		}
		if !found {
			// a closure made elsewhere and handed over (a callback stored in a field):
			// its captured variable is one cell shared by every invocation
			name := fmt.Sprint(k)
			if k < len(callee.FreeVars) {
				name = callee.FreeVars[k].Name()
			}
			return []string{"captured:" + callee.String() + ":" + name}
		}
		return out
	}
	return []string{"unknown"}
}

// cellRoots: roots for a captured-variable cell (the Alloc or FreeVar itself).
func (e *Effects) cellRoots(cell ssa.Value) []string {
	switch x := cell.(type) {
	case *ssa.Alloc:
		return []string{"local"}
	case *ssa.FreeVar:
		for i, p := range x.Parent().FreeVars {
			if p == x {
				return []string{fmt.Sprintf("free:%d", i)}
			}
		}
	}
	return e.Roots(cell)
}

// Writes returns the non-local roots fn may write (transitively).
func (e *Effects) Writes(fn *ssa.Function) map[string]string { return e.writes[fn] }

// --- cells of a closure for fan-out disjointness ---------------------------------

type cell struct {
	path     string
	perIter  bool // contains an index component that differs per loop iteration
	write    bool
	in       ssa.Instruction
	idxVals  []ssa.Value  // the values used as indices (per-iteration copies resolved to what was stored in them)
	idxCells []*ssa.Alloc // the variables used as indices
}

// indexValues lists, outermost first, the index operands of an address; a load
// of a variable assigned exactly once is replaced by the assigned value.
func indexValues(addr ssa.Value) []ssa.Value {
	var out []ssa.Value
	v := addr
	for i := 0; i < 16; i++ {
		switch x := v.(type) {
		case *ssa.IndexAddr:
			iv := x.Index
			if u, ok := iv.(*ssa.UnOp); ok && u.Op == token.MUL {
				if a, ok := resolveCell(u.X).(*ssa.Alloc); ok {
					if sts := storesToAlloc(a); len(sts) == 1 {
						iv = sts[0].Val
					}
				}
			}
			out = append([]ssa.Value{iv}, out...)
			v = x.X
		case *ssa.FieldAddr:
			v = x.X
		case *ssa.Slice:
			v = x.X
		case *ssa.UnOp:
			if x.Op != token.MUL {
				return out
			}
			if r := unwrapLoad(x); r != ssa.Value(x) && isAddrExpr(r) {
				v = r // a pointer variable assigned once: continue at what it points to
				continue
			}
			v = x.X
		default:
			return out
		}
	}
	return out
}

// isAddrExpr: v computes an address from another address (so a pointer
// variable holding it can be replaced by it when naming the cell written).
func isAddrExpr(v ssa.Value) bool {
	switch v.(type) {
	case *ssa.IndexAddr, *ssa.FieldAddr:
		return true
	}
	return false
}

// cellPath renders an address as root + selectors; index components that are
// loads of a variable are rendered by the variable's identity so that the
// per-iteration copy idiom (i := i) can be recognised.
func cellPath(addr ssa.Value) (string, []*ssa.Alloc) {
	var idxCells []*ssa.Alloc
	var rec func(v ssa.Value, d int) string
	rec = func(v ssa.Value, d int) string {
		if d > 12 {
			return uniqueName(v)
		}
		switch x := v.(type) {
		case *ssa.IndexAddr:
			return rec(x.X, d+1) + "[" + idx(x.Index, &idxCells) + "]"
		case *ssa.FieldAddr:
			return rec(x.X, d+1) + "." + fieldOf(x).Name()
		case *ssa.FreeVar:
			return rec(resolveCell(x), d+1)
		case *ssa.Alloc:
			return "cell:" + x.Parent().String() + ":" + x.Comment + fmt.Sprintf("@%d", allocOrdinal(x))
		case *ssa.UnOp:
			if x.Op == token.MUL {
				if r := unwrapLoad(x); r != ssa.Value(x) && isAddrExpr(r) {
					// a captured pointer variable is checked like a captured index
					// variable: it must be fresh in every iteration
					if a, ok := resolveCell(x.X).(*ssa.Alloc); ok && a.Parent() != x.Parent() {
						idxCells = append(idxCells, a)
					}
					return rec(r, d+1)
				}
				return rec(x.X, d+1) + ".*"
			}
		case *ssa.Slice:
			return rec(x.X, d+1)
		case *ssa.ChangeType:
			return rec(x.X, d+1)
		case *ssa.Parameter:
			return "param:" + x.Parent().String() + ":" + x.Name()
		case *ssa.Global:
			return "global:" + x.String()
		}
		return uniqueName(v)
	}
	return rec(addr, 0), idxCells
}

func idx(v ssa.Value, cells *[]*ssa.Alloc) string {
	if c, ok := v.(*ssa.Const); ok && c.Value != nil {
		return c.Value.ExactString()
	}
	if p, ok := v.(*ssa.Parameter); ok {
		return "@param:" + p.Parent().String() + ":" + p.Name()
	}
	if u, ok := v.(*ssa.UnOp); ok && u.Op == token.MUL {
		if a, ok := resolveCell(u.X).(*ssa.Alloc); ok {
			*cells = append(*cells, a)
			return "@" + a.Parent().String() + ":" + a.Comment + fmt.Sprintf("@%d", allocOrdinal(a))
		}
	}
	if b, ok := v.(*ssa.BinOp); ok {
		return "(" + idx(b.X, cells) + b.Op.String() + idx(b.Y, cells) + ")"
	}
	return uniqueName(v)
}

// conflicts: two cell paths denote overlapping memory.
func cellsOverlap(a, b string) bool {
	if a == b {
		return true
	}
	// a prefix overlaps its sub-objects (fields, elements) but not what a
	// pointer stored in it points to (".*" starts a different object)
	sub := func(r string) bool {
		return (r[0] == '.' || r[0] == '[') && !strings.Contains(r, ".*")
	}
	if strings.HasPrefix(a, b) {
		return sub(a[len(b):])
	}
	if strings.HasPrefix(b, a) {
		return sub(b[len(a):])
	}
	return false
}

// isSyncType: values of these types synchronise themselves.
func isSyncType(t types.Type) bool {
	n := namedOf(t)
	if n == nil || n.Obj().Pkg() == nil {
		return false
	}
	switch n.Obj().Pkg().Path() + "." + n.Obj().Name() {
	case "sync.WaitGroup", "sync.Mutex", "sync.RWMutex", "sync.Once",
		"golang.org/x/sync/singleflight.Group", "github.com/hashicorp/golang-lru/v2.Cache":
		return true
	}
	return false
}
