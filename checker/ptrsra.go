package main

import (
	"fmt"
	"go/ast"
	"go/token"
	"go/types"
	"sort"
	"strings"

	"golang.org/x/tools/go/packages"
)

// ptrSraRound: scalar replacement of a heap object that never leaves its
// function. Local variables of type *T — T a struct type that is new to the
// checker — that are initialised from `&T{…}` exactly once, copied only into
// other such locals (aliases), and otherwise only used as the base of field
// selections, stand for one object: its fields become local variables shared by
// all aliases. This is what inlining a constructor `newT(…) *T` and the methods
// called on its result leaves behind.
func ptrSraRound(pkgs []*packages.Package, overlay map[string][]byte) (map[string][]byte, []string) {
	out := map[string][]byte{}
	var log []string
	for _, pkg := range pkgs {
		if !isServitorPath(pkg.PkgPath) || len(pkg.Errors) > 0 {
			continue
		}
		structDecls := map[string]*ast.StructType{}
		structFile := map[string]*ast.File{}
		for _, f := range pkg.Syntax {
			for _, d := range f.Decls {
				gd, ok := d.(*ast.GenDecl)
				if !ok || gd.Tok != token.TYPE {
					continue
				}
				for _, sp := range gd.Specs {
					ts := sp.(*ast.TypeSpec)
					if st, ok := ts.Type.(*ast.StructType); ok && ts.TypeParams == nil {
						structDecls[ts.Name.Name] = st
						structFile[ts.Name.Name] = f
					}
				}
			}
		}
		for _, f := range pkg.Syntax {
			fname := pkg.Fset.File(f.Pos()).Name()
			if strings.HasSuffix(fname, "_test.go") {
				continue
			}
			src := readSource(fname, overlay)
			off := func(p token.Pos) int { return pkg.Fset.Position(p).Offset }
			text := func(n ast.Node) string { return string(src[off(n.Pos()):off(n.End())]) }
			type edit struct {
				lo, hi int
				text   string
			}
			var edits []edit
			for _, d := range f.Decls {
				fd, ok := d.(*ast.FuncDecl)
				if !ok || fd.Body == nil {
					continue
				}
				// candidates
				type cand struct {
					v      *types.Var
					named  *types.Named
					fields []string
					ftext  []string
				}
				cands := map[*types.Var]*cand{}
				ast.Inspect(fd.Body, func(n ast.Node) bool {
					id, ok := n.(*ast.Ident)
					if !ok {
						return true
					}
					v, ok := pkg.TypesInfo.Defs[id].(*types.Var)
					if !ok || v.IsField() || cands[v] != nil {
						return true
					}
					pt, ok := v.Type().(*types.Pointer)
					if !ok {
						return true
					}
					named, ok := pt.Elem().(*types.Named)
					if !ok || named.Obj().Pkg() != pkg.Types || anchorTypes[pkg.PkgPath+"."+named.Obj().Name()] {
						return true
					}
					st, ok := named.Underlying().(*types.Struct)
					decl := structDecls[named.Obj().Name()]
					if !ok || decl == nil || st.NumFields() == 0 || st.NumFields() > 8 || structFile[named.Obj().Name()] != f {
						return true
					}
					c := &cand{v: v, named: named}
					dsrc := src
					for _, fl := range decl.Fields.List {
						if len(fl.Names) == 0 {
							return true
						}
						ft := string(dsrc[off(fl.Type.Pos()):off(fl.Type.End())])
						for _, nm := range fl.Names {
							c.fields = append(c.fields, nm.Name)
							c.ftext = append(c.ftext, ft)
						}
					}
					if len(c.fields) == st.NumFields() {
						cands[v] = c
					}
					return true
				})
				if len(cands) == 0 {
					continue
				}
				// union-find over aliases
				parent := map[*types.Var]*types.Var{}
				var find func(v *types.Var) *types.Var
				find = func(v *types.Var) *types.Var {
					if parent[v] == nil || parent[v] == v {
						return v
					}
					r := find(parent[v])
					parent[v] = r
					return r
				}
				union := func(a, b *types.Var) { parent[find(a)] = find(b) }
				bad := map[*types.Var]bool{}
				type use struct {
					kind string // field, init, alias, decl, blank
					node ast.Node
					v    *types.Var
					lit  *ast.CompositeLit
				}
				var uses []use
				varOf := func(e ast.Expr) *types.Var {
					id, ok := e.(*ast.Ident)
					if !ok {
						return nil
					}
					if v, ok := pkg.TypesInfo.Defs[id].(*types.Var); ok && cands[v] != nil {
						return v
					}
					if v, ok := pkg.TypesInfo.Uses[id].(*types.Var); ok && cands[v] != nil {
						return v
					}
					return nil
				}
				addrLit := func(e ast.Expr, c *cand) *ast.CompositeLit {
					u, ok := unparen(e).(*ast.UnaryExpr)
					if !ok || u.Op != token.AND {
						return nil
					}
					cl, ok := unparen(u.X).(*ast.CompositeLit)
					if !ok || !types.Identical(pkg.TypesInfo.TypeOf(cl), c.named) {
						return nil
					}
					return cl
				}
				var stack []ast.Node
				ast.Inspect(fd.Body, func(n ast.Node) bool {
					if n == nil {
						stack = stack[:len(stack)-1]
						return true
					}
					stack = append(stack, n)
					id, ok := n.(*ast.Ident)
					if !ok {
						return true
					}
					v := varOf(id)
					if v == nil {
						return true
					}
					c := cands[v]
					par := stack[len(stack)-2]
					switch p := par.(type) {
					case *ast.SelectorExpr:
						if p.X == ast.Expr(id) {
							if sel := pkg.TypesInfo.Selections[p]; sel != nil && sel.Kind() == types.FieldVal && len(sel.Index()) == 1 {
								uses = append(uses, use{"field", p, v, nil})
								return true
							}
						}
					case *ast.AssignStmt:
						if len(p.Lhs) == 1 && len(p.Rhs) == 1 {
							if p.Lhs[0] == ast.Expr(id) {
								if cl := addrLit(p.Rhs[0], c); cl != nil {
									uses = append(uses, use{"init", p, v, cl})
									return true
								}
								if rv := varOf(p.Rhs[0]); rv != nil && types.Identical(rv.Type(), v.Type()) {
									union(v, rv)
									uses = append(uses, use{"alias", p, v, nil})
									return true
								}
							}
							if p.Rhs[0] == ast.Expr(id) {
								if lv := varOf(p.Lhs[0]); lv != nil && types.Identical(lv.Type(), v.Type()) {
									return true // handled with the left-hand side
								}
								if b, ok := p.Lhs[0].(*ast.Ident); ok && b.Name == "_" && p.Tok == token.ASSIGN {
									uses = append(uses, use{"blank", p, v, nil})
									return true
								}
							}
						}
					case *ast.ValueSpec:
						if len(p.Names) == 1 && p.Names[0] == id {
							switch {
							case len(p.Values) == 0:
								uses = append(uses, use{"decl", p, v, nil})
								return true
							case len(p.Values) == 1:
								if cl := addrLit(p.Values[0], c); cl != nil {
									uses = append(uses, use{"init", p, v, cl})
									return true
								}
								if rv := varOf(p.Values[0]); rv != nil && types.Identical(rv.Type(), v.Type()) {
									union(v, rv)
									uses = append(uses, use{"alias", p, v, nil})
									return true
								}
							}
						}
						if len(p.Names) == 1 && len(p.Values) == 1 && p.Values[0] == ast.Expr(id) {
							if lv, ok := pkg.TypesInfo.Defs[p.Names[0]].(*types.Var); ok && cands[lv] != nil {
								return true
							}
						}
					}
					bad[v] = true
					return true
				})
				// classes
				classes := map[*types.Var][]*types.Var{}
				for v := range cands {
					classes[find(v)] = append(classes[find(v)], v)
				}
				for rep, members := range classes {
					okClass := true
					for _, m := range members {
						if bad[m] {
							okClass = false
						}
					}
					var inits []use
					for _, u := range uses {
						if find(u.v) == rep && u.kind == "init" {
							inits = append(inits, u)
						}
					}
					if !okClass || len(inits) != 1 {
						continue
					}
					c := cands[inits[0].v]
					vals, okLit := litFieldsOf(&sraVar{fields: c.fields, ftext: c.ftext}, inits[0].lit, func(n ast.Node) string { return text(n) })
					if !okLit {
						continue
					}
					// the field variables are declared where the first member of the class is declared
					sort.Slice(members, func(i, j int) bool { return members[i].Pos() < members[j].Pos() })
					first := members[0]
					base := first.Name()
					names := make([]string, len(c.fields))
					for i, fn := range c.fields {
						names[i] = sraName(base, fn)
					}
					var decl strings.Builder
					for i := range names {
						fmt.Fprintf(&decl, "var %s %s\n_ = %s\n", names[i], c.ftext[i], names[i])
					}
					declared := false
					var classEdits []edit
					stmtRange := func(n ast.Node) (int, int) {
						lo, hi := off(n.Pos()), off(n.End())
						if _, isSpec := n.(*ast.ValueSpec); isSpec {
							lo -= len("var ")
						}
						return lo, hi
					}
					for _, u := range uses {
						if find(u.v) != rep {
							continue
						}
						switch u.kind {
						case "field":
							se := u.node.(*ast.SelectorExpr)
							classEdits = append(classEdits, edit{off(se.Pos()), off(se.End()), sraName(base, se.Sel.Name)})
						case "blank":
							classEdits = append(classEdits, edit{off(u.node.Pos()), off(u.node.End()), ""})
						case "decl", "alias", "init":
							lo, hi := stmtRange(u.node)
							txt := ""
							if u.v == first && !declared {
								isDeclaring := u.kind == "decl"
								if as, ok := u.node.(*ast.AssignStmt); ok && as.Tok == token.DEFINE {
									isDeclaring = true
								}
								if _, ok := u.node.(*ast.ValueSpec); ok {
									isDeclaring = true
								}
								if isDeclaring {
									txt = decl.String()
									declared = true
								}
							}
							if u.kind == "init" {
								txt += strings.Join(names, ", ") + " = " + strings.Join(vals, ", ")
							}
							classEdits = append(classEdits, edit{lo, hi, strings.TrimSuffix(txt, "\n")})
						}
					}
					if !declared {
						continue
					}
					edits = append(edits, classEdits...)
					var mn []string
					for _, m := range members {
						mn = append(mn, m.Name())
					}
					log = append(log, fmt.Sprintf("scalar replacement of a local object: %s.%s %s (*%s)", pkg.PkgPath, fd.Name.Name, strings.Join(mn, " = "), c.named.Obj().Name()))
				}
			}
			if len(edits) == 0 {
				continue
			}
			sort.Slice(edits, func(i, j int) bool { return edits[i].lo > edits[j].lo })
			okFile := true
			for i := 1; i < len(edits); i++ {
				if edits[i].hi > edits[i-1].lo {
					okFile = false
				}
			}
			if !okFile {
				log = append(log, "scalar replacement of local objects skipped (overlapping edits) in "+fname)
				continue
			}
			buf := append([]byte{}, src...)
			for _, e := range edits {
				buf = append(buf[:e.lo], append([]byte(e.text), buf[e.hi:]...)...)
			}
			out[fname] = buf
		}
	}
	return out, log
}
