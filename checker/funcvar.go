package main

import (
	"fmt"
	"go/ast"
	"go/token"
	"go/types"
	"sort"
	"strings"

	"golang.org/x/tools/go/packages"
)

// funcVarRound: a local variable of function type that is set once, to a
// declared function or to a method expression (`draw := Tangible.String`,
// what binding a function-typed parameter of an inlined helper leaves behind),
// and that is only ever called, is replaced by what it names: `draw(x, w)`
// becomes `(x).String(w)`, `f(a)` becomes `pkgfunc(a)`. The rules then see a
// static or interface call instead of a call through a variable.
func funcVarRound(pkgs []*packages.Package, overlay map[string][]byte) (map[string][]byte, []string) {
	out := map[string][]byte{}
	var log []string
	for _, pkg := range pkgs {
		if !isServitorPath(pkg.PkgPath) || len(pkg.Errors) > 0 {
			continue
		}
		info := pkg.TypesInfo
		for _, f := range pkg.Syntax {
			fname := pkg.Fset.File(f.Pos()).Name()
			if strings.HasSuffix(fname, "_test.go") {
				continue
			}
			src := readSource(fname, overlay)
			off := func(p token.Pos) int { return pkg.Fset.Position(p).Offset }
			text := func(n ast.Node) string { return string(src[off(n.Pos()):off(n.End())]) }
			type edit struct {
				lo, hi int
				text   string
			}
			var edits []edit
			for _, d := range f.Decls {
				fd, ok := d.(*ast.FuncDecl)
				if !ok || fd.Body == nil {
					continue
				}
				type def struct {
					obj  *types.Var
					val  ast.Expr
					stmt ast.Stmt
				}
				var defs []def
				ast.Inspect(fd.Body, func(n ast.Node) bool {
					switch s := n.(type) {
					case *ast.AssignStmt:
						if s.Tok == token.DEFINE && len(s.Lhs) == 1 && len(s.Rhs) == 1 {
							if id, ok := s.Lhs[0].(*ast.Ident); ok {
								if v, ok := info.Defs[id].(*types.Var); ok {
									defs = append(defs, def{v, s.Rhs[0], s})
								}
							}
						}
					case *ast.DeclStmt:
						if gd, ok := s.Decl.(*ast.GenDecl); ok && gd.Tok == token.VAR && len(gd.Specs) == 1 {
							if vs, ok := gd.Specs[0].(*ast.ValueSpec); ok && len(vs.Names) == 1 && len(vs.Values) == 1 {
								if v, ok := info.Defs[vs.Names[0]].(*types.Var); ok {
									defs = append(defs, def{v, vs.Values[0], s})
								}
							}
						}
					}
					return true
				})
				for _, df := range defs {
					if _, isFn := df.obj.Type().Underlying().(*types.Signature); !isFn {
						continue
					}
					// what it names
					val := unparen(df.val)
					kind := ""
					switch x := val.(type) {
					case *ast.Ident:
						if fo, ok := info.Uses[x].(*types.Func); ok && fo.Type().(*types.Signature).Recv() == nil {
							kind = "func"
						}
					case *ast.SelectorExpr:
						if sel := info.Selections[x]; sel != nil {
							if sel.Kind() == types.MethodExpr {
								kind = "methodexpr"
							}
						} else if fo, ok := info.Uses[x.Sel].(*types.Func); ok && fo.Type().(*types.Signature).Recv() == nil {
							kind = "func" // pkg.F
						}
					}
					if kind == "" {
						continue
					}
					// uses: calls only, never assigned again
					okUses := true
					var calls []*ast.CallExpr
					var blanks []ast.Stmt
					var stack []ast.Node
					ast.Inspect(fd.Body, func(n ast.Node) bool {
						if n == nil {
							stack = stack[:len(stack)-1]
							return true
						}
						stack = append(stack, n)
						id, ok := n.(*ast.Ident)
						if !ok || info.Uses[id] != types.Object(df.obj) {
							return true
						}
						parent := stack[len(stack)-2]
						if call, ok := parent.(*ast.CallExpr); ok && call.Fun == ast.Expr(id) && !call.Ellipsis.IsValid() {
							calls = append(calls, call)
							return true
						}
						if as, ok := parent.(*ast.AssignStmt); ok && as.Tok == token.ASSIGN && len(as.Lhs) == 1 && len(as.Rhs) == 1 && as.Rhs[0] == ast.Expr(id) {
							if b, ok := as.Lhs[0].(*ast.Ident); ok && b.Name == "_" {
								blanks = append(blanks, as)
								return true
							}
						}
						okUses = false
						return true
					})
					if !okUses || len(calls) == 0 {
						continue
					}
					okCalls := true
					var callEdits []edit
					for _, call := range calls {
						switch kind {
						case "func":
							callEdits = append(callEdits, edit{off(call.Fun.Pos()), off(call.Fun.End()), text(val)})
						case "methodexpr":
							if len(call.Args) == 0 || !isSimpleOperand(call.Args[0]) {
								okCalls = false
								break
							}
							var rest []string
							for _, a := range call.Args[1:] {
								rest = append(rest, text(a))
							}
							callEdits = append(callEdits, edit{off(call.Pos()), off(call.End()), "(" + text(call.Args[0]) + ")." + val.(*ast.SelectorExpr).Sel.Name + "(" + strings.Join(rest, ", ") + ")"})
						}
					}
					if !okCalls {
						continue
					}
					edits = append(edits, callEdits...)
					edits = append(edits, edit{off(df.stmt.Pos()), off(df.stmt.End()), ""})
					for _, b := range blanks {
						edits = append(edits, edit{off(b.Pos()), off(b.End()), ""})
					}
					log = append(log, fmt.Sprintf("function variable replaced by what it names: %s = %s in %s.%s (%d calls)", df.obj.Name(), text(val), pkg.PkgPath, fd.Name.Name, len(calls)))
				}
			}
			if len(edits) == 0 {
				continue
			}
			sort.Slice(edits, func(i, j int) bool { return edits[i].lo > edits[j].lo })
			okFile := true
			for i := 1; i < len(edits); i++ {
				if edits[i].hi > edits[i-1].lo {
					okFile = false
				}
			}
			if !okFile {
				continue
			}
			buf := append([]byte{}, src...)
			for _, e := range edits {
				buf = append(buf[:e.lo], append([]byte(e.text), buf[e.hi:]...)...)
			}
			out[fname] = buf
		}
	}
	return out, log
}
