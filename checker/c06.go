package main

import (
	"fmt"
	"go/token"
	"go/types"
	"regexp/syntax"
	"sort"
	"strings"

	"golang.org/x/tools/go/ssa"
)

func init() { registry["C06"] = propC06 }

func propC06() *Property {
	return &Property{
		ID:          "C06",
		Explanation: "Crash clause only, by obligation classes: Go panics have a closed set of causes; over every function of the packages below the UI (pub, object, client, jtp, mime, hypertext, gemtext, plaintext, markdown, ansi, style) the checker enumerates every may-panic site of the classes K1–K7 and discharges each with a named static argument. K1: every type assertion is comma-ok (or provably holds). K2: every use of the value of a value+Err pair that would crash on the zero value is dominated by XErr == nil, and every producer stored into a pair returns a non-nil value with a nil error. K3: every slice index, slice bound, strings.Repeat count and make size that can depend on a width parameter or a link number is proven within range from branch facts (linear inequalities), or is a named relational exception. K4: every index into a regexp match is within the pattern's capture count and either guarded by a length test, or the pattern is total, or the match comes from FindAll. K5: every explicit panic is discharged (superscript of non-negative numbers only, Activity kinds accepted ⊆ kinds rendered, non-nil harvest receiver, NewFailure(non-nil) via C05.R4). K6: no typed-nil in Container/Tangible (C11.R1). K7: every recursion (call-graph SCC) is in the table with a checked measure. K8: every dereference of a *url.URL in the module (field read, net/url method call) happens where the pointer is provably non-nil — identifiers can be absent, so ids travel as possibly-nil pointers; proof by dominating nil tests, checked url.Parse / ResolveReference results, the source of a successful fetch, and assume-guarantee over all call sites of a parameter. K9: every index or slice bound applied to a strings.Fields result (as many pieces as the text has — none for blanks), and every constant index above 0 into a strings.Split result, is within the length known from branch facts at that point. (K10 = C08.R5) every goroutine of a fan-out writes the slot of its own iteration, so no result slot stays nil. (K3, addition) an index that is the length of its own sequence minus a constant is claimed whatever it depends on: the sequence must be known to be that long (the last element of a slice that can be empty). (K12) every call of ansi.Snip passes a height that is a non-negative constant or proven non-negative in front of the call (Snip sizes a slice with it). NOT decided: the hang / resource clause (cost of nested indenting blocks: the property text records that the pinned tree violates it with 82 nested <blockquote>; no sound static cost analysis is in reach), nil dereferences outside K2/K6, and bounds checks that rest on relational invariants, which are listed in the evidence as unclaimed sites.",
		Assumptions: []string{"library functions do not panic on the argument ranges established here (strings.Repeat count >= 0, slice bounds)", "regexp/syntax models the regexp engine's capture structure"},
		Rules: []Rule{
			{ID: "C06.K1", Title: "type assertions are comma-ok or provably hold", Floor: 10, Run: c06K1},
			{ID: "C06.K2", Title: "value+Err pairs: values used only under XErr == nil; producers sound", Floor: 15, Run: c06K2},
			{ID: "C06.K3", Title: "externally influenced integers are range-checked before indexing / Repeat / make", Floor: 25, Run: c06K3},
			{ID: "C06.K4", Title: "regexp match indexing within capture structure", Floor: 19, Run: c06K4},
			{ID: "C06.K5", Title: "explicit panics are unreachable or discharged", Floor: 26, Run: c06K5},
			{ID: "C06.K7", Title: "every recursion has a checked measure", Floor: 3, Run: c06K7},
			{ID: "C06.K9", Title: "elements of a split text are taken only where the split is known to be long enough", Floor: 0, Run: splitIndexing},
			{ID: "C06.K8", Title: "URLs (identifiers can be absent) are dereferenced only where provably non-nil", Floor: 10, Run: c06K8},
			{ID: "C06.K12", Title: "a count of lines asked of ansi.Snip is not negative: every call passes a height that is a non-negative constant or provably not below zero (Snip sizes a slice with it)", Floor: 2, Run: c06K12},
			{ID: "C06.K11", Title: "interface values are only compared where their dynamic types are comparable", Floor: 0, Run: c06K11},
			{ID: "C06.K10", Title: "every goroutine of a fan-out fills the slot of its own iteration: no result slot stays nil to be dereferenced later (same instances as C08.R5)", Floor: 40, Run: c08R5},
		},
	}
}

var c06Pkgs = []string{"servitor/pub", "servitor/object", "servitor/client", "servitor/jtp", "servitor/mime",
	"servitor/hypertext", "servitor/gemtext", "servitor/plaintext", "servitor/markdown", "servitor/ansi", "servitor/style"}

func c06K1(c *Ctx) {
	P := c.P
	for _, fn := range P.FuncsIn(c06Pkgs...) {
		fname := FuncName(fn)
		eachInstr(fn, func(_ *ssa.BasicBlock, _ int, in ssa.Instruction) {
			ta, ok := in.(*ssa.TypeAssert)
			if !ok {
				return
			}
			construct := fname + "/assert:" + typeString(ta.AssertedType)
			if ta.CommaOk {
				c.ok(construct, P.InstrPos(in), fname, "comma-ok assertion / type switch")
				return
			}
			// b.(bundle) in FetchURL: the value is what the closure passed to singleflight.Do returned
			if ex, ok := ta.X.(*ssa.Extract); ok && ex.Index == 0 {
				if call, ok := ex.Tuple.(*ssa.Call); ok && isLibCall(&call.Call, "golang.org/x/sync/singleflight", "Group", "Do") {
					if mc, ok := call.Call.Args[2].(*ssa.MakeClosure); ok {
						all := true
						cl := mc.Fn.(*ssa.Function)
						for _, b := range cl.Blocks {
							if ret, ok := b.Instrs[len(b.Instrs)-1].(*ssa.Return); ok {
								mi, ok := ret.Results[0].(*ssa.MakeInterface)
								if !ok || !types.Identical(mi.X.Type(), ta.AssertedType) {
									all = false
								}
							}
						}
						if all {
							c.ok(construct, P.InstrPos(in), fname, "the closure given to singleflight.Do returns this type on every path")
							return
						}
					}
				}
			}
			c.bad(construct, P.InstrPos(in), fname, "type assertion without comma-ok on a value whose dynamic type is not established: a document with another JSON type here panics")
		})
	}
}

// pairValueFields: fields X of pub structs that have an XErr sibling and whose
// zero value crashes on use (pointers, interfaces).
func c06K2(c *Ctx) {
	P := c.P
	nn := newNonNil(P)
	nUses := 0
	for _, fn := range P.FuncsIn("servitor/pub") {
		fname := FuncName(fn)
		eachInstr(fn, func(b *ssa.BasicBlock, _ int, in ssa.Instruction) {
			u, ok := in.(*ssa.UnOp)
			if !ok || u.Op != token.MUL {
				return
			}
			fa, ok := u.X.(*ssa.FieldAddr)
			if !ok || freshBase(fa.X) {
				return
			}
			f := fieldOf(fa)
			owner := structOwner(fa)
			if owner == nil || owner.Obj().Pkg() == nil || owner.Obj().Pkg().Path() != "servitor/pub" {
				return
			}
			switch f.Type().Underlying().(type) {
			case *types.Pointer, *types.Interface:
			default:
				return
			}
			ef := errSibling(f, owner)
			if ef == nil || isErrorType(f.Type()) {
				return
			}
			// does this load's value get dereferenced?
			if !valueIsDereferenced(P, u) {
				return
			}
			nUses++
			construct := fname + "/pair-use:" + owner.Obj().Name() + "." + f.Name()
			// guarded where the value is loaded, or at every place where it is dereferenced
			// (a copy taken into a local before the guard is used after it)
			guarded := nn.pairGuardedFactOnly(fa, b)
			if !guarded {
				guarded = true
				for _, site := range derefSites(P, u) {
					if !nn.pairGuardedFactOnly(fa, site.Block()) {
						guarded = false
					}
				}
			}
			c.check(guarded, construct, P.InstrPos(in), fname,
				"used under "+ef.Name()+" == nil", owner.Obj().Name()+"."+f.Name()+" is dereferenced on a path where "+ef.Name()+" is not known to be nil: for a document where that field is missing or malformed the value is nil and this crashes")
		})
	}
	c.info("pair_uses", nUses)
	// K2b: producers are sound
	seen := map[string]bool{}
	for _, tn := range []string{"Post", "Actor", "Activity", "Link", "Collection"} {
		st := P.NamedType("servitor/pub", tn).Underlying().(*types.Struct)
		for i := 0; i < st.NumFields(); i++ {
			f := st.Field(i)
			switch f.Type().Underlying().(type) {
			case *types.Pointer, *types.Interface:
			default:
				continue
			}
			if isErrorType(f.Type()) {
				continue
			}
			ef := errSibling(f, P.NamedType("servitor/pub", tn))
			if ef == nil || seen[tn+"."+f.Name()] {
				continue
			}
			seen[tn+"."+f.Name()] = true
			// fields that are never dereferenced need no soundness (e.g. parentIdentifier may legitimately be nil)
			if !fieldEverDereferenced(P, f) {
				c.note("pair:"+tn+"."+f.Name(), P.Pos(f.Pos()), "", "pair value never dereferenced; nil is a legal value")
				continue
			}
			c.check(nn.pairSound(f, ef), "pair-sound:"+tn+"."+f.Name(), P.Pos(f.Pos()), "servitor/pub."+tn,
				"every producer stored into ("+f.Name()+", "+ef.Name()+") returns a non-nil value whenever its error is nil",
				"a producer stored into ("+f.Name()+", "+ef.Name()+") can return a nil value together with a nil error: the "+ef.Name()+" == nil guard no longer protects the dereference")
		}
	}
}

// valueIsDereferenced: the loaded pointer/interface is used as a receiver,
// dereferenced, or passed to a servitor function that dereferences it unconditionally.
func valueIsDereferenced(P *Program, v ssa.Value) bool {
	return len(derefSites(P, v)) > 0
}

// derefSites: the instructions that dereference the loaded value.
func derefSites(P *Program, v ssa.Value) []ssa.Instruction {
	var out []ssa.Instruction
	for _, r := range refs(v) {
		switch x := r.(type) {
		case *ssa.FieldAddr:
			if x.X == v {
				out = append(out, x)
			}
		case *ssa.UnOp:
			if x.Op == token.MUL && x.X == v {
				out = append(out, x)
			}
		case ssa.CallInstruction:
			cc := x.Common()
			if cc.IsInvoke() && cc.Value == v {
				out = append(out, x)
				continue
			}
			if !cc.IsInvoke() && len(cc.Args) > 0 && cc.Args[0] == v {
				if f := calleeObj(cc); f != nil {
					if sig, ok := f.Type().(*types.Signature); ok && sig.Recv() != nil {
						// method with pointer receiver: dereferences unless it checks nil first
						if sc := cc.StaticCallee(); sc != nil && P.IsServitorFunc(sc) && len(sc.Params) > 0 {
							if paramDereferenced(sc.Params[0]) {
								out = append(out, x)
							}
							continue
						}
						out = append(out, x)
					}
				}
			}
		}
	}
	return out
}

// paramDereferenced: the parameter is dereferenced on some path that is not
// guarded by a nil test of it.
func paramDereferenced(p *ssa.Parameter) bool {
	for _, r := range refs(p) {
		var at *ssa.BasicBlock
		switch x := r.(type) {
		case *ssa.FieldAddr:
			at = x.Block()
		case *ssa.UnOp:
			if x.Op == token.MUL {
				at = x.Block()
			}
		case *ssa.Store:
			if unwrapLoad(x.Val) == ssa.Value(p) {
				// spilled into a local: look at loads of that local
				if a, ok := x.Addr.(*ssa.Alloc); ok {
					for _, rr := range refs(a) {
						if ld, ok := rr.(*ssa.UnOp); ok && ld.Op == token.MUL {
							if valueDerefNoGuard(ld) {
								return true
							}
						}
					}
				}
			}
		}
		if at != nil && !knownNonNil(p, at) {
			return true
		}
	}
	return false
}

func valueDerefNoGuard(v ssa.Value) bool {
	for _, r := range refs(v) {
		switch x := r.(type) {
		case *ssa.FieldAddr:
			if !knownNonNil(v, x.Block()) {
				return true
			}
		case *ssa.UnOp:
			if x.Op == token.MUL && !knownNonNil(v, x.Block()) {
				return true
			}
		}
	}
	return false
}

func fieldEverDereferenced(P *Program, f *types.Var) bool {
	res := false
	for _, fn := range P.Funcs {
		eachInstr(fn, func(_ *ssa.BasicBlock, _ int, in ssa.Instruction) {
			u, ok := in.(*ssa.UnOp)
			if !ok || u.Op != token.MUL {
				return
			}
			fa, ok := u.X.(*ssa.FieldAddr)
			if !ok || fieldOf(fa) != f {
				return
			}
			if valueIsDereferenced(P, u) {
				res = true
			}
		})
	}
	return res
}

// ---- K3 --------------------------------------------------------------------------

// relationalExceptions: sites whose safety rests on an invariant relating two
// quantities that the linear prover cannot see; one line of reason each.
var relationalExceptions = map[string]string{}

func c06K3(c *Ctx) {
	P := c.P
	f := flowAll(P)
	// sources: width parameters of String/Preview/Render implementations and SelectLink's number
	var sources []int
	for _, fn := range P.Funcs {
		if fn.Parent() != nil || fn.Signature.Recv() == nil {
			continue
		}
		switch fn.Name() {
		case "String", "Preview", "Render", "SelectLink":
			for _, p := range fn.Params[1:] {
				if isInteger(p.Type()) {
					sources = append(sources, f.val(p))
				}
			}
		}
	}
	if len(sources) < 10 {
		broken("C06.K3 found only %d width / link-number parameters", len(sources))
	}
	reach := f.Forward(sources)
	tainted := func(v ssa.Value) bool {
		if _, isConst := v.(*ssa.Const); isConst {
			return false
		}
		return reach.Reached(f.val(v))
	}
	nSites, nUnclaimed := 0, 0
	var unclaimed []string
	for _, fn := range P.FuncsIn(c06Pkgs...) {
		fname := FuncName(fn)
		eachInstr(fn, func(b *ssa.BasicBlock, _ int, in ssa.Instruction) {
			facts := factsOf(fn).At(b)
			hyps := ineqs(facts)
			prove := func(g linForm, vals ...ssa.Value) bool {
				return proveNonNeg(g, hyps, unsignedSymbolsOf(vals...))
			}
			switch x := in.(type) {
			case *ssa.Call:
				if isLibCall(&x.Call, "strings", "", "Repeat") {
					cnt := x.Call.Args[1]
					if _, isC := cnt.(*ssa.Const); isC {
						return
					}
					nSites++
					okP := prove(lin(cnt), cnt) || convertedFromUnsigned(cnt) || proveValueNonNeg(cnt, b, 0)
					construct := fname + "/repeat-count"
					if okP {
						c.ok(construct, P.InstrPos(in), fname, "count "+lin(cnt).String()+" proven non-negative")
					} else if tainted(cnt) {
						c.bad(construct, P.InstrPos(in), fname, "strings.Repeat count "+lin(cnt).String()+" depends on the requested width and is not known to be non-negative: a narrow terminal or deep nesting makes it negative and strings.Repeat panics")
					} else {
						nUnclaimed++
						unclaimed = append(unclaimed, P.InstrPos(in)+" repeat count")
					}
				}
			case *ssa.MakeSlice:
				for _, sz := range []ssa.Value{x.Len, x.Cap} {
					if _, isC := sz.(*ssa.Const); isC || sz == nil {
						continue
					}
					nSites++
					okP := prove(lin(sz), sz) || convertedFromUnsigned(sz) || isUnsignedVal(sz) || proveValueNonNeg(sz, b, 0)
					construct := fname + "/make-size"
					if okP {
						c.ok(construct, P.InstrPos(in), fname, "size "+lin(sz).String()+" proven non-negative")
					} else if tainted(sz) {
						c.bad(construct, P.InstrPos(in), fname, "make size "+lin(sz).String()+" depends on the requested width / link number and is not known to be non-negative")
					} else {
						nUnclaimed++
						unclaimed = append(unclaimed, P.InstrPos(in)+" make size")
					}
				}
			case *ssa.IndexAddr:
				if _, isC := x.Index.(*ssa.Const); isC {
					return // constant indices: K4 (regexp matches) or array literals
				}
				if a, ok := x.X.(*ssa.Alloc); ok && (a.Comment == "varargs" || a.Comment == "slicelit") {
					return
				}
				nSites++
				lo, hi := indexInBounds(x.Index, x.X, b)
				construct := fname + "/index"
				switch {
				case lo && hi:
					c.ok(construct, P.InstrPos(in), fname, "0 <= "+lin(x.Index).String()+" < len proven")
				case rangeIndexed(x):
					c.ok(construct, P.InstrPos(in), fname, "index is the loop variable of a range over the same sequence")
				case tainted(x.Index):
					c.bad(construct, P.InstrPos(in), fname, "index "+lin(x.Index).String()+" depends on the requested width / link number and is not proven within bounds")
				case hi && !lo && belowLenByConstruction(x.Index, x.X):
					// below the length by construction (len(s)-k), but s may be shorter than k: the last element of a sequence that can be empty
					c.bad(fname+"/index-from-end", P.InstrPos(in), fname, "index "+lin(x.Index).String()+" is counted from the end of a sequence that is not known to be long enough here: on a shorter (empty) sequence it is negative and the access panics")
				default:
					nUnclaimed++
					unclaimed = append(unclaimed, P.InstrPos(in)+" index "+lin(x.Index).String())
				}
			case *ssa.Slice:
				for _, bd := range []ssa.Value{x.Low, x.High} {
					if bd == nil {
						continue
					}
					if _, isC := bd.(*ssa.Const); isC {
						if a, ok := x.X.(*ssa.Alloc); ok && (a.Comment == "varargs" || a.Comment == "slicelit") {
							continue
						}
					}
					if !tainted(bd) {
						nUnclaimed++
						unclaimed = append(unclaimed, P.InstrPos(in)+" slice bound "+lin(bd).String())
						continue
					}
					nSites++
					c.check(prove(lin(bd), bd) || proveValueNonNeg(bd, b, 0), fname+"/slice-bound", P.InstrPos(in), fname, "bound proven non-negative", "slice bound "+lin(bd).String()+" depends on the requested width / link number and is not proven non-negative")
				}
			}
		})
	}
	sort.Strings(unclaimed)
	c.info("sites", nSites)
	c.info("unclaimed_sites", unclaimed)
	c.info("unclaimed_count", nUnclaimed)
}

func convertedFromUnsigned(v ssa.Value) bool {
	if cv, ok := v.(*ssa.Convert); ok {
		return isUnsignedVal(cv.X) || convertedFromUnsigned(cv.X)
	}
	if b, ok := v.(*ssa.BinOp); ok && b.Op == token.ADD {
		if k, isC := constInt(b.Y); isC && k >= 0 {
			return convertedFromUnsigned(b.X) || isUnsignedVal(b.X)
		}
	}
	return false
}

func isUnsignedVal(v ssa.Value) bool {
	b, ok := v.Type().Underlying().(*types.Basic)
	return ok && b.Info()&types.IsUnsigned != 0
}

// rangeIndexed: seq[i] where i is the index variable of `for i := range seq`
// (or the classic i < len(seq) loop), recognised by the loop's own bound test.
func rangeIndexed(ia *ssa.IndexAddr) bool {
	bo, ok := ia.Index.(*ssa.BinOp)
	if !ok || bo.Op != token.ADD {
		return false
	}
	ph, ok := bo.X.(*ssa.Phi)
	if !ok || ph.Comment != "rangeindex" {
		return false
	}
	// the loop condition compares the same index with len(seq)
	for _, r := range refs(bo) {
		cmp, ok := r.(*ssa.BinOp)
		if !ok || cmp.Op != token.LSS || unwrapLoad(cmp.X) != ssa.Value(bo) {
			continue
		}
		if lc, ok := cmp.Y.(*ssa.Call); ok {
			if bi, ok := lc.Call.Value.(*ssa.Builtin); ok && bi.Name() == "len" && (lc.Call.Args[0] == ia.X || path(lc.Call.Args[0]) == path(ia.X)) {
				return true
			}
		}
	}
	return false
}

// ---- K4 --------------------------------------------------------------------------

func patternOfRegexpValue(P *Program, recv ssa.Value) (string, bool) {
	recv = unwrapLoad(recv)
	if call, ok := recv.(*ssa.Call); ok && (isLibCall(&call.Call, "regexp", "", "MustCompile") || isLibCall(&call.Call, "regexp", "", "Compile")) {
		return constStringOK(call.Call.Args[0])
	}
	if u, ok := recv.(*ssa.UnOp); ok {
		if g, ok := u.X.(*ssa.Global); ok {
			pat, _ := regexpPattern(P, g.Pkg.Pkg.Path(), g.Name())
			return pat, pat != ""
		}
	}
	if ex, ok := recv.(*ssa.Extract); ok {
		if call, ok := ex.Tuple.(*ssa.Call); ok && isLibCall(&call.Call, "regexp", "", "Compile") {
			return constStringOK(call.Call.Args[0])
		}
	}
	return "", false
}

func constStringOK(v ssa.Value) (string, bool) { return constString(v) }

// totalPattern: the pattern matches every string (anchored concatenation of
// nullable parts containing (?s).*).
func totalPattern(re *syntax.Regexp) bool {
	var parts []*syntax.Regexp
	var flat func(r *syntax.Regexp)
	flat = func(r *syntax.Regexp) {
		switch r.Op {
		case syntax.OpConcat:
			for _, s := range r.Sub {
				flat(s)
			}
		case syntax.OpCapture:
			flat(r.Sub[0])
		default:
			parts = append(parts, r)
		}
	}
	flat(re)
	if len(parts) < 2 || parts[0].Op != syntax.OpBeginText || parts[len(parts)-1].Op != syntax.OpEndText {
		return false
	}
	sawAny := false
	for _, p := range parts[1 : len(parts)-1] {
		switch p.Op {
		case syntax.OpStar:
			if p.Sub[0].Op == syntax.OpAnyChar {
				sawAny = true
			}
		case syntax.OpQuest, syntax.OpEmptyMatch:
		case syntax.OpRepeat:
			if p.Min != 0 {
				return false
			}
		default:
			return false
		}
	}
	return sawAny
}

// captureNonEmpty: capture k always matches at least one character when the
// overall pattern matches.
func captureNonEmpty(re *syntax.Regexp, k int) bool {
	res := false
	var walk func(r *syntax.Regexp, optional bool)
	walk = func(r *syntax.Regexp, optional bool) {
		if r.Op == syntax.OpCapture && r.Cap == k && !optional {
			s := r.Sub[0]
			switch s.Op {
			case syntax.OpAnyChar, syntax.OpAnyCharNotNL, syntax.OpCharClass, syntax.OpLiteral, syntax.OpPlus:
				res = true
			case syntax.OpRepeat:
				res = s.Min >= 1
			}
		}
		opt := optional || r.Op == syntax.OpStar || r.Op == syntax.OpQuest || r.Op == syntax.OpAlternate || (r.Op == syntax.OpRepeat && r.Min == 0)
		for _, s := range r.Sub {
			walk(s, opt)
		}
	}
	walk(re, false)
	return res
}

func c06K4(c *Ctx) {
	P := c.P
	for _, fn := range P.FuncsIn(c06Pkgs...) {
		fname := FuncName(fn)
		eachInstr(fn, func(b *ssa.BasicBlock, _ int, in ssa.Instruction) {
			ia, ok := in.(*ssa.IndexAddr)
			if !ok {
				return
			}
			k, isC := constInt(ia.Index)
			if !isC {
				return
			}
			if sl, ok := ia.X.Type().Underlying().(*types.Slice); !ok || !types.Identical(sl.Elem(), types.Typ[types.String]) {
				return
			}
			producers, complete := matchProducers(P, ia.X, map[ssa.Value]bool{}, 0)
			if len(producers) == 0 {
				return // not a regexp match
			}
			if !complete {
				c.bad(fname+"/match-index:"+fmt.Sprint(k), P.InstrPos(in), fname, "a regexp match is indexed but not all origins of the slice could be identified")
				return
			}
			construct := fname + "/match-index:" + fmt.Sprint(k)
			problem := ""
			// a length test that covers the index settles it whatever the pattern is
			lenGuard := false
			for _, fact := range factsOf(fn).At(b) {
				cmp, ok := fact.Cmp()
				if !ok {
					continue
				}
				if lc, ok := cmp.X.(*ssa.Call); ok {
					if bi, ok := lc.Call.Value.(*ssa.Builtin); ok && bi.Name() == "len" && (lc.Call.Args[0] == ia.X) {
						if kk, isK := constInt(cmp.Y); isK {
							if (cmp.Op == token.EQL && kk > k) || (cmp.Op == token.GTR && kk >= k) || (cmp.Op == token.GEQ && kk > k) {
								lenGuard = true
							}
						}
					}
				}
			}
			if lenGuard {
				c.ok(construct, P.InstrPos(in), fname, "a dominating length test covers the index")
				return
			}
			for _, pc := range producers {
				pat, ok := patternOfRegexpValue(P, pc.Call.Args[0])
				if !ok {
					problem = "the pattern is not a compile-time constant"
					continue
				}
				re, err := syntax.Parse(pat, syntax.Perl)
				if err != nil {
					problem = "pattern does not parse"
					continue
				}
				ncap := re.MaxCap()
				if int(k) > ncap {
					problem = fmt.Sprintf("index %d exceeds the %d captures of %q", k, ncap, pat)
					continue
				}
				all := isLibCall(&pc.Call, "regexp", "Regexp", "FindAllStringSubmatch")
				if all {
					continue // every element of FindAll has ncap+1 entries
				}
				// FindStringSubmatch returns nil on no match
				guarded := false
				for _, fact := range factsOf(fn).At(b) {
					cmp, ok := fact.Cmp()
					if !ok {
						continue
					}
					if lc, ok := cmp.X.(*ssa.Call); ok {
						if bi, ok := lc.Call.Value.(*ssa.Builtin); ok && bi.Name() == "len" && (lc.Call.Args[0] == ia.X) {
							if kk, isK := constInt(cmp.Y); isK {
								if (cmp.Op == token.EQL && kk > k) || (cmp.Op == token.GTR && kk >= k) || (cmp.Op == token.GEQ && kk > k) {
									guarded = true
								}
							}
						}
					}
					if cmp.Op == token.NEQ && isNilConst(cmp.Y) && cmp.X == ia.X {
						guarded = true
					}
				}
				if !guarded && !totalPattern(re.Simplify()) {
					problem = fmt.Sprintf("the match of %q is indexed without a length test and the pattern does not match every input", pat)
				}
			}
			c.check(problem == "", construct, P.InstrPos(in), fname, "index within the capture count; match guaranteed (length test, total pattern or FindAll)", problem)
		})
		// []rune(m[k])[0]: capture must be non-empty
		eachInstr(fn, func(b *ssa.BasicBlock, _ int, in ssa.Instruction) {
			ia, ok := in.(*ssa.IndexAddr)
			if !ok {
				return
			}
			cv, ok := ia.X.(*ssa.Convert)
			if !ok {
				return
			}
			if sl, ok := cv.Type().Underlying().(*types.Slice); !ok || !types.Identical(sl.Elem().Underlying(), types.Typ[types.Int32]) {
				return
			}
			k0, isC := constInt(ia.Index)
			if !isC || k0 != 0 {
				return
			}
			// the converted string: m[k]
			src := cv.X
			okNE := false
			why := "the string whose first rune is taken is not a non-empty capture"
			if u, ok := src.(*ssa.UnOp); ok {
				if mia, ok := u.X.(*ssa.IndexAddr); ok {
					if kk, isK := constInt(mia.Index); isK {
						prods, complete := matchProducers(P, mia.X, map[ssa.Value]bool{}, 0)
						found := false
						all := complete
						for _, pc := range prods {
							{
								found = true
								pat, ok := patternOfRegexpValue(P, pc.Call.Args[0])
								if !ok {
									all = false
									continue
								}
								re, err := syntax.Parse(pat, syntax.Perl)
								if err != nil || !captureNonEmpty(re, int(kk)) {
									all = false
									why = fmt.Sprintf("capture %d of %q can be empty: []rune(..)[0] panics", kk, pat)
								}
							}
						}
						okNE = found && all
					}
				}
			}
			c.check(okNE, fname+"/first-rune", P.InstrPos(in), fname, "first rune of a capture that always holds one character", why)
		})
	}
}

// ---- K5 --------------------------------------------------------------------------

func c06K5(c *Ctx) {
	P := c.P
	nn := newNonNil(P)
	nPanics := 0
	for _, fn := range P.Funcs {
		eachInstr(fn, func(_ *ssa.BasicBlock, _ int, in ssa.Instruction) {
			if _, ok := in.(*ssa.Panic); ok {
				nPanics++
			}
		})
	}
	c.info("explicit_panics_in_module", nPanics)
	// (1) style.superscript: only non-negative numbers
	for _, name := range []string{"Link", "LinkBlock"} {
		fn := P.Func("servitor/style", name)
		for _, e := range P.Callers(fn) {
			if e.Site == nil {
				continue
			}
			caller := e.Caller.Func
			num := e.Site.Common().Args[len(e.Site.Common().Args)-1]
			if p, ok := num.(*ssa.Parameter); ok && P.PkgOf(caller) == "servitor/style" {
				_ = p
				continue // LinkBlock forwarding its own parameter to Link
			}
			g := lin(num)
			hyps := ineqs(factsOf(caller).At(e.Site.Block()))
			okNum := proveNonNeg(g, hyps, unsignedSymbolsOf(num))
			if f := loadedField(num); !okNum && f != nil && f.Pkg() != nil && isServitorPath(f.Pkg().Path()) {
				// a number carried in a field of a record: everything ever stored there is non-negative
				sts := storesToField(P, f)
				okNum = len(sts) > 0
				for _, st := range sts {
					if !nonNegStored(st.Val, 0) {
						okNum = false
					}
				}
			}
			c.check(okNum, FuncName(caller)+"/superscript-arg", P.InstrPos(e.Site), FuncName(caller),
				"label "+g.String()+" is non-negative (lengths and loop indices only)", "a link label "+g.String()+" that may be negative reaches style.superscript, whose '-' sign hits panic(\"can't superscript non-digit\")")
		}
	}
	// (2) Activity.header: kinds accepted by the constructor minus early returns ⊆ switch cases
	ctor := P.Func("servitor/pub", "NewActivityFromObject")
	var accepted []string
	eachInstr(ctor, func(_ *ssa.BasicBlock, _ int, in ssa.Instruction) {
		if call, ok := in.(*ssa.Call); ok {
			if f := calleeObj(&call.Call); f != nil && f.Name() == "Contains" && len(call.Call.Args) == 2 {
				if lits, ok := constStringSlice(call.Call.Args[0]); ok {
					accepted = lits
				}
			}
		}
	})
	hdr := P.Method("servitor/pub", "Activity", "header")
	handled := map[string]bool{}
	eachInstr(hdr, func(_ *ssa.BasicBlock, _ int, in ssa.Instruction) {
		if cmp, ok := in.(*ssa.BinOp); ok && cmp.Op == token.EQL {
			if s, isC := constString(cmp.Y); isC && strings.HasSuffix(path(cmp.X), ".&kind.*") {
				handled[s] = true
			}
		}
	})
	// or a table lookup `verb, ok := verbs[a.kind]` with the panic on !ok:
	// the handled kinds are the keys of the (constant, never updated) table
	eachInstr(hdr, func(_ *ssa.BasicBlock, _ int, in ssa.Instruction) {
		lk, ok := in.(*ssa.Lookup)
		if !ok || !lk.CommaOk || !strings.HasSuffix(path(lk.Index), ".&kind.*") {
			return
		}
		if ld, ok := lk.X.(*ssa.UnOp); ok && ld.Op == token.MUL {
			if g, ok := ld.X.(*ssa.Global); ok {
				for _, k := range constStringMapKeys(g) {
					handled[k] = true
				}
			}
		}
	})
	hasPanic := false
	eachInstr(hdr, func(_ *ssa.BasicBlock, _ int, in ssa.Instruction) {
		if _, ok := in.(*ssa.Panic); ok {
			hasPanic = true
		}
	})
	if hasPanic {
		if len(accepted) == 0 {
			c.bad(FuncName(ctor)+"/kinds", P.Pos(ctor.Pos()), FuncName(ctor), "cannot extract the list of accepted Activity kinds")
		}
		for _, k := range accepted {
			c.check(handled[k], FuncName(hdr)+"/kind:"+k, P.Pos(hdr.Pos()), FuncName(hdr), "accepted kind "+k+" is handled before the panic default", "NewActivityFromObject accepts kind "+k+" but Activity.header has no case for it: rendering such an activity panics")
		}
		// kind is stored only from the checked value
		kf := P.Field("servitor/pub", "Activity", "kind")
		for _, fn := range P.Funcs {
			eachInstr(fn, func(_ *ssa.BasicBlock, _ int, in ssa.Instruction) {
				if st, ok := in.(*ssa.Store); ok {
					if fa, ok := st.Addr.(*ssa.FieldAddr); ok && fieldOf(fa) == kf {
						c.check(fn == ctor, FuncName(fn)+"/kind-store", P.InstrPos(in), FuncName(fn), "Activity.kind is assigned in the constructor (before the membership test)", "Activity.kind is assigned outside the constructor that validates it")
					}
				}
			})
		}
	} else {
		c.ok(FuncName(hdr)+"/no-panic", P.Pos(hdr.Pos()), FuncName(hdr), "Activity.header has no panic")
	}
	// (3) harvest on a nil collection: receiver provably non-nil at every static call site
	h := P.Method("servitor/pub", "Collection", "harvestWithEmptyCount")
	for _, e := range P.Callers(h) {
		if e.Site == nil {
			continue
		}
		recv := e.Site.Common().Args[0]
		caller := e.Caller.Func
		c.check(nn.Value(recv, e.Site.Block(), 0), FuncName(caller)+"/harvest-receiver", P.InstrPos(e.Site), FuncName(caller),
			"the collection harvested is provably non-nil here", "harvestWithEmptyCount may be called on a nil *Collection (it panics)")
	}
	// (4) NewFailure(nil): C05.R4 — repeated here for the pub constructors reachable from the item API
	nf := P.Func("servitor/pub", "NewFailure")
	for _, e := range P.Callers(nf) {
		if e.Site == nil {
			continue
		}
		ok, why := nonNilErrorArg(e.Site.Common().Args[0], e.Site.Block(), 0)
		c.check(ok, FuncName(e.Caller.Func)+"/NewFailure", P.InstrPos(e.Site), FuncName(e.Caller.Func), why, "NewFailure may receive nil and panics: "+why)
	}
}

// ---- K7 --------------------------------------------------------------------------

func c06K7(c *Ctx) {
	P := c.P
	// SCCs among servitor functions (Tarjan)
	idx := map[*ssa.Function]int{}
	low := map[*ssa.Function]int{}
	on := map[*ssa.Function]bool{}
	var stack []*ssa.Function
	var sccs [][]*ssa.Function
	n := 0
	succ := func(fn *ssa.Function) []*ssa.Function {
		var out []*ssa.Function
		eachInstr(fn, func(_ *ssa.BasicBlock, _ int, in ssa.Instruction) {
			if ci, ok := in.(ssa.CallInstruction); ok {
				for _, callee := range P.Callees(ci) {
					if P.IsServitorFunc(callee) && callee.Blocks != nil {
						out = append(out, callee)
					}
				}
			}
		})
		return out
	}
	var strong func(v *ssa.Function)
	strong = func(v *ssa.Function) {
		idx[v] = n
		low[v] = n
		n++
		stack = append(stack, v)
		on[v] = true
		for _, w := range succ(v) {
			if _, seen := idx[w]; !seen {
				strong(w)
				if low[w] < low[v] {
					low[v] = low[w]
				}
			} else if on[w] && idx[w] < low[v] {
				low[v] = idx[w]
			}
		}
		if low[v] == idx[v] {
			var comp []*ssa.Function
			for {
				w := stack[len(stack)-1]
				stack = stack[:len(stack)-1]
				on[w] = false
				comp = append(comp, w)
				if w == v {
					break
				}
			}
			selfLoop := false
			for _, w := range succ(v) {
				if w == v {
					selfLoop = true
				}
			}
			if len(comp) > 1 || selfLoop {
				sccs = append(sccs, comp)
			}
		}
	}
	for _, fn := range P.Funcs {
		if _, seen := idx[fn]; !seen {
			strong(fn)
		}
	}
	c.info("recursive_components", len(sccs))
	for _, comp := range sccs {
		var names []string
		for _, f := range comp {
			names = append(names, trimPkg(f.String()))
		}
		sort.Strings(names)
		key := strings.Join(names, "+")
		has := func(s string) bool {
			for _, nme := range names {
				if strings.Contains(nme, s) {
					return true
				}
			}
			return false
		}
		switch {
		case has("jtp.Get"):
			c.ok("scc:"+key, P.Pos(comp[0].Pos()), key, "redirect recursion: strictly decreasing unsigned budget under a non-zero guard (decided by C03.R2)")
		case has("harvestWithEmptyCount"):
			c.ok("scc:"+key, P.Pos(comp[0].Pos()), key, "page walk: bounded by the empty-page counter and the remaining amount (decided by C10.R1/R2)")
		case has("(*pub.Post).Parents"):
			ok, why := parentsMeasure(P)
			c.check(ok, "scc:"+key, P.Pos(comp[0].Pos()), key, "Parents recurses with quantity-1 under quantity >= 2", why)
		case has("splicer.Splicer).Harvest"):
			ok, why := splicerPagesAreCollections(P)
			c.check(ok, "scc:"+key, P.Pos(comp[0].Pos()), key, "type-level cycle only: a feed's source pages are collections (Children() results, *pub.Collection, continuations of their Harvest), never feeds", why)
		case has("hypertext.renderNode"):
			ok, why := descentMeasure(P, comp)
			c.check(ok, "scc:"+key, P.Pos(comp[0].Pos()), key, "structural descent on the parsed tree: every cycle passes through a FirstChild/NextSibling step", why)
		default:
			c.bad("scc:"+key, P.Pos(comp[0].Pos()), key, "recursion that is not in the checker's table of recursions with a termination measure: "+key)
		}
	}
}

func parentsMeasure(P *Program) (bool, string) {
	fn := P.Method("servitor/pub", "Post", "Parents")
	q := fn.Params[1]
	ok := false
	why := "no recursive call found"
	eachInstr(fn, func(b *ssa.BasicBlock, _ int, in ssa.Instruction) {
		call, isCall := in.(*ssa.Call)
		if !isCall || call.Call.StaticCallee() != fn {
			return
		}
		arg := call.Call.Args[1]
		bo, isB := arg.(*ssa.BinOp)
		if !isB || bo.Op != token.SUB || unwrapLoad(bo.X) != ssa.Value(q) {
			why = "the recursive call does not pass quantity minus a constant"
			return
		}
		if k, isC := constInt(bo.Y); !isC || k < 1 {
			why = "quantity is not decreased"
			return
		}
		// quantity >= 2: unsigned, != 0 and != 1
		ne0, ne1 := false, false
		for _, f := range factsOf(fn).At(b) {
			cmp, okc := f.Cmp()
			if !okc || unwrapLoad(cmp.X) != ssa.Value(q) {
				continue
			}
			k, isC := constInt(cmp.Y)
			if !isC {
				continue
			}
			if cmp.Op == token.NEQ && k == 0 {
				ne0 = true
			}
			if cmp.Op == token.NEQ && k == 1 {
				ne1 = true
			}
			if (cmp.Op == token.GTR && k >= 1) || (cmp.Op == token.GEQ && k >= 2) {
				ne0, ne1 = true, true
			}
		}
		if !isUnsignedVal(q) || !ne0 {
			why = "quantity-1 may wrap around (quantity not known to be non-zero and unsigned)"
			return
		}
		_ = ne1
		ok = true
	})
	return ok, why
}

// descentMeasure: in the renderer SCC, the sub-graph of calls that pass the
// caller's own node on unchanged is acyclic; all other recursive calls pass a
// node reached through FirstChild / NextSibling.
func descentMeasure(P *Program, comp []*ssa.Function) (bool, string) {
	in := map[*ssa.Function]bool{}
	for _, f := range comp {
		in[f] = true
	}
	nodeParam := func(f *ssa.Function) *ssa.Parameter {
		for _, p := range f.Params {
			if isNamed(p.Type(), "golang.org/x/net/html", "Node") {
				return p
			}
		}
		return nil
	}
	same := map[*ssa.Function][]*ssa.Function{}
	why := ""
	for _, f := range comp {
		np := nodeParam(f)
		eachInstr(f, func(_ *ssa.BasicBlock, _ int, ins ssa.Instruction) {
			call, ok := ins.(*ssa.Call)
			if !ok {
				return
			}
			callee := call.Call.StaticCallee()
			if callee == nil || !in[callee] {
				return
			}
			var arg ssa.Value
			for _, a := range call.Call.Args {
				if isNamed(a.Type(), "golang.org/x/net/html", "Node") {
					arg = a
				}
			}
			switch {
			case arg == nil:
				why = "recursive call without a node argument at " + P.InstrPos(ins)
			case np != nil && unwrapLoad(arg) == ssa.Value(np):
				same[f] = append(same[f], callee)
			case descendsFrom(arg, np, map[ssa.Value]bool{}):
				// strict descendant
			default:
				why = "recursive call at " + P.InstrPos(ins) + " passes a node that is not reached from the current node by FirstChild/NextSibling"
			}
		})
	}
	if why != "" {
		return false, why
	}
	// acyclicity of the `same` graph
	state := map[*ssa.Function]int{}
	var dfs func(f *ssa.Function) bool
	dfs = func(f *ssa.Function) bool {
		state[f] = 1
		for _, g := range same[f] {
			if state[g] == 1 {
				return false
			}
			if state[g] == 0 && !dfs(g) {
				return false
			}
		}
		state[f] = 2
		return true
	}
	for _, f := range comp {
		if state[f] == 0 && !dfs(f) {
			return false, "a cycle of calls passes the same node on without descending"
		}
	}
	return true, ""
}

// descendsFrom: v is reached from node parameter np through FirstChild /
// NextSibling loads (possibly via the loop phi).
func descendsFrom(v ssa.Value, np *ssa.Parameter, seen map[ssa.Value]bool) bool {
	if seen[v] {
		return true
	}
	seen[v] = true
	if u := unwrapLoad(v); u != v {
		if _, stillLoad := u.(*ssa.UnOp); !stillLoad {
			return descendsFrom(u, np, seen)
		}
	}
	switch x := v.(type) {
	case *ssa.Phi:
		for _, e := range x.Edges {
			if !descendsFrom(e, np, seen) {
				return false
			}
		}
		return true
	case *ssa.UnOp:
		if x.Op != token.MUL {
			return false
		}
		// an element of a list that only ever receives descendants (children collected first, rendered after)
		if ia, ok := x.X.(*ssa.IndexAddr); ok {
			return listOfDescendants(ia.X, np, seen, 0)
		}
		fa, ok := x.X.(*ssa.FieldAddr)
		if !ok {
			return false
		}
		name := fieldOf(fa).Name()
		if name != "FirstChild" && name != "NextSibling" && name != "LastChild" && name != "PrevSibling" {
			return false
		}
		if np != nil && unwrapLoad(fa.X) == ssa.Value(np) {
			return name == "FirstChild" || name == "LastChild"
		}
		return descendsFrom(fa.X, np, seen)
	}
	return false
}

// listOfDescendants: a slice of nodes that starts empty and only grows by
// appending nodes that descend from np.
func listOfDescendants(v ssa.Value, np *ssa.Parameter, seen map[ssa.Value]bool, d int) bool {
	if d > 8 {
		return false
	}
	v = unwrapLoad(v)
	if seen[v] {
		return true
	}
	seen[v] = true
	switch x := v.(type) {
	case *ssa.Const:
		return x.Value == nil
	case *ssa.MakeSlice:
		k, isC := constInt(x.Len)
		return isC && k == 0
	case *ssa.Slice:
		if al, ok := x.X.(*ssa.Alloc); ok && arrayLen(al) == 0 {
			return true
		}
		return listOfDescendants(x.X, np, seen, d+1)
	case *ssa.Phi:
		for _, e := range x.Edges {
			if !listOfDescendants(e, np, seen, d+1) {
				return false
			}
		}
		return true
	case *ssa.Call:
		if b, ok := x.Call.Value.(*ssa.Builtin); ok && b.Name() == "append" && len(x.Call.Args) == 2 {
			if !listOfDescendants(x.Call.Args[0], np, seen, d+1) {
				return false
			}
			elems, ok := variadicElements(x.Call.Args[1])
			if !ok {
				return false
			}
			for _, e := range elems {
				if !descendsFrom(e, np, seen) {
					return false
				}
			}
			return true
		}
	}
	return false
}

// matchProducers: the regexp calls whose result the slice value v can be
// (v is a []string match or a [][]string list of matches). The walk follows
// the identity of the slice — loads of elements, sub-slices, phis, parameters
// (over all callers) and results of servitor functions — never the text in it.
func matchProducers(P *Program, v ssa.Value, seen map[ssa.Value]bool, depth int) (out []*ssa.Call, complete bool) {
	if seen[v] {
		return nil, true
	}
	seen[v] = true
	if depth > 12 {
		return nil, false
	}
	complete = true
	add := func(vs []*ssa.Call, c bool) {
		out = append(out, vs...)
		if !c {
			complete = false
		}
	}
	v = unwrapLoad(v)
	switch x := v.(type) {
	case *ssa.Call:
		if isLibCall(&x.Call, "regexp", "Regexp", "FindStringSubmatch") || isLibCall(&x.Call, "regexp", "Regexp", "FindAllStringSubmatch") {
			return []*ssa.Call{x}, true
		}
		if sc := x.Call.StaticCallee(); sc != nil && P.IsServitorFunc(sc) {
			for _, b := range sc.Blocks {
				if ret, ok := b.Instrs[len(b.Instrs)-1].(*ssa.Return); ok && len(ret.Results) == 1 {
					add(matchProducers(P, ret.Results[0], seen, depth+1))
				}
			}
			return
		}
		if bi, ok := x.Call.Value.(*ssa.Builtin); ok && bi.Name() == "append" {
			// prepending / appending strings builds a new list: not a match
			return nil, true
		}
		return nil, true // other library results are not regexp matches
	case *ssa.UnOp:
		if x.Op == token.MUL {
			if ia, ok := x.X.(*ssa.IndexAddr); ok {
				add(matchProducers(P, ia.X, seen, depth+1))
				return
			}
		}
		return nil, true
	case *ssa.Slice:
		add(matchProducers(P, x.X, seen, depth+1))
		return
	case *ssa.Phi:
		for _, e := range x.Edges {
			add(matchProducers(P, e, seen, depth+1))
		}
		return
	case *ssa.Parameter:
		fn := x.Parent()
		idx := -1
		for i, p := range fn.Params {
			if p == x {
				idx = i
			}
		}
		callers := P.Callers(fn)
		for _, e := range callers {
			if e.Site == nil || !P.IsServitorFunc(e.Caller.Func) {
				continue
			}
			args := e.Site.Common().Args
			if idx < len(args) {
				add(matchProducers(P, args[idx], seen, depth+1))
			}
		}
		return
	case *ssa.Extract:
		// range over a list of matches with Next (not used for slices), or tuple results
		return nil, true
	case *ssa.Alloc, *ssa.MakeSlice, *ssa.Const:
		return nil, true
	}
	return nil, true
}

// splicerPagesAreCollections: the page field of a feed source is assigned only
// (a) the result of Tangible.Children(), (b) a *pub.Collection, (c) the
// continuation returned by Harvest on that very field; and every Children()
// implementation returns nil, a *pub.Collection, or forwards another Children().
func splicerPagesAreCollections(P *Program) (bool, string) {
	why := ""
	n := 0
	for _, fn := range P.FuncsIn("servitor/splicer") {
		eachInstr(fn, func(_ *ssa.BasicBlock, _ int, in ssa.Instruction) {
			st, ok := in.(*ssa.Store)
			if !ok {
				return
			}
			fa, ok := st.Addr.(*ssa.FieldAddr)
			if !ok || fieldOf(fa).Name() != "page" {
				return
			}
			n++
			var classify func(val ssa.Value, d int)
			classify = func(val ssa.Value, d int) {
				val = unwrapLoad(val)
				switch v := val.(type) {
				case *ssa.Phi:
					// a value chosen by a (type) switch: every alternative must qualify
					if d < 6 {
						for _, e := range v.Edges {
							classify(e, d+1)
						}
						return
					}
					why = "page assigned from an unrecognised value at " + P.InstrPos(in)
				case *ssa.Call:
					if !(v.Call.IsInvoke() && v.Call.Method.Name() == "Children") {
						why = "page assigned from " + objFullName(calleeObj(&v.Call)) + " at " + P.InstrPos(in)
					}
				case *ssa.MakeInterface:
					if !isNamed(v.X.Type(), "servitor/pub", "Collection") {
						why = "page assigned a " + typeString(v.X.Type()) + " at " + P.InstrPos(in)
					}
				case *ssa.Extract:
					call, ok := v.Tuple.(*ssa.Call)
					if !ok || !call.Call.IsInvoke() || call.Call.Method.Name() != "Harvest" || v.Index != 1 || !strings.Contains(path(call.Call.Value), "page") {
						why = "page assigned from an unexpected call result at " + P.InstrPos(in)
					}
				case *ssa.Const:
				default:
					why = "page assigned from an unrecognised value at " + P.InstrPos(in)
				}
			}
			classify(st.Val, 0)
		})
	}
	if n == 0 {
		return false, "no assignment to the page field found"
	}
	for _, fn := range P.FuncsIn("servitor/pub") {
		if fn.Name() != "Children" || fn.Signature.Recv() == nil {
			continue
		}
		for _, b := range fn.Blocks {
			ret, ok := b.Instrs[len(b.Instrs)-1].(*ssa.Return)
			if !ok {
				continue
			}
			switch v := ret.Results[0].(type) {
			case *ssa.Const:
			case *ssa.MakeInterface:
				if !isNamed(v.X.Type(), "servitor/pub", "Collection") {
					why = trimPkg(fn.String()) + " returns a " + typeString(v.X.Type())
				}
			case *ssa.Call:
				if !(v.Call.IsInvoke() && v.Call.Method.Name() == "Children") {
					why = trimPkg(fn.String()) + " returns the result of another call"
				}
			default:
				why = trimPkg(fn.String()) + " returns an unrecognised container"
			}
		}
	}
	return why == "", why
}

// c06K8: a document's identifier can be absent, so *url.URL values travel
// through the module as possibly-nil pointers (FetchUnknown returns a nil id,
// constructors store it, Identifier() hands it out). Every dereference of a
// *url.URL — a field read or a call of one of its methods — must be at a place
// where the pointer is provably non-nil: dominated by a nil test, or produced
// by url.Parse / ResolveReference with the error checked, or a parameter that
// every call site provides non-nil.
func c06K8(c *Ctx) {
	P := c.P
	nn := newNonNil(P)
	isURLPtr := func(t types.Type) bool {
		p, ok := t.Underlying().(*types.Pointer)
		return ok && isNamed(p.Elem(), "net/url", "URL")
	}
	for _, fn := range P.Funcs {
		fname := FuncName(fn)
		eachInstr(fn, func(b *ssa.BasicBlock, _ int, in ssa.Instruction) {
			var ptr ssa.Value
			what := ""
			switch x := in.(type) {
			case *ssa.FieldAddr:
				if isURLPtr(x.X.Type()) {
					ptr, what = x.X, "."+fieldOf(x).Name()
				}
			case *ssa.UnOp:
				// *u (copy of the whole URL)
				if _, valIsPtr := x.Type().Underlying().(*types.Pointer); x.Op == token.MUL && !valIsPtr && isURLPtr(x.X.Type()) {
					if _, isAlloc := x.X.(*ssa.Alloc); !isAlloc {
						ptr, what = x.X, "*"
					}
				}
			default:
				cc := callOf(in)
				if cc == nil || cc.IsInvoke() {
					return
				}
				f := calleeObj(cc)
				if f == nil || f.Pkg() == nil || f.Pkg().Path() != "net/url" {
					return
				}
				sig := f.Type().(*types.Signature)
				if sig.Recv() == nil || !isURLPtr(sig.Recv().Type()) || len(cc.Args) == 0 {
					return
				}
				ptr, what = cc.Args[0], "."+f.Name()+"()"
			}
			if ptr == nil {
				return
			}
			if _, isAlloc := ptr.(*ssa.Alloc); isAlloc {
				return
			}
			ok := nn.Value(ptr, b, 0)
			c.check(ok, fname+"/url-deref:"+what, P.InstrPos(in), fname, "the URL is provably non-nil here",
				"a *url.URL that may be nil (identifiers can be absent) is dereferenced without a dominating nil test: a document without a usable id crashes the program")
		})
	}
}

// splitIndexing (C06.K9 and C05.R8): strings.Fields and its relatives return as
// many pieces as the text happens to have — none at all for a text of blanks.
// Every index or slice bound applied to such a result must be provably within
// its length at that point (a dominating len test); Split / SplitN / SplitAfter
// with a non-empty separator always return at least one piece, so index 0 of
// those is fine. (Indexing of regexp matches is K4.)
func splitIndexing(c *Ctx) {
	P := c.P
	n := 0
	splitKind := func(v ssa.Value) string {
		call, ok := unwrapLoad(v).(*ssa.Call)
		if !ok {
			return ""
		}
		f := calleeObj(&call.Call)
		if f == nil || f.Pkg() == nil || (f.Pkg().Path() != "strings" && f.Pkg().Path() != "bytes") {
			return ""
		}
		switch f.Name() {
		case "Fields", "FieldsFunc":
			return "fields"
		case "Split", "SplitAfter", "SplitN", "SplitAfterN":
			if len(call.Call.Args) >= 2 {
				if s, isC := constString(call.Call.Args[1]); isC && s != "" {
					if f.Name() == "SplitN" || f.Name() == "SplitAfterN" {
						if k, isK := constInt(call.Call.Args[2]); !isK || k == 0 {
							return "fields"
						}
					}
					return "split"
				}
			}
			return "fields"
		}
		return ""
	}
	for _, fn := range P.Funcs {
		fname := FuncName(fn)
		eachInstr(fn, func(b *ssa.BasicBlock, _ int, in ssa.Instruction) {
			var base, idx ssa.Value
			what := ""
			switch x := in.(type) {
			case *ssa.IndexAddr:
				base, idx, what = x.X, x.Index, "index"
			case *ssa.Index:
				base, idx, what = x.X, x.Index, "index"
			case *ssa.Slice:
				// pieces[a:b]: both bounds
				if k := splitKind(x.X); k == "fields" {
					n++
					okS := true
					for _, bd := range []ssa.Value{x.Low, x.High} {
						if bd == nil {
							continue
						}
						lo, up := indexInBounds(bd, unwrapLoad(x.X), b)
						// a slice bound may equal the length
						if !lo {
							okS = false
						}
						if !up {
							g := lin(bd)
							l := newLin()
							l.coef["len("+normSym(unwrapLoad(x.X))+")"] = 1
							if !proveNonNeg(l.add(g, -1), ineqs(factsOf(fn).At(b)), unsignedSymbolsOf(bd)) {
								okS = false
							}
						}
					}
					c.check(okS, fname+"/split-slice", P.InstrPos(in), fname, "slice bounds within the number of pieces", "a split text is sliced at a bound that is not known to be within the number of pieces it has: a text with fewer pieces (blanks only, say) panics")
				}
				return
			default:
				return
			}
			k := splitKind(base)
			if k == "" {
				return
			}
			if _, isC := constInt(idx); !isC && k == "split" {
				return // a computed position in a Split result: relational, K3 / C16.R1 / unclaimed sites
			}
			n++
			if kk, isC := constInt(idx); isC && kk == 0 && k == "split" {
				c.ok(fname+"/split-"+what, P.InstrPos(in), fname, "piece 0 of a Split with a non-empty separator always exists")
				return
			}
			lo, up := indexInBounds(idx, unwrapLoad(base), b)
			c.check(lo && up, fname+"/split-"+what, P.InstrPos(in), fname, "the piece exists (dominating length test)",
				"a piece of a split text is taken without its existence being established: strings.Fields of a text of blanks has no pieces, and the access panics")
		})
	}
	c.info("split_accesses", n)
	c.ok("module/split-accesses", "", "module", fmt.Sprintf("%d accesses to pieces of split texts in the module, each checked", n))
}

// constStringMapKeys: the constant string keys of a package-level map that is
// made by a literal in the initialiser and never updated anywhere else.
func constStringMapKeys(g *ssa.Global) []string {
	if g.Pkg == nil {
		return nil
	}
	var mk *ssa.MakeMap
	bad := false
	for _, m := range g.Pkg.Members {
		f, ok := m.(*ssa.Function)
		if !ok {
			continue
		}
		for _, ff := range append([]*ssa.Function{f}, f.AnonFuncs...) {
			eachInstr(ff, func(_ *ssa.BasicBlock, _ int, in ssa.Instruction) {
				switch x := in.(type) {
				case *ssa.Store:
					if x.Addr == ssa.Value(g) {
						if m2, ok := x.Val.(*ssa.MakeMap); ok && mk == nil && ff.Name() == "init" {
							mk = m2
						} else {
							bad = true
						}
					}
				case *ssa.MapUpdate:
					if ld, ok := x.Map.(*ssa.UnOp); ok && ld.Op == token.MUL && ld.X == ssa.Value(g) {
						bad = true
					}
				}
			})
		}
	}
	if mk == nil || bad {
		return nil
	}
	var keys []string
	for _, r := range refs(mk) {
		if mu, ok := r.(*ssa.MapUpdate); ok {
			k, isC := constString(mu.Key)
			if !isC {
				return nil
			}
			keys = append(keys, k)
		}
	}
	return keys
}

// c06K11: `a == b` on two interface values panics at run time when both hold
// the same uncomparable dynamic type ("comparing uncomparable type
// map[string]interface {}") — and everything decoded from JSON is a
// map[string]any or a []any somewhere. Reported: `==` / `!=` between two
// interface-typed operands neither of which is nil, a constant, an error
// (sentinel comparisons; errors of the module are pointers or strings) or a
// value of an interface type with methods (the module's Tangible / Container
// implementations are pointers); and calls of slices.Contains / Index /
// Compact / Equal instantiated at an interface type, which compare with `==`
// inside (seed C06-1r8: a "drop repeated actors" step over the []any behind
// attributedTo).
func c06K11(c *Ctx) {
	P := c.P
	risky := func(t types.Type) bool {
		it, ok := t.Underlying().(*types.Interface)
		if !ok {
			return false
		}
		if isErrorType(t) {
			return false
		}
		return it.NumMethods() == 0 // `any`: whatever the JSON decoder produced
	}
	n := 0
	for _, fn := range P.Funcs {
		if !strings.HasPrefix(P.PkgOf(fn), "servitor") {
			continue
		}
		fname := FuncName(fn)
		eachInstr(fn, func(_ *ssa.BasicBlock, _ int, in ssa.Instruction) {
			switch x := in.(type) {
			case *ssa.BinOp:
				if x.Op != token.EQL && x.Op != token.NEQ {
					return
				}
				if !risky(x.X.Type()) || !risky(x.Y.Type()) {
					return
				}
				if _, isC := x.X.(*ssa.Const); isC {
					return
				}
				if _, isC := x.Y.(*ssa.Const); isC {
					return
				}
				// one side made from a comparable concrete value: the comparison cannot panic
				for _, side := range []ssa.Value{x.X, x.Y} {
					if mi, ok := side.(*ssa.MakeInterface); ok && types.Comparable(mi.X.Type()) {
						return
					}
				}
				n++
				c.bad(fname+"/interface-comparison", P.InstrPos(in), fname, "two values of type any are compared: if both hold a JSON object or list (map[string]any, []any) the comparison panics")
			case *ssa.Call:
				sc := x.Call.StaticCallee()
				if sc == nil {
					return
				}
				gen := sc
				if o := sc.Origin(); o != nil {
					gen = o // an instantiation: the package is that of the generic function
				}
				if gen.Pkg == nil {
					return
				}
				pp := gen.Pkg.Pkg.Path()
				if pp != "slices" && pp != "golang.org/x/exp/slices" {
					return
				}
				switch gen.Name() {
				case "Contains", "Index", "Compact", "Equal":
				default:
					return
				}
				targs := sc.TypeArgs()
				for _, ta := range targs {
					if risky(ta) {
						n++
						c.bad(fname+"/interface-comparison", P.InstrPos(in), fname, gen.Pkg.Pkg.Name()+"."+gen.Name()+" is used on elements of type any: it compares with ==, which panics when two elements hold a JSON object or list")
						return
					}
				}
			}
		})
	}
	c.info("interface_comparisons_reported", n)
}

// c06K12: ansi.Snip sizes a slice with its height parameter and counts down
// from it: a negative height panics (makeslice: cap out of range). On the
// pinned tree the callers pass the constant 4. Assume-guarantee over the call
// sites: every call of ansi.Snip in the module passes a height that is a
// constant >= 0, or is proven non-negative from the facts in front of the
// call (seed C06-2r12 passed `4 - Height(header)`).
func c06K12(c *Ctx) {
	P := c.P
	snip := P.FuncOpt("servitor/ansi", "Snip")
	if snip == nil {
		c.bad("servitor/ansi.Snip", "ansi", "servitor/ansi", "ansi.Snip not found")
		return
	}
	hi := -1
	for i, p := range snip.Params {
		if p.Name() == "height" {
			hi = i
		}
	}
	if hi < 0 {
		hi = 2
	}
	for _, fn := range P.Funcs {
		if !P.IsServitorFunc(fn) {
			continue
		}
		eachInstr(fn, func(b *ssa.BasicBlock, _ int, in ssa.Instruction) {
			call, ok := in.(*ssa.Call)
			if !ok || call.Call.StaticCallee() != snip || hi >= len(call.Call.Args) {
				return
			}
			h := call.Call.Args[hi]
			okH := false
			if k, isK := constInt(h); isK {
				okH = k >= 0
			} else {
				okH = proveValueNonNeg(h, b, 0) || isUnsignedVal(h) && false
			}
			c.check(okH, FuncName(fn)+"/snip-height", P.InstrPos(in), FuncName(fn), "the height handed to Snip is not negative",
				"the number of lines asked of ansi.Snip, "+lin(h).String()+", is not known to be non-negative here: Snip sizes a slice with it and panics (makeslice: cap out of range) when it is below zero")
		})
	}
}
