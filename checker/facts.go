package main

import (
	"go/token"

	"golang.org/x/tools/go/ssa"
)

// E2 helpers — facts on paths.

var factCache = map[*ssa.Function]*factTable{}

func factsOf(fn *ssa.Function) *factTable {
	if ft, ok := factCache[fn]; ok {
		return ft
	}
	ft := computeFacts(fn)
	factCache[fn] = ft
	return ft
}

// knownNil / knownNonNil for an SSA value at a block, by value identity or by
// access path (two loads of the same location).
func knownNil(v ssa.Value, b *ssa.BasicBlock) bool {
	return nilnessAt(v, b) == -1
}

func knownNonNil(v ssa.Value, b *ssa.BasicBlock) bool {
	return nilnessAt(v, b) == 1
}

func nilnessAt(v ssa.Value, b *ssa.BasicBlock) int {
	ft := factsOf(b.Parent())
	p := path(v)
	for _, f := range ft.At(b) {
		c, ok := f.Cmp()
		if !ok {
			continue
		}
		var other ssa.Value
		switch {
		case c.X == v || path(c.X) == p:
			other = c.Y
		case c.Y == v || path(c.Y) == p:
			other = c.X
		default:
			continue
		}
		if !isNilConst(other) {
			continue
		}
		if c.Op == token.NEQ {
			return 1
		}
		if c.Op == token.EQL {
			return -1
		}
	}
	return 0
}

// pathFacts: one acyclic entry->target path with the branch facts along it.
type pathFacts struct {
	blocks []*ssa.BasicBlock
	facts  []Fact
}

// enumeratePaths lists every acyclic path from the entry block to target
// (each block at most once). complete=false if the limit was hit.
func enumeratePaths(fn *ssa.Function, target *ssa.BasicBlock, limit int) (out []pathFacts, complete bool) {
	if len(fn.Blocks) == 0 {
		return nil, true
	}
	return enumeratePathsFrom(fn, fn.Blocks[0], target, limit)
}

// enumeratePathsFrom lists every acyclic path start -> target; target may be a
// loop header that dominates start (the path then ends with the back edge).
func enumeratePathsFrom(fn *ssa.Function, start, target *ssa.BasicBlock, limit int) (out []pathFacts, complete bool) {
	complete = true
	onPath := map[*ssa.BasicBlock]bool{}
	var blocks []*ssa.BasicBlock
	var facts []Fact
	// prune: only blocks from which target is reachable
	canReach := map[*ssa.BasicBlock]bool{target: true}
	changed := true
	for changed {
		changed = false
		for _, b := range fn.Blocks {
			if canReach[b] {
				continue
			}
			for _, s := range b.Succs {
				if canReach[s] {
					canReach[b] = true
					changed = true
					break
				}
			}
		}
	}
	var dfs func(b *ssa.BasicBlock)
	dfs = func(b *ssa.BasicBlock) {
		if !complete {
			return
		}
		blocks = append(blocks, b)
		onPath[b] = true
		defer func() {
			blocks = blocks[:len(blocks)-1]
			onPath[b] = false
		}()
		if b == target {
			if len(out) >= limit {
				complete = false
				return
			}
			pf := pathFacts{blocks: append([]*ssa.BasicBlock{}, blocks...), facts: append([]Fact{}, facts...)}
			out = append(out, pf)
			return
		}
		iff, isIf := b.Instrs[len(b.Instrs)-1].(*ssa.If)
		for i, s := range b.Succs {
			if onPath[s] || !canReach[s] {
				continue
			}
			n := len(facts)
			if isIf && b.Succs[0] != b.Succs[1] {
				m := map[Fact]bool{}
				addCondFacts(m, iff.Cond, i == 0)
				for f := range m {
					facts = append(facts, f)
				}
			}
			dfs(s)
			facts = facts[:n]
		}
	}
	if start == target {
		// paths that leave start and come back to it
		blocks = append(blocks, start)
		onPath[start] = false
		iff, isIf := start.Instrs[len(start.Instrs)-1].(*ssa.If)
		for i, s := range start.Succs {
			if !canReach[s] {
				continue
			}
			n := len(facts)
			if isIf && start.Succs[0] != start.Succs[1] {
				m := map[Fact]bool{}
				addCondFacts(m, iff.Cond, i == 0)
				for f := range m {
					facts = append(facts, f)
				}
			}
			dfs(s)
			facts = facts[:n]
		}
		return out, complete
	}
	if canReach[start] {
		dfs(start)
	}
	return out, complete
}

// stringEqFacts: constants c such that the path knows v == c.
func stringEqFacts(facts []Fact, v ssa.Value) []string {
	var out []string
	p := path(v)
	for _, f := range facts {
		c, ok := f.Cmp()
		if !ok || c.Op != token.EQL {
			continue
		}
		for _, side := range [][2]ssa.Value{{c.X, c.Y}, {c.Y, c.X}} {
			if side[0] == v || path(side[0]) == p {
				if s, ok := constString(side[1]); ok {
					out = append(out, s)
				}
			}
		}
	}
	return out
}

// boolFact: is cond known to be `truth` among facts?
func hasBoolFact(facts []Fact, match func(ssa.Value) bool, truth bool) bool {
	for _, f := range facts {
		if f.Truth == truth && match(f.Cond) {
			return true
		}
	}
	return false
}

// errorResult returns the value holding the error result of a call (nil when
// the result is discarded) and whether the callee returns an error at all.
func errorResult(call *ssa.Call) (ssa.Value, bool) {
	sig := call.Call.Signature()
	res := sig.Results()
	if res.Len() == 0 || !isErrorType(res.At(res.Len()-1).Type()) {
		return nil, false
	}
	if res.Len() == 1 {
		if len(refs(call)) == 0 {
			return nil, true
		}
		return call, true
	}
	for _, r := range refs(call) {
		if ex, ok := r.(*ssa.Extract); ok && ex.Index == res.Len()-1 {
			if len(refs(ex)) == 0 {
				return nil, true
			}
			return ex, true
		}
	}
	return nil, true
}

// resultValue returns the Extract for result #i of a tuple call (or the call).
func resultValue(call *ssa.Call, i int) ssa.Value {
	sig := call.Call.Signature()
	if sig.Results().Len() == 1 {
		if i == 0 {
			return call
		}
		return nil
	}
	for _, r := range refs(call) {
		if ex, ok := r.(*ssa.Extract); ok && ex.Index == i {
			return ex
		}
	}
	return nil
}

// resolvePathFacts: branch conditions that are phis (a flag set on the way:
// `found := false; if … { found = true }; if found {`) are replaced by the
// value the phi takes on this very path. A constant that contradicts the
// branch taken makes the path infeasible.
func resolvePathFacts(pf pathFacts) (pathFacts, bool) {
	out := pathFacts{blocks: pf.blocks}
	for _, f := range pf.facts {
		v := f.Cond
		truth := f.Truth
		for i := 0; i < 6; i++ {
			if u, ok := v.(*ssa.UnOp); ok && u.Op == token.NOT {
				v, truth = u.X, !truth
				continue
			}
			ph, ok := v.(*ssa.Phi)
			if !ok {
				break
			}
			pos := -1
			for j := len(pf.blocks) - 1; j >= 1; j-- {
				if pf.blocks[j] == ph.Block() {
					pos = j
					break
				}
			}
			if pos < 1 {
				break
			}
			// the head of a loop in the middle of the path may have been entered
			// from a back edge: its phis keep their value of the last visit
			if pos < len(pf.blocks)-1 && isLoopHead(ph.Block()) {
				break
			}
			found := false
			for k, p := range ph.Block().Preds {
				if p == pf.blocks[pos-1] {
					v = ph.Edges[k]
					found = true
					break
				}
			}
			if !found {
				break
			}
		}
		if k, ok := v.(*ssa.Const); ok && k.Value != nil && (k.Value.ExactString() == "true" || k.Value.ExactString() == "false") {
			if (k.Value.ExactString() == "true") != truth {
				return out, false
			}
			continue
		}
		m := map[Fact]bool{}
		addCondFacts(m, v, truth)
		for nf := range m {
			out.facts = append(out.facts, nf)
		}
	}
	return out, true
}

func isLoopHead(b *ssa.BasicBlock) bool {
	for _, p := range b.Preds {
		if b.Dominates(p) {
			return true
		}
	}
	return false
}
