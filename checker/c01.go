package main

import (
	"fmt"
	"go/ast"
	"go/token"
	"go/types"
	"golang.org/x/tools/go/packages"
	"sort"
	"strconv"
	"strings"

	"golang.org/x/tools/go/ssa"
)

func init() { registry["C01"] = propC01 }

func propC01() *Property {
	return &Property{
		ID:          "C01",
		Explanation: "Whole-program value-flow (taint) analysis over SSA with call/return matching (realizable paths), field-based for servitor structs and object-based for library structs, propagate-by-default summaries for library calls. Sources: the TLS connection and everything derived from it (status line, headers, decoded JSON, read/parse errors), files opened for local documents, every string leaving the untyped JSON world by a type assertion, and text re-materialised by the HTML parser (html.Attribute.Val, html.Node.Data of non-element nodes). Sanitiser: ansi.Scrub (hence GetString and SetLength). Sinks: the argument of every call through ui.State.output and every direct write to stdout/stderr, the results of every implementation of pub.Tangible.String/Preview/Name and of every Markup.Render, and the SGR parameter of ansi.Apply (which may only be built from constants and validated configuration colours); string literals containing ESC/C0/C1 bytes may occur only in package ansi and main.printRaw. Decided: no unsanitised flow from any source to any sink on any path. (R4) ansi.Scrub itself is shape-checked: every return is strings.Map over the input, the mapping function keeps a rune only on paths that know it is a line feed or not unicode.IsControl, a shortcut returning the input is accepted only under a whole-string test with unicode.IsControl; results of library decoders (html.UnescapeString, url.PathUnescape/QueryUnescape, strconv.Unquote, base64/hex, RFC 2047) are taint sources. Not decided: that ansi.Scrub's predicate (unicode.IsControl) is the right character class, library internals, terminal-specific interpretation of printable code points.",
		Assumptions: []string{
			"library functions propagate taint from any argument/receiver to every result and to every object reachable through reference arguments, and do nothing else with servitor state",
			"ansi.Scrub removes every C0/C1/DEL control character except newline (its body is strings.Map over unicode.IsControl)",
			"tag names and attribute keys produced by x/net/html are copied from the (already scrubbed) parser input without entity decoding",
			"numbers, booleans and time.Time values carry no text",
		},
		Rules: []Rule{
			{ID: "C01.R1", Title: "no unsanitised flow from remote content to the terminal or to an item's text", Floor: 12, Run: c01R1},
			{ID: "C01.R2", Title: "SGR parameters are built from constants and validated colours only", Floor: 6, Run: c01R2},
			{ID: "C01.R3", Title: "escape/control bytes in string literals only in the SGR generator", Floor: 1, Run: c01R3},
			{ID: "C01.R4", Title: "the sanitiser filters every rune on every path", Floor: 1, Run: scrubIsTotal},
		},
	}
}

// c01Flow builds the flow graph with ansi.Scrub as the (only) sanitiser.
func c01Flow(P *Program) *Flow {
	scrub := P.Func("servitor/ansi", "Scrub")
	return NewFlow(P, FlowConfig{
		Opaque: map[*ssa.Function]bool{scrub: true},
		CleanLib: func(c *ssa.CallCommon) bool {
			// net/url: Parse fails on any ASCII control character in its input and
			// only admits %80..%FF escapes in the host; its errors quote the
			// input with %q. Decoded components (Path, Fragment) are sources of
			// their own, see c01Sources.
			if isLibCall(c, "net/url", "", "Parse") || isLibCall(c, "net/url", "", "ParseRequestURI") || isLibCall(c, "net/url", "URL", "Parse") {
				return true
			}
			return isLibCall(c, "strconv", "", "Itoa") || isLibCall(c, "strconv", "", "Quote") ||
				isLibCall(c, "strconv", "", "QuoteToASCII") || isLibCall(c, "strconv", "", "FormatInt")
		},
	})
}

type taintSource struct {
	node int
	kind string
	in   ssa.Instruction
	fn   *ssa.Function
}

func c01Sources(P *Program, f *Flow) []taintSource {
	var out []taintSource
	htmlPkg := "golang.org/x/net/html"
	for _, fn := range P.Funcs {
		pk := P.PkgOf(fn)
		var ft *factTable
		eachInstr(fn, func(_ *ssa.BasicBlock, _ int, in ssa.Instruction) {
			switch x := in.(type) {
			case *ssa.Call:
				if isLibCall(&x.Call, "crypto/tls", "", "DialWithDialer") || isLibCall(&x.Call, "crypto/tls", "", "Dial") ||
					isLibCall(&x.Call, "net", "", "Dial") || isLibCall(&x.Call, "net", "", "DialTimeout") ||
					isLibCall(&x.Call, "net", "Dialer", "Dial") || isLibCall(&x.Call, "net", "Dialer", "DialContext") ||
					isLibCall(&x.Call, "crypto/tls", "Dialer", "DialContext") || isLibCall(&x.Call, "crypto/tls", "", "Client") {
					out = append(out, taintSource{f.val(x), "network connection", in, fn})
				}
				// library decoders re-materialise characters that were written in a
				// printable encoding (and so passed an earlier scrub): their results
				// are sources in their own right
				if what := decoderCall(&x.Call); what != "" {
					out = append(out, taintSource{f.val(x), what, in, fn})
					for _, r := range refs(x) {
						if ex, ok := r.(*ssa.Extract); ok && ex.Index == 0 {
							out = append(out, taintSource{f.val(ex), what, in, fn})
						}
					}
				}
				if isLibCall(&x.Call, "os", "", "Open") || isLibCall(&x.Call, "os", "", "OpenFile") || isLibCall(&x.Call, "os", "", "ReadFile") {
					if pk != "servitor/config" {
						out = append(out, taintSource{f.val(x), "local document file", in, fn})
					}
				}
			case *ssa.TypeAssert:
				if pk == "servitor/object" || pk == "servitor/pub" || pk == "servitor/client" || pk == "servitor/jtp" {
					if b, ok := x.AssertedType.Underlying().(*types.Basic); ok && b.Info()&types.IsString != 0 {
						if _, isIface := x.X.Type().Underlying().(*types.Interface); isIface {
							out = append(out, taintSource{f.val(x), "string leaving untyped JSON", in, fn})
						}
					}
				}
			case *ssa.FieldAddr, *ssa.Field:
				fld := fieldOf(x.(ssa.Value))
				owner := structOwner(x.(ssa.Value))
				if owner != nil && owner.Obj().Pkg() != nil && owner.Obj().Pkg().Path() == "net/url" && owner.Obj().Name() == "URL" &&
					(fld.Name() == "Path" || fld.Name() == "Fragment") {
					if fa, ok := x.(*ssa.FieldAddr); ok {
						for _, r := range refs(fa) {
							if u, ok := r.(*ssa.UnOp); ok && u.Op == token.MUL {
								out = append(out, taintSource{f.val(u), "percent-decoded URL component (url.URL." + fld.Name() + ")", u, fn})
							}
						}
					}
					return
				}
				if owner == nil || owner.Obj().Pkg() == nil || owner.Obj().Pkg().Path() != htmlPkg {
					return
				}
				// the source is the value read: for an address, its loads
				var reads []ssa.Value
				if fa, ok := x.(*ssa.FieldAddr); ok {
					for _, r := range refs(fa) {
						if u, ok := r.(*ssa.UnOp); ok && u.Op == token.MUL {
							reads = append(reads, u)
						}
					}
				} else {
					reads = append(reads, x.(ssa.Value))
				}
				if len(reads) == 0 {
					return
				}
				if owner.Obj().Name() == "Attribute" && fld.Name() == "Val" {
					for _, rd := range reads {
						out = append(out, taintSource{f.val(rd), "entity-decoded attribute value (html.Attribute.Val)", rd.(ssa.Instruction), fn})
					}
				}
				if owner.Obj().Name() == "Node" && fld.Name() == "Data" {
					if ft == nil {
						ft = computeFacts(fn)
					}
					var base ssa.Value
					switch y := x.(type) {
					case *ssa.FieldAddr:
						base = y.X
					case *ssa.Field:
						base = y.X
					}
					if nodeKnownElement(P, fn, ft, in.Block(), base, 0) {
						return // tag name: copied verbatim from the parser input, never entity-decoded
					}
					for _, rd := range reads {
						out = append(out, taintSource{f.val(rd), "entity-decoded text (html.Node.Data of a non-element node)", rd.(ssa.Instruction), fn})
					}
				}
			}
		})
	}
	return out
}

// decoderCall: library functions whose result can contain control characters
// although their input is printable.
func decoderCall(cc *ssa.CallCommon) string {
	f := calleeObj(cc)
	if f == nil || f.Pkg() == nil {
		return ""
	}
	switch f.Pkg().Path() + "." + f.Name() {
	case "html.UnescapeString":
		return "character references decoded by html.UnescapeString"
	case "net/url.PathUnescape", "net/url.QueryUnescape":
		return "percent-decoded text (" + f.Name() + ")"
	case "strconv.Unquote", "strconv.UnquoteChar":
		return "escape sequences decoded by strconv." + f.Name()
	case "encoding/hex.DecodeString", "encoding/hex.Decode":
		return "hex-decoded bytes"
	case "mime.DecodeString", "mime.DecodeHeader":
		return "RFC 2047 decoded text"
	}
	if f.Pkg().Path() == "encoding/base64" || f.Pkg().Path() == "encoding/base32" {
		if strings.HasPrefix(f.Name(), "Decode") {
			return "base64/base32-decoded bytes"
		}
	}
	if f.Pkg().Path() == "net/url" && (f.Name() == "Query" || f.Name() == "ParseQuery" || f.Name() == "EscapedFragment") && f.Name() != "EscapedFragment" {
		return "percent-decoded query values"
	}
	return ""
}

// nodeKnownElement: on every path to block b, node.Type == html.ElementNode is
// known for the node denoted by base; for a parameter, at every call site.
func nodeKnownElement(P *Program, fn *ssa.Function, ft *factTable, b *ssa.BasicBlock, base ssa.Value, depth int) bool {
	if depth > 3 {
		return false
	}
	bp := path(base)
	for _, fact := range ft.At(b) {
		c, ok := fact.Cmp()
		if !ok || c.Op != token.EQL {
			continue
		}
		for _, side := range [][2]ssa.Value{{c.X, c.Y}, {c.Y, c.X}} {
			if isNodeTypeLoad(side[0], bp) && isElementNodeConst(side[1]) {
				return true
			}
		}
	}
	// parameter: every caller establishes it
	if p, ok := base.(*ssa.Parameter); ok {
		idx := -1
		for i, q := range fn.Params {
			if q == p {
				idx = i
			}
		}
		callers := P.Callers(fn)
		if len(callers) == 0 || idx < 0 {
			return false
		}
		for _, e := range callers {
			if e.Site == nil || !P.IsServitorFunc(e.Caller.Func) {
				return false
			}
			args := e.Site.Common().Args
			if idx >= len(args) {
				return false
			}
			cft := computeFacts(e.Caller.Func)
			if !nodeKnownElement(P, e.Caller.Func, cft, e.Site.Block(), args[idx], depth+1) {
				return false
			}
		}
		return true
	}
	return false
}

func isNodeTypeLoad(v ssa.Value, basePath string) bool {
	u, ok := v.(*ssa.UnOp)
	if !ok || u.Op != token.MUL {
		return false
	}
	fa, ok := u.X.(*ssa.FieldAddr)
	if !ok || fieldOf(fa).Name() != "Type" {
		return false
	}
	o := structOwner(fa)
	if o == nil || o.Obj().Name() != "Node" {
		return false
	}
	return path(fa.X) == basePath
}

func isElementNodeConst(v ssa.Value) bool {
	c, ok := v.(*ssa.Const)
	if !ok || c.Value == nil {
		return false
	}
	n := namedOf(c.Type())
	if n == nil || n.Obj().Name() != "NodeType" {
		return false
	}
	// html.ElementNode == 3
	return c.Value.ExactString() == "3"
}

type taintSink struct {
	node int
	kind string
	pos  string
	fn   string
}

func c01Sinks(P *Program, f *Flow) []taintSink {
	var out []taintSink
	outField := P.Field("servitor/ui", "State", "output")
	for _, fn := range P.Funcs {
		eachInstr(fn, func(_ *ssa.BasicBlock, _ int, in ssa.Instruction) {
			c := callOf(in)
			if c == nil {
				return
			}
			if !c.IsInvoke() {
				if u, ok := c.Value.(*ssa.UnOp); ok && u.Op == token.MUL {
					if fa, ok := u.X.(*ssa.FieldAddr); ok && fieldOf(fa) == outField && len(c.Args) == 1 {
						out = append(out, taintSink{f.val(c.Args[0]), "frame passed to the terminal callback (State.output)", P.InstrPos(in), FuncName(fn)})
					}
				}
			}
			if isLibCall(c, "os", "File", "WriteString") || isLibCall(c, "os", "File", "Write") {
				if u, ok := c.Args[0].(*ssa.UnOp); ok {
					if g, ok := u.X.(*ssa.Global); ok && (g.Name() == "Stdout" || g.Name() == "Stderr") && P.PkgOf(fn) != "servitor/config" {
						out = append(out, taintSink{f.val(c.Args[1]), "direct write to the terminal (os." + g.Name() + ")", P.InstrPos(in), FuncName(fn)})
					}
				}
			}
		})
	}
	// results of Tangible.String/Preview/Name implementations and Markup.Render
	tangible := P.NamedType("servitor/pub", "Tangible").Underlying().(*types.Interface)
	markup := P.NamedType("servitor/object", "Markup").Underlying().(*types.Interface)
	for _, fn := range P.Funcs {
		if fn.Parent() != nil || fn.Signature.Recv() == nil || fn.Synthetic != "" {
			continue
		}
		recv := fn.Signature.Recv().Type()
		name := fn.Name()
		if (name == "String" || name == "Preview" || name == "Name") && (types.Implements(recv, tangible) || types.Implements(types.NewPointer(deref(recv)), tangible)) {
			out = append(out, taintSink{f.ret(fn, 0), "text of an item (" + trimPkg(fn.String()) + ")", P.Pos(fn.Pos()), FuncName(fn)})
		}
		if name == "Render" && (types.Implements(recv, markup) || types.Implements(types.NewPointer(deref(recv)), markup)) {
			out = append(out, taintSink{f.ret(fn, 0), "rendered markup (" + trimPkg(fn.String()) + ")", P.Pos(fn.Pos()), FuncName(fn)})
		}
	}
	return out
}

func c01R1(c *Ctx) {
	P := c.P
	f := c01FlowCached(P)
	sources := c01Sources(P, f)
	sinks := c01Sinks(P, f)
	c.info("sources", len(sources))
	c.info("sinks", len(sinks))
	c.info("flow_nodes", len(f.keys))
	if len(sinks) < 20 {
		broken("C01: only %d sinks found (expected the output callback calls and the Tangible/Markup methods)", len(sinks))
	}
	sinkReached := map[int]int{}
	for _, s := range sources {
		r := f.Forward([]int{s.node})
		var hit *taintSink
		var best []string
		for i := range sinks {
			if r.Reached(sinks[i].node) {
				sinkReached[i]++
				p := r.Path(sinks[i].node)
				if hit == nil || len(p) < len(best) {
					hit = &sinks[i]
					best = p
				}
			}
		}
		construct := FuncName(s.fn) + "/source:" + s.kind
		if hit == nil {
			c.ok(construct, P.InstrPos(s.in), FuncName(s.fn), "every path from this source to a sink passes ansi.Scrub (or it reaches no sink)")
			continue
		}
		n := 0
		for i := range sinks {
			if r.Reached(sinks[i].node) {
				n++
			}
		}
		w := []string{fmt.Sprintf("reaches %d sink(s); shortest: %s at %s", n, hit.kind, hit.pos)}
		w = append(w, best...)
		c.bad(construct, P.InstrPos(s.in), FuncName(s.fn),
			fmt.Sprintf("%s reaches %s without passing ansi.Scrub", s.kind, hit.kind), w...)
	}
	for i, s := range sinks {
		if sinkReached[i] == 0 {
			c.ok("sink:"+s.fn+"/"+s.kind, s.pos, s.fn, "no unsanitised source reaches this sink")
		}
	}
}

func c01R2(c *Ctx) {
	P := c.P
	f := c01FlowCached(P)
	apply := P.Func("servitor/ansi", "Apply")
	if len(apply.Params) != 2 {
		unfollowed("ansi.Apply no longer has (text, style) parameters")
	}
	styleParam := apply.Params[1]
	colors := map[*types.Var]bool{}
	cfg := P.NamedType("servitor/config", "Config").Underlying().(*types.Struct)
	var findColors func(st *types.Struct, inColors bool)
	findColors = func(st *types.Struct, inColors bool) {
		for i := 0; i < st.NumFields(); i++ {
			fld := st.Field(i)
			if sub, ok := fld.Type().Underlying().(*types.Struct); ok {
				findColors(sub, inColors || fld.Name() == "Colors")
			} else if inColors {
				colors[fld] = true
			}
		}
	}
	findColors(cfg, false)
	if len(colors) == 0 {
		broken("config.Config.Style.Colors has no fields")
	}
	// every call site of Apply: the style argument's origins
	sites := 0
	for _, e := range P.Callers(apply) {
		if e.Site == nil {
			continue
		}
		sites++
		arg := e.Site.Common().Args[1]
		fn := e.Caller.Func
		construct := FuncName(fn) + "/sgr-argument"
		if _, isConst := arg.(*ssa.Const); isConst {
			c.ok(construct, P.InstrPos(e.Site), FuncName(fn), "constant SGR parameter")
			continue
		}
		origins, _ := f.Backward(f.val(arg), func(n int) bool {
			k := f.keys[n]
			return k.kind == nField && colors[k.f]
		})
		var bad []string
		for _, o := range origins {
			k := f.keys[o]
			if k.kind == nField && colors[k.f] {
				continue
			}
			bad = append(bad, f.describe(o, flowEdge{}))
		}
		c.check(len(bad) == 0, construct, P.InstrPos(e.Site), FuncName(fn),
			"SGR parameter built from constants and config.Parsed.Style.Colors.* only",
			"SGR parameter of ansi.Apply can be influenced by something other than a constant or a validated configuration colour", bad...)
	}
	_ = styleParam
	c.info("apply_call_sites", sites)
	// the colour fields themselves are written only by config.postprocess / parse
	for fld := range colors {
		n := f.field(fld)
		for _, e := range f.in[n] {
			fn := f.fnOf[e.to]
			pk := ""
			if fn != nil {
				pk = P.PkgOf(fn)
			}
			pos := "-"
			if e.site != nil {
				pos = P.InstrPos(e.site)
			}
			c.check(pk == "servitor/config", "colour-writer:"+fld.Name(), pos, FuncName(fn),
				"colour field written inside package config (validated by hexToAnsi, see C19)", "colour field "+fld.Name()+" is written outside package config")
		}
	}
}

// c01R3: string literals containing an escape-sequence introducer (ESC or a C1
// code point) occur only where the SGR generator lives.
func c01R3(c *Ctx) {
	P := c.P
	found := 0
	for _, pkg := range P.Pkgs {
		for _, file := range pkg.Syntax {
			var stack []ast.Node
			ast.Inspect(file, func(n ast.Node) bool {
				if n == nil {
					stack = stack[:len(stack)-1]
					return true
				}
				stack = append(stack, n)
				lit, ok := n.(*ast.BasicLit)
				if !ok || (lit.Kind != token.STRING) {
					return true
				}
				s, err := strconv.Unquote(lit.Value)
				if err != nil {
					return true
				}
				var ctl []string
				for _, r := range s {
					// sequence introducers: ESC and the C1 range (CSI, OSC, DCS, …). Other
					// C0 characters in literals (a cutset such as " \t\n\r\f") introduce nothing.
					if r == 0x1b || (r >= 0x80 && r <= 0x9f) {
						ctl = append(ctl, fmt.Sprintf("U+%04X", r))
					}
				}
				if len(ctl) == 0 {
					return true
				}
				found++
				fn := enclosingFuncName(stack)
				allowed := pkg.PkgPath == "servitor/ansi" || (pkg.PkgPath == "servitor" && fn == "printRaw")
				if !allowed && pkg.PkgPath == "servitor" && fn == "<package>" {
					// a named constant of package main that only printRaw uses
					allowed = onlyUsedIn(pkg, stack, "printRaw")
				}
				sort.Strings(ctl)
				c.check(allowed, pkg.PkgPath+"."+fn+"/control-literal", P.Pos(lit.Pos()), pkg.PkgPath+"."+fn,
					"control bytes "+strings.Join(ctl, ",")+" inside the SGR generator / raw terminal writer",
					"string literal with control bytes "+strings.Join(ctl, ",")+" outside package ansi and main.printRaw: a second generator of terminal control sequences")
				return true
			})
		}
	}
	c.info("control_literals", found)
}

func enclosingFuncName(stack []ast.Node) string {
	for i := len(stack) - 1; i >= 0; i-- {
		if fd, ok := stack[i].(*ast.FuncDecl); ok {
			return fd.Name.Name
		}
	}
	return "<package>"
}

// scrubIsTotal (C01.R4 and C17.R6): everything else in C01 and C17 trusts
// ansi.Scrub to remove control characters. That trust is reduced to a check of
// its shape: every return of Scrub is the result of strings.Map over (a
// ReplaceAll of) the input, and the mapping function returns its argument only
// on paths where the rune is '\n' or unicode.IsControl is known false, and -1
// otherwise. A shortcut that returns the input untouched is accepted only
// under the facts that strings.ContainsFunc / IndexFunc with unicode.IsControl
// found nothing and that utf8.ValidString holds (seed C01-2r7: strings.Map
// also replaces invalid bytes, raw C1 among them); a hand-written pre-scan (bytes below 0x20, say) is not, since
// it has to agree with unicode.IsControl on all of Unicode (C1 controls are
// two bytes in UTF-8).
func scrubIsTotal(c *Ctx) {
	P := c.P
	fn := P.Func("servitor/ansi", "Scrub")
	name := FuncName(fn)
	text := fn.Params[0]
	derivedFromInput := func(v ssa.Value) bool {
		for i := 0; i < 6; i++ {
			v = unwrapLoad(v)
			if v == ssa.Value(text) {
				return true
			}
			call, ok := v.(*ssa.Call)
			if !ok || !(isLibCall(&call.Call, "strings", "", "ReplaceAll") || isLibCall(&call.Call, "strings", "", "Replace")) {
				return false
			}
			v = call.Call.Args[0]
		}
		return false
	}
	isControlPred := func(v ssa.Value) bool {
		f, ok := v.(*ssa.Function)
		return ok && f.Pkg != nil && f.Pkg.Pkg.Path() == "unicode" && f.Name() == "IsControl"
	}
	for _, b := range fn.Blocks {
		ret, ok := b.Instrs[len(b.Instrs)-1].(*ssa.Return)
		if !ok {
			continue
		}
		v := unwrapLoad(ret.Results[0])
		okRet, why := false, "Scrub returns a string that did not pass through the rune filter"
		var resolve func(v ssa.Value, blk *ssa.BasicBlock, depth int) (bool, string)
		resolve = func(v ssa.Value, blk *ssa.BasicBlock, depth int) (bool, string) {
			v = unwrapLoad(v)
			if ph, isPhi := v.(*ssa.Phi); isPhi && depth < 4 {
				for k, ed := range ph.Edges {
					pred := ph.Block().Preds[k]
					okE, whyE := false, ""
					withEdge(pred, ph.Block(), func() { okE, whyE = resolve(ed, pred, depth+1) })
					if !okE {
						return false, whyE
					}
				}
				return true, ""
			}
			if call, isCall := v.(*ssa.Call); isCall && isLibCall(&call.Call, "strings", "", "Map") {
				if !derivedFromInput(call.Call.Args[1]) {
					return false, "the filter is applied to something other than the input"
				}
				var mf *ssa.Function
				switch f := call.Call.Args[0].(type) {
				case *ssa.Function:
					mf = f
				case *ssa.MakeClosure:
					mf = f.Fn.(*ssa.Function)
				}
				if mf == nil || len(mf.Params) != 1 {
					return false, "cannot identify the mapping function of the filter"
				}
				return filterDropsControls(mf)
			}
			if derivedFromInput(v) {
				// the input itself: only where a whole-string test with unicode.IsControl found
				// nothing AND the input is known to be valid UTF-8 — strings.Map turns every
				// invalid byte into U+FFFD, so the filter also removes raw 8-bit C1 bytes
				// (0x9B is CSI to a terminal in 8-bit mode), which no rune predicate sees
				validUTF8 := false
				for _, f := range factsOf(fn).At(blk) {
					if call, isCall := f.Cond.(*ssa.Call); isCall && f.Truth && isLibCall(&call.Call, "unicode/utf8", "", "ValidString") && derivedFromInput(call.Call.Args[0]) {
						validUTF8 = true
					}
				}
				for _, f := range factsOf(fn).At(blk) {
					if !validUTF8 {
						break
					}
					if call, isCall := f.Cond.(*ssa.Call); isCall && !f.Truth && isLibCall(&call.Call, "strings", "", "ContainsFunc") && isControlPred(call.Call.Args[1]) && derivedFromInput(call.Call.Args[0]) {
						return true, ""
					}
					if cmp, isCmp := f.Cmp(); isCmp {
						if call, isCall := cmp.X.(*ssa.Call); isCall && isLibCall(&call.Call, "strings", "", "IndexFunc") && isControlPred(call.Call.Args[1]) && derivedFromInput(call.Call.Args[0]) {
							if k, isC := constInt(cmp.Y); isC && ((cmp.Op == token.LSS && k == 0) || (cmp.Op == token.EQL && k == -1)) {
								return true, ""
							}
						}
					}
				}
				if !validUTF8 {
					return false, "the input is returned unfiltered on a path that does not know it to be valid UTF-8: the filter (strings.Map) also turns raw bytes such as 0x9B — CSI to a terminal in 8-bit mode, invisible to any rune predicate — into U+FFFD, a shortcut does not"
				}
				return false, "the input is returned unfiltered on a path whose only assurance is a hand-written scan: it must agree with unicode.IsControl on every rune (C1 controls U+0080–U+009F are two bytes, none of them below 0x20)"
			}
			return false, "Scrub returns a string that did not pass through the rune filter"
		}
		okRet, why = resolve(v, b, 0)
		c.check(okRet, name+"/return", P.InstrPos(ret), name, "the result of the rune filter over the input", why)
	}
}

// filterDropsControls: every return of the mapping function is -1, or the rune
// itself on a path that knows it is '\n' or not a control character.
func filterDropsControls(mf *ssa.Function) (bool, string) {
	r := mf.Params[0]
	for _, b := range mf.Blocks {
		ret, ok := b.Instrs[len(b.Instrs)-1].(*ssa.Return)
		if !ok {
			continue
		}
		v := unwrapLoad(ret.Results[0])
		if k, isC := constInt(v); isC && k == -1 {
			continue
		}
		if v != ssa.Value(r) {
			if k, isC := constInt(v); isC && k >= 0x20 && k != 0x7f && (k < 0x80 || k > 0x9f) {
				continue // replaced by a printable constant
			}
			return false, "the mapping function returns something other than the rune, a printable constant or -1"
		}
		paths, complete := enumeratePaths(mf, b, 256)
		if !complete {
			return false, "too many paths in the mapping function"
		}
		if b == mf.Blocks[0] {
			return false, "the mapping function keeps every rune"
		}
		for _, pf := range paths {
			okPath := false
			for _, f := range pf.facts {
				if call, isCall := f.Cond.(*ssa.Call); isCall && !f.Truth {
					if sc := call.Call.StaticCallee(); sc != nil && sc.Pkg != nil && sc.Pkg.Pkg.Path() == "unicode" && sc.Name() == "IsControl" && unwrapLoad(call.Call.Args[0]) == ssa.Value(r) {
						okPath = true
					}
				}
				if cmp, isCmp := f.Cmp(); isCmp && cmp.Op == token.EQL && unwrapLoad(cmp.X) == ssa.Value(r) {
					if k, isC := constInt(cmp.Y); isC && k == 10 {
						okPath = true
					}
				}
			}
			if !okPath {
				return false, "the mapping function keeps a rune on a path that has not established that it is a line feed or not a control character"
			}
		}
	}
	return true, ""
}

// onlyUsedIn: the literal on top of the stack is the value of a package-level
// constant or variable declaration all of whose names are used in function
// fname only (and at least once).
func onlyUsedIn(pkg *packages.Package, stack []ast.Node, fname string) bool {
	var spec *ast.ValueSpec
	for i := len(stack) - 1; i >= 0; i-- {
		if vs, ok := stack[i].(*ast.ValueSpec); ok {
			spec = vs
			break
		}
	}
	if spec == nil {
		return false
	}
	objs := map[types.Object]bool{}
	for _, nm := range spec.Names {
		if o := pkg.TypesInfo.Defs[nm]; o != nil {
			objs[o] = true
		}
	}
	uses, ok := 0, true
	for _, f := range pkg.Syntax {
		for _, d := range f.Decls {
			fd, isFn := d.(*ast.FuncDecl)
			ast.Inspect(d, func(n ast.Node) bool {
				if id, isID := n.(*ast.Ident); isID && objs[pkg.TypesInfo.Uses[id]] {
					uses++
					if !isFn || fd.Name.Name != fname || fd.Recv != nil {
						ok = false
					}
				}
				return true
			})
		}
	}
	return ok && uses > 0
}
