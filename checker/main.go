package main

import (
	"encoding/json"
	"flag"
	"fmt"
	"os"
	"path/filepath"
	"runtime/debug"
	"sort"
	"strconv"
	"time"
)

// registry of properties, filled by the cNN.go files
var registry = map[string]func() *Property{}

func main() {
	var (
		propID = flag.String("property", "", "property id (C01 …)")
		tier   = flag.String("tier", "", "quick | thorough (default: $VERIF_TIER or quick)")
		repo   = flag.String("repo", "/repo", "repository to analyse (its current working tree)")
		verif  = flag.String("verif", "", "verification directory (default: parent of the binary's directory)")
		replay = flag.String("replay", "", "violation file to re-decide on the current tree")
		list   = flag.Bool("list", false, "list properties and rules")
		all    = flag.Bool("all", false, "run every registered property (quick), one load")
		dump   = flag.Bool("dump", false, "print every obligation")
		mutant = flag.String("mutant", "", "internal: run one self-test mutant (thorough tier)")
		genAnc = flag.Bool("genanchors", false, "maintenance: print anchors.go (the function inventory of -repo) to stdout")
		showIn = flag.Bool("shownorm", false, "print the normalised (inlined) sources and the inliner log")
	)
	flag.Parse()
	if *verif == "" {
		exe, err := os.Executable()
		if err == nil {
			*verif = filepath.Dir(filepath.Dir(exe))
		} else {
			*verif = "."
		}
	}
	if *tier == "" {
		*tier = os.Getenv("VERIF_TIER")
	}
	if *tier != "thorough" {
		*tier = "quick"
	}
	var seed int64
	if s := os.Getenv("VERIF_SEED"); s != "" {
		seed, _ = strconv.ParseInt(s, 10, 64)
	}
	if *list {
		for _, id := range sortedKeys(registry) {
			p := registry[id]()
			fmt.Printf("%s\n", id)
			for _, r := range p.Rules {
				fmt.Printf("  %-9s floor %-3d %s\n", r.ID, r.Floor, r.Title)
			}
		}
		return
	}
	if *genAnc {
		genAnchors(*repo)
		return
	}
	if *showIn {
		showNormalised(*repo)
		return
	}
	if *replay != "" {
		os.Exit(doReplay(*repo, *verif, *replay))
	}
	if *mutant != "" {
		os.Exit(runMutantChild(*repo, *verif, *mutant))
	}
	ids := []string{*propID}
	if *all {
		ids = sortedKeys(registry)
	}
	if len(ids) == 1 && registry[ids[0]] == nil {
		fmt.Fprintf(os.Stderr, "unknown property %q; registered: %v\n", *propID, sortedKeys(registry))
		os.Exit(2)
	}
	known := loadKnownSafe(filepath.Join(*verif, "known_findings.json"))
	start := time.Now()
	P, err := loadSafe(LoadOptions{Repo: *repo})
	if err != nil {
		for _, id := range ids {
			fmt.Printf("CHECK-BROKEN property=%s %v\n", id, err)
		}
		os.Exit(2)
	}
	loadTime := time.Since(start).Seconds()
	exit := 0
	for _, id := range ids {
		t0 := time.Now()
		prop := registry[id]()
		res := runProperty(P, prop, known)
		extra := map[string]any{
			"packages_analysed":  len(P.Pkgs),
			"functions_analysed": len(P.Funcs),
			"callgraph_nodes":    len(P.CG().Nodes),
			"load_s":             loadTime,
		}
		if len(P.NormLog) > 0 {
			// helpers unknown to the rules were inlined into their callers first
			extra["normalising_inliner"] = P.NormLog
		}
		if len(P.MovedLog) > 0 {
			// anchors found in another package than the inventory has them in
			extra["moved_anchors"] = P.MovedLog
		}
		if *tier == "thorough" {
			for k, v := range thorough(*repo, *verif, prop, &res, known) {
				extra[k] = v
			}
		}
		if *dump {
			obs := append([]Obligation{}, res.Obs...)
			sort.SliceStable(obs, func(i, j int) bool { return obs[i].Rule < obs[j].Rule })
			for _, o := range obs {
				fmt.Printf("%-9s %-9s %s  %s  — %s\n", o.Verdict, o.Rule, o.Pos, o.Key, o.Reason)
			}
		}
		wall := time.Since(t0).Seconds() + loadTime
		if e := report(*verif, prop, res, known, *tier, seed, wall, extra); e > exit {
			exit = e
		}
	}
	os.Exit(exit)
}

func loadSafe(opt LoadOptions) (p *Program, err error) {
	defer func() {
		if e := recover(); e != nil {
			if b, ok := e.(BrokenError); ok {
				err = b
				return
			}
			// a crash of the machinery is a broken check, reported as such
			err = BrokenError{fmt.Sprintf("the checker crashed while loading or normalising: %v\n%s", e, debug.Stack())}
		}
	}()
	return Load(opt), nil
}

func loadKnownSafe(path string) (k KnownFile) {
	defer func() {
		if e := recover(); e != nil {
			fmt.Printf("CHECK-BROKEN %v\n", e)
			os.Exit(2)
		}
	}()
	return loadKnown(path)
}

// doReplay re-decides the obligation recorded in a violation file on the
// current tree and prints the witness.
func doReplay(repo, verif, file string) int {
	b, err := os.ReadFile(file)
	if err != nil {
		fmt.Fprintln(os.Stderr, err)
		return 2
	}
	var o Obligation
	if err := json.Unmarshal(b, &o); err != nil {
		fmt.Fprintln(os.Stderr, err)
		return 2
	}
	id := o.Rule
	if len(id) >= 3 {
		id = id[:3]
	}
	mk := registry[id]
	if mk == nil {
		fmt.Fprintf(os.Stderr, "unknown property for rule %s\n", o.Rule)
		return 2
	}
	P, err := loadSafe(LoadOptions{Repo: repo})
	if err != nil {
		fmt.Printf("CHECK-BROKEN property=%s %v\n", id, err)
		return 2
	}
	res := runProperty(P, mk(), KnownFile{})
	for _, cur := range res.Obs {
		if cur.Key == o.Key {
			fmt.Printf("%s %s at %s in %s\n  %s\n", cur.Verdict, cur.Key, cur.Pos, cur.Func, cur.Reason)
			for _, w := range cur.Witness {
				fmt.Printf("    %s\n", w)
			}
			if cur.Verdict == Violation {
				fmt.Printf("VIOLATION property=%s replay=%s\n", id, file)
				return 1
			}
			return 0
		}
	}
	fmt.Printf("obligation %s no longer exists on the current tree\n", o.Key)
	return 0
}
