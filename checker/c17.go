package main

import (
	"fmt"
	"go/constant"
	"go/token"
	"go/types"
	"regexp/syntax"
	"strings"

	"golang.org/x/tools/go/ssa"
)

func init() { registry["C17"] = propC17 }

func propC17() *Property {
	return &Property{
		ID:          "C17",
		Explanation: "Static guard and shape rules on package object. Decided: (R1) every conversion from a floating-point to an integer type in the module is dominated by a lower and an upper range test on the converted value (Go leaves out-of-range results implementation-defined) and, in GetNumber, by the integrality test; (R2) package object cannot panic: every type assertion is comma-ok, there is no indexing, slicing, map write or explicit panic; (R3) the non-error result of GetString is the result of ansi.Scrub and known non-empty, the empty case returns the 'absent' sentinel, and GetTime/GetURL/GetMediaType/GetMarkup obtain their text only through GetString; (R4) getPrimitive returns 'absent' (wrapping ErrKeyNotPresent) exactly on the missing-key/null edges, 'wrong type' on the failed-assertion edge and the asserted value itself on success; no other error wraps the 'absent' sentinel; no accessor returns a non-nil error together with a non-zero value; (R5) GetList returns the list itself or a one-element literal holding the value. (R4, addition) the document map is read (index, range) only inside getPrimitive; (R6) the sanitiser behind GetString is total (same rule as C01.R4); (R7) pointer-valued accessors return a non-nil value whenever they return a nil error, through their helpers; (R8) what GetNumber returns next to a nil error is the uint64 conversion of the very float64 it took out of the document (not a value that went through text, another float width or arithmetic). (R10) the pattern behind mime.Parse is parsed and the character class of each of its two name groups is, as a set, exactly the token characters of RFC 9110. (R11) packages object and mime read no environment, clock or local time zone. Not decided: time.Parse, url.Parse, the media-type regexp, encoding/json's number decoding, and the exact numeric value preserved by the conversion (value semantics).",
		Assumptions: []string{"encoding/json decodes numbers into float64, arrays into []any, objects into map[string]any"},
		Rules: []Rule{
			{ID: "C17.R1", Title: "float→integer conversions are range-guarded", Floor: 3, Run: c17R1},
			{ID: "C17.R2", Title: "package object has no may-panic construct", Floor: 6, Run: c17R2},
			{ID: "C17.R3", Title: "strings are scrubbed and non-empty; text accessors go through GetString", Floor: 7, Run: c17R3},
			{ID: "C17.R4", Title: "absent vs wrong type; errors come with zero values", Floor: 30, Run: c17R4},
			{ID: "C17.R5", Title: "single values are promoted to one-element lists", Floor: 1, Run: c17R5},
			{ID: "C17.R6", Title: "the sanitiser behind GetString filters every rune on every path", Floor: 1, Run: scrubIsTotal},
			{ID: "C17.R7", Title: "an accessor that reports no error hands out a usable value", Floor: 2, Run: c17R7},
			{ID: "C17.R11", Title: "what an accessor returns depends on the document alone: packages object and mime read no environment, clock or local time zone", Floor: 0, Run: c17R11},
			{ID: "C17.R10", Title: "a media type is two RFC 9110 tokens around a slash: the character classes of the pattern behind mime.Parse are exactly the token characters", Floor: 2, Run: c17R10},
			{ID: "C17.R9", Title: "what an accessor returns depends on the document alone: the accessors and what they call keep no state between calls (same instances as C08.R6)", Floor: 28, Run: c08R6},
			{ID: "C17.R8", Title: "the number GetNumber hands out is the conversion of the document's own double", Floor: 1, Run: c17R8},
		},
	}
}

func isFloat(t types.Type) bool {
	b, ok := t.Underlying().(*types.Basic)
	return ok && b.Info()&types.IsFloat != 0
}

func isInteger(t types.Type) bool {
	b, ok := t.Underlying().(*types.Basic)
	return ok && b.Info()&types.IsInteger != 0
}

func constFloat(v ssa.Value) (float64, bool) {
	c, ok := v.(*ssa.Const)
	if !ok || c.Value == nil {
		return 0, false
	}
	switch c.Value.Kind() {
	case constant.Int, constant.Float:
		f, _ := constant.Float64Val(constant.ToFloat(c.Value))
		return f, true
	}
	return 0, false
}

// numericBounds collects from the facts the known lower/upper bounds of v:
// lower: v >= lo (or v > lo), upper: v < hi (or v <= hi).
func numericBounds(facts []Fact, v ssa.Value) (hasLo bool, lo float64, hasHi bool, hi float64, hiStrict bool) {
	for _, f := range facts {
		cmp, ok := f.Cmp()
		if !ok {
			continue
		}
		x, y, op := cmp.X, cmp.Y, cmp.Op
		if y == v {
			x, y = y, x
			op = flipOp(op)
		}
		if x != v {
			continue
		}
		k, isC := constFloat(y)
		if !isC {
			continue
		}
		switch op {
		case token.GEQ:
			if !hasLo || k > lo {
				hasLo, lo = true, k
			}
		case token.GTR:
			if !hasLo || k > lo {
				hasLo, lo = true, k // v > k implies v >= k
			}
		case token.LSS:
			if !hasHi || k < hi {
				hasHi, hi, hiStrict = true, k, true
			}
		case token.LEQ:
			if !hasHi || k < hi {
				hasHi, hi, hiStrict = true, k, false
			}
		}
	}
	return
}

func c17R1(c *Ctx) {
	P := c.P
	n := 0
	for _, fn := range P.Funcs {
		eachInstr(fn, func(b *ssa.BasicBlock, _ int, in ssa.Instruction) {
			cv, ok := in.(*ssa.Convert)
			if !ok || !isFloat(cv.X.Type()) || !isInteger(cv.Type()) {
				return
			}
			if _, isConst := cv.X.(*ssa.Const); isConst {
				return
			}
			n++
			bt := cv.Type().Underlying().(*types.Basic)
			bits := 64
			switch bt.Kind() {
			case types.Int8, types.Uint8:
				bits = 8
			case types.Int16, types.Uint16:
				bits = 16
			case types.Int32, types.Uint32:
				bits = 32
			}
			unsigned := bt.Info()&types.IsUnsigned != 0
			var minV, maxExcl float64
			if unsigned {
				minV, maxExcl = 0, pow2(bits)
			} else {
				minV, maxExcl = -pow2(bits-1), pow2(bits-1)
			}
			facts := factsOf(fn).At(b)
			hasLo, lo, hasHi, hi, strict := numericBounds(facts, cv.X)
			okLo := hasLo && lo >= minV
			okHi := hasHi && (hi < maxExcl || (hi == maxExcl && strict))
			construct := FuncName(fn) + "/float-to-" + bt.Name()
			why := ""
			if !okLo {
				why = fmt.Sprintf("no dominating test establishes value >= %g", minV)
			}
			if !okHi {
				if why != "" {
					why += "; "
				}
				why += fmt.Sprintf("no dominating test establishes value < %g", maxExcl)
			}
			// time arithmetic on durations (hours/minutes of time.Since) is local, not JSON
			if P.PkgOf(fn) != "servitor/object" && durationDerived(cv.X) {
				c.ok(construct, P.InstrPos(in), FuncName(fn), "conversion of a time.Duration quotient (clock arithmetic, not document content)")
				return
			}
			c.check(okLo && okHi, construct, P.InstrPos(in), FuncName(fn),
				fmt.Sprintf("range-guarded: %g <= value < %g known on every path", lo, hi),
				"float converted to "+bt.Name()+" without a range guard ("+why+"): negative, huge or NaN JSON numbers yield an implementation-defined integer that is then presented as the document's value")
			// integrality, where the accessor promises integers
			if P.PkgOf(fn) == "servitor/object" {
				integral := false
				for _, f := range facts {
					cmp, ok := f.Cmp()
					if !ok || cmp.Op != token.EQL {
						continue
					}
					for _, side := range [][2]ssa.Value{{cmp.X, cmp.Y}, {cmp.Y, cmp.X}} {
						if side[0] != cv.X {
							continue
						}
						if call, ok := side[1].(*ssa.Call); ok && (isLibCall(&call.Call, "math", "", "Trunc") || isLibCall(&call.Call, "math", "", "Floor") || isLibCall(&call.Call, "math", "", "Round")) && call.Call.Args[0] == cv.X {
							integral = true
						}
					}
				}
				c.check(integral, FuncName(fn)+"/integral", P.InstrPos(in), FuncName(fn), "dominated by value == math.Trunc(value)", "a fractional JSON number can be converted to an integer (silently truncated)")
			}
		})
	}
	c.info("float_to_int_conversions", n)
}

func pow2(n int) float64 {
	r := 1.0
	for i := 0; i < n; i++ {
		r *= 2
	}
	return r
}

func durationDerived(v ssa.Value) bool {
	for d := 0; d < 4; d++ {
		switch x := v.(type) {
		case *ssa.BinOp:
			v = x.X
		case *ssa.Call:
			f := calleeObj(&x.Call)
			return f != nil && f.Pkg() != nil && f.Pkg().Path() == "time"
		default:
			return false
		}
	}
	return false
}

func c17R2(c *Ctx) {
	P := c.P
	for _, fn := range P.FuncsIn("servitor/object") {
		fname := FuncName(fn)
		eachInstr(fn, func(_ *ssa.BasicBlock, _ int, in ssa.Instruction) {
			switch x := in.(type) {
			case *ssa.TypeAssert:
				c.check(x.CommaOk, fname+"/assert", P.InstrPos(in), fname, "comma-ok type assertion", "type assertion without comma-ok on a JSON value: a value of another type panics")
			case *ssa.IndexAddr:
				if a, ok := x.X.(*ssa.Alloc); ok && (a.Comment == "varargs" || a.Comment == "slicelit") {
					return
				}
				c.bad(fname+"/index", P.InstrPos(in), fname, "indexing in package object: out-of-range JSON-derived indices panic (none existed on the pinned tree; review)")
			case *ssa.Index:
				c.bad(fname+"/index", P.InstrPos(in), fname, "indexing in package object (review)")
			case *ssa.Slice:
				if a, ok := x.X.(*ssa.Alloc); ok && (a.Comment == "varargs" || a.Comment == "slicelit") && x.Low == nil && x.High == nil {
					return
				}
				c.bad(fname+"/slice", P.InstrPos(in), fname, "slicing in package object (review)")
			case *ssa.MapUpdate:
				// filling a map that was made right here (a literal, a table built by
				// the package initialiser) can neither hit a nil map nor a shared document
				m := unwrapLoad(x.Map)
				if ct, ok := m.(*ssa.ChangeType); ok {
					m = ct.X
				}
				if mk, ok := m.(*ssa.MakeMap); ok && mk.Parent() == fn {
					c.ok(fname+"/mapupdate", P.InstrPos(in), fname, "fills a map made in this function")
					return
				}
				c.bad(fname+"/mapupdate", P.InstrPos(in), fname, "map write in package object: documents are shared read-only and a nil map panics")
			case *ssa.Panic:
				c.bad(fname+"/panic", P.InstrPos(in), fname, "explicit panic in an accessor")
			case *ssa.Lookup:
				c.ok(fname+"/lookup", P.InstrPos(in), fname, "map lookup never panics (nil map included)")
			case *ssa.UnOp:
				if x.Op == token.MUL {
					if _, isParam := x.X.(*ssa.Parameter); isParam {
						c.bad(fname+"/deref", P.InstrPos(in), fname, "dereference of a pointer parameter in package object")
					}
				}
			}
		})
	}
}

func c17R3(c *Ctx) {
	P := c.P
	scrub := P.Func("servitor/ansi", "Scrub")
	gs := P.Method("servitor/object", "Object", "GetString")
	name := FuncName(gs)
	for _, b := range gs.Blocks {
		ret, ok := b.Instrs[len(b.Instrs)-1].(*ssa.Return)
		if !ok {
			continue
		}
		if !isNilConst(ret.Results[1]) {
			s, isC := constString(ret.Results[0])
			c.check(isC && s == "", name+"/return:error", P.InstrPos(ret), name, "error with the empty string", "GetString returns a non-empty string together with an error")
			continue
		}
		v := ret.Results[0]
		call, isCall := v.(*ssa.Call)
		scrubbed := isCall && call.Call.StaticCallee() == scrub
		c.check(scrubbed, name+"/return:scrubbed", P.InstrPos(ret), name, "the string returned is the result of ansi.Scrub", "GetString returns a string that is not the result of ansi.Scrub")
		nonEmpty := false
		for _, f := range factsOf(gs).At(b) {
			cmp, ok := f.Cmp()
			if !ok || cmp.Op != token.NEQ {
				continue
			}
			if s, isC := constString(cmp.Y); isC && s == "" && cmp.X == v {
				nonEmpty = true
			}
		}
		c.check(nonEmpty, name+"/return:non-empty", P.InstrPos(ret), name, "known non-empty (after scrubbing)", "GetString can return an empty string as a value (empty must be reported as absent)")
		if scrubbed {
			src := call.Call.Args[0]
			okSrc := false
			if ex, ok := src.(*ssa.Extract); ok && ex.Index == 0 {
				if pc, ok := ex.Tuple.(*ssa.Call); ok {
					if sc := pc.Call.StaticCallee(); sc != nil && sc.Origin() != nil && sc.Origin().Name() == "getPrimitive" || (sc != nil && strings.HasPrefix(sc.Name(), "getPrimitive")) {
						if e, _ := errorResult(pc); e != nil && knownNil(e, b) {
							okSrc = true
						}
					}
				}
			}
			c.check(okSrc, name+"/return:source", P.InstrPos(ret), name, "the scrubbed text is the checked result of getPrimitive[string]", "the scrubbed text is not the checked getPrimitive[string] result for the key")
		}
	}
	// empty -> absent sentinel
	notPresent := P.Global("servitor/object", "ErrKeyNotPresent")
	emptyOK := false
	for _, b := range gs.Blocks {
		ret, ok := b.Instrs[len(b.Instrs)-1].(*ssa.Return)
		if !ok {
			continue
		}
		if u, ok := ret.Results[1].(*ssa.UnOp); ok && unwrapLoad(u.X) == ssa.Value(notPresent) {
			for _, f := range factsOf(gs).At(b) {
				if cmp, ok := f.Cmp(); ok && cmp.Op == token.EQL {
					if s, isC := constString(cmp.Y); isC && s == "" {
						emptyOK = true
					}
				}
			}
		}
	}
	c.check(emptyOK, name+"/empty-is-absent", P.Pos(gs.Pos()), name, "an empty (scrubbed) string is reported with the 'absent' sentinel", "the empty-string case does not return ErrKeyNotPresent")
	// text accessors obtain their text only through GetString
	for _, an := range []string{"GetTime", "GetURL", "GetMediaType", "GetMarkup"} {
		fn := P.Method("servitor/object", "Object", an)
		fname := FuncName(fn)
		eachInstr(fn, func(b *ssa.BasicBlock, _ int, in ssa.Instruction) {
			call, ok := in.(*ssa.Call)
			if !ok {
				return
			}
			f := calleeObj(&call.Call)
			if f == nil {
				return
			}
			if sc := call.Call.StaticCallee(); sc != nil && strings.HasPrefix(sc.Name(), "getPrimitive") {
				c.bad(fname+"/bypass", P.InstrPos(in), fname, an+" reads the raw JSON value with getPrimitive instead of GetString: unsanitised text reaches a parser or renderer")
				return
			}
			isParser := isLibCall(&call.Call, "time", "", "Parse") || isLibCall(&call.Call, "net/url", "", "Parse") ||
				(f.Pkg() != nil && isServitorPath(f.Pkg().Path()) && (f.Name() == "Parse" || f.Name() == "NewMarkup"))
			if !isParser {
				return
			}
			var text ssa.Value
			for _, a := range call.Call.Args {
				if types.Identical(a.Type(), types.Typ[types.String]) {
					if _, isC := a.(*ssa.Const); !isC {
						text = a
					}
				}
			}
			okT := false
			if ex, ok := text.(*ssa.Extract); ok && ex.Index == 0 {
				if gc, ok := ex.Tuple.(*ssa.Call); ok && gc.Call.StaticCallee() == gs {
					if e, _ := errorResult(gc); e != nil && knownNil(e, b) {
						okT = true
					}
				}
			}
			c.check(okT, fname+"/text-from-GetString:"+f.Name(), P.InstrPos(in), fname, "parses / renders the checked result of GetString", "the text handed to "+f.FullName()+" is not the checked result of GetString")
		})
	}
}

func c17R4(c *Ctx) {
	P := c.P
	notPresent := P.Global("servitor/object", "ErrKeyNotPresent")
	wrongType := P.Global("servitor/object", "ErrKeyWrongType")
	// getPrimitive instances
	nInst := 0
	for _, fn := range P.FuncsIn("servitor/object") {
		if fn.Origin() == nil || fn.Origin().Name() != "getPrimitive" {
			continue
		}
		nInst++
		name := FuncName(fn)
		var lookup *ssa.Lookup
		var assert *ssa.TypeAssert
		eachInstr(fn, func(_ *ssa.BasicBlock, _ int, in ssa.Instruction) {
			switch x := in.(type) {
			case *ssa.Lookup:
				lookup = x
			case *ssa.TypeAssert:
				assert = x
			}
		})
		if lookup == nil || assert == nil {
			c.bad(name+"/shape", P.Pos(fn.Pos()), name, "getPrimitive no longer consists of a map lookup followed by a type assertion")
			continue
		}
		// the assertion is reached only for a present, non-null value: JSON null
		// must be classified as absent, not as a value of the wrong type
		presentOK, nonNullOK := false, false
		for _, f := range factsOf(fn).At(assert.Block()) {
			if ex, ok := f.Cond.(*ssa.Extract); ok && ex.Tuple == ssa.Value(lookup) && ex.Index == 1 && f.Truth {
				presentOK = true
			}
			if cmp, ok := f.Cmp(); ok && cmp.Op == token.NEQ && isNilConst(cmp.Y) {
				if ex, ok := cmp.X.(*ssa.Extract); ok && ex.Tuple == ssa.Value(lookup) && ex.Index == 0 {
					nonNullOK = true
				}
			}
		}
		c.check(presentOK && nonNullOK, name+"/absent-condition", P.InstrPos(assert), name,
			"a missing key and an explicit null are both classified before the type is looked at", "the type assertion is reached for a missing key or a JSON null: null is reported as 'wrong type' instead of 'absent' (callers hide only 'absent')")
		for _, b := range fn.Blocks {
			ret, ok := b.Instrs[len(b.Instrs)-1].(*ssa.Return)
			if !ok {
				continue
			}
			facts := factsOf(fn).At(b)
			if isNilConst(ret.Results[1]) {
				// success: the asserted value under ok
				okV := false
				if ex, ok := ret.Results[0].(*ssa.Extract); ok && ex.Tuple == ssa.Value(assert) && ex.Index == 0 {
					okV = true
				}
				okFlag := false
				for _, f := range facts {
					if ex, ok := f.Cond.(*ssa.Extract); ok && ex.Tuple == ssa.Value(assert) && ex.Index == 1 && f.Truth {
						okFlag = true
					}
				}
				c.check(okV && okFlag, name+"/return:value", P.InstrPos(ret), name, "returns the asserted value itself on the ok edge", "the success return is not the asserted JSON value under ok == true")
				continue
			}
			wraps := wrappedSentinels(ret.Results[1])
			asserted := false
			for _, f := range facts {
				if ex, ok := f.Cond.(*ssa.Extract); ok && ex.Tuple == ssa.Value(assert) && ex.Index == 1 && !f.Truth {
					asserted = true
				}
			}
			if asserted {
				c.check(wraps[wrongType] && !wraps[notPresent], name+"/return:wrong-type", P.InstrPos(ret), name, "failed assertion reports ErrKeyWrongType", "a value of the wrong type is not reported as ErrKeyWrongType (or is reported as absent)")
			} else {
				c.check(wraps[notPresent] && !wraps[wrongType], name+"/return:absent", P.InstrPos(ret), name, "missing key / null reports ErrKeyNotPresent", "a missing or null value is not reported as ErrKeyNotPresent")
			}
			c.check(isZeroValue(ret.Results[0]), name+"/return:zero", P.InstrPos(ret), name, "zero value with the error", "a non-zero value is returned together with an error")
		}
	}
	c.check(nInst >= 1, "servitor/object.getPrimitive/instantiations", P.Pos(P.Method("servitor/object", "Object", "GetString").Pos()), "servitor/object.getPrimitive", fmt.Sprintf("%d instantiations of getPrimitive analysed", nInst), "no accessor goes through getPrimitive any more")
	// the document map is read only there: every other accessor obtains its value
	// from getPrimitive (or from another accessor), so that "missing or null =
	// absent, other type = wrong type" is decided in one place
	for _, fn := range P.FuncsIn("servitor/object") {
		if fn.Origin() != nil && fn.Origin().Name() == "getPrimitive" || fn.Name() == "getPrimitive" {
			continue
		}
		fname := FuncName(fn)
		eachInstr(fn, func(_ *ssa.BasicBlock, _ int, in ssa.Instruction) {
			var m ssa.Value
			switch x := in.(type) {
			case *ssa.Lookup:
				m = x.X
			case *ssa.Range:
				m = x.X
			default:
				return
			}
			if !isNamed(m.Type(), "servitor/object", "Object") {
				if mt, ok := m.Type().Underlying().(*types.Map); !ok || !isAnyMap(mt) {
					return
				}
				// a plain map[string]any that is a converted Object
				if ct, ok := m.(*ssa.ChangeType); !ok || !isNamed(ct.X.Type(), "servitor/object", "Object") {
					return
				}
			}
			c.bad(fname+"/reads-document-map", P.InstrPos(in), fname, "an accessor reads the document map itself instead of going through getPrimitive: a JSON null (or a value of another type) is no longer classified as absent (or wrong type) there")
		})
	}
	// other accessors: errors never wrap the 'absent' sentinel except GetString's empty case; errors come with zero values
	for _, fn := range P.FuncsIn("servitor/object") {
		if fn.Origin() != nil && fn.Origin().Name() == "getPrimitive" || fn.Parent() != nil || fn.Synthetic != "" {
			continue
		}
		if fn.Signature.Recv() == nil {
			continue
		}
		name := FuncName(fn)
		for _, b := range fn.Blocks {
			ret, ok := b.Instrs[len(b.Instrs)-1].(*ssa.Return)
			if !ok || len(ret.Results) < 2 {
				continue
			}
			e := ret.Results[len(ret.Results)-1]
			if isNilConst(e) {
				continue
			}
			// forwarded tuple of another accessor: fine
			if tupleForward(ret) {
				c.ok(name+"/return:forward", P.InstrPos(ret), name, "forwards another accessor's (value, error) unchanged")
				continue
			}
			zero := true
			for _, r := range ret.Results[:len(ret.Results)-1] {
				if !isZeroValue(r) {
					zero = false
				}
			}
			c.check(zero, name+"/return:zero-with-error", P.InstrPos(ret), name, "error accompanied by zero values", "an accessor returns a non-zero value together with a (possibly) non-nil error")
			// created errors must not claim 'absent'
			if call, ok := e.(*ssa.Call); ok && isLibCall(&call.Call, "fmt", "", "Errorf") {
				w := wrappedSentinels(e)
				c.check(!w[notPresent], name+"/error-class", P.InstrPos(ret), name, "a parse / type error is not classified as absent", "an error created for an unparseable value wraps ErrKeyNotPresent: callers treat it as absent and hide it")
			}
		}
	}
}

// tupleForward: all results are the extracts #0..#n-1 of one call.
func tupleForward(ret *ssa.Return) bool {
	var tup ssa.Value
	for i, r := range ret.Results {
		if ct, ok := r.(*ssa.ChangeType); ok {
			r = ct.X
		}
		if mi, ok := r.(*ssa.MakeInterface); ok {
			r = mi.X
		}
		ex, ok := r.(*ssa.Extract)
		if !ok || ex.Index != i {
			return false
		}
		if tup != nil && ex.Tuple != tup {
			return false
		}
		tup = ex.Tuple
	}
	return tup != nil
}

// wrappedSentinels: which package-level error values the error v is or wraps
// (fmt.Errorf with %w over a load of the global).
func wrappedSentinels(v ssa.Value) map[*ssa.Global]bool {
	out := map[*ssa.Global]bool{}
	switch x := v.(type) {
	case *ssa.UnOp:
		if g, ok := x.X.(*ssa.Global); ok {
			out[g] = true
		}
	case *ssa.Call:
		if !isLibCall(&x.Call, "fmt", "", "Errorf") {
			return out
		}
		format, _ := constString(x.Call.Args[0])
		if !strings.Contains(format, "%w") {
			return out
		}
		if sl, ok := x.Call.Args[1].(*ssa.Slice); ok {
			if a, ok := sl.X.(*ssa.Alloc); ok {
				for _, r := range refs(a) {
					if ia, ok := r.(*ssa.IndexAddr); ok {
						for _, rr := range refs(ia) {
							if st, ok := rr.(*ssa.Store); ok {
								val := st.Val
								if ci, ok := val.(*ssa.ChangeInterface); ok {
									val = ci.X
								}
								if u, ok := val.(*ssa.UnOp); ok {
									if g, ok := u.X.(*ssa.Global); ok {
										out[g] = true
									}
								}
							}
						}
					}
				}
			}
		}
	}
	return out
}

func isZeroValue(v ssa.Value) bool {
	switch x := v.(type) {
	case *ssa.Const:
		if x.Value == nil {
			return true
		}
		switch x.Value.Kind() {
		case constant.String:
			return constant.StringVal(x.Value) == ""
		case constant.Int, constant.Float:
			return constant.Sign(x.Value) == 0
		case constant.Bool:
			return !constant.BoolVal(x.Value)
		}
	case *ssa.UnOp:
		// load of a local that is never assigned: the zero value
		if a, ok := x.X.(*ssa.Alloc); ok && x.Op == token.MUL {
			if len(storesToAlloc(a)) == 0 {
				onlyLoads := true
				for _, r := range refs(a) {
					if _, isLoad := r.(*ssa.UnOp); !isLoad {
						onlyLoads = false
					}
				}
				return onlyLoads
			}
		}
	case *ssa.Slice:
		// []T{} literal: empty
		if a, ok := x.X.(*ssa.Alloc); ok {
			if arr, ok := deref(a.Type()).Underlying().(*types.Array); ok && arr.Len() == 0 {
				return true
			}
		}
	}
	return false
}

func c17R5(c *Ctx) {
	P := c.P
	gl := P.Method("servitor/object", "Object", "GetList")
	ga := P.Method("servitor/object", "Object", "GetAny")
	name := FuncName(gl)
	for _, b := range gl.Blocks {
		ret, ok := b.Instrs[len(b.Instrs)-1].(*ssa.Return)
		if !ok || !isNilConst(ret.Results[1]) {
			continue
		}
		v := ret.Results[0]
		switch x := v.(type) {
		case *ssa.Extract:
			// asserted list
			ta, ok := x.Tuple.(*ssa.TypeAssert)
			okL := ok && x.Index == 0
			if okL {
				okL = false
				for _, f := range factsOf(gl).At(b) {
					if ex, ok := f.Cond.(*ssa.Extract); ok && ex.Tuple == ssa.Value(ta) && ex.Index == 1 && f.Truth {
						okL = true
					}
				}
			}
			c.check(okL, name+"/return:list", P.InstrPos(ret), name, "a JSON array is returned as it is", "the list returned is not the asserted JSON array under ok")
		case *ssa.Slice:
			okS := false
			if a, ok := x.X.(*ssa.Alloc); ok {
				if arr, ok := deref(a.Type()).Underlying().(*types.Array); ok && arr.Len() == 1 {
					for _, r := range refs(a) {
						if ia, ok := r.(*ssa.IndexAddr); ok {
							for _, rr := range refs(ia) {
								if st, ok := rr.(*ssa.Store); ok {
									if ex, ok := st.Val.(*ssa.Extract); ok && ex.Index == 0 {
										if call, ok := ex.Tuple.(*ssa.Call); ok && call.Call.StaticCallee() == ga {
											if e, _ := errorResult(call); e != nil && knownNil(e, b) {
												okS = true
											}
										}
									}
								}
							}
						}
					}
				}
			}
			c.check(okS, name+"/return:promoted", P.InstrPos(ret), name, "a single value is promoted to a one-element list holding that value", "the promoted list does not hold exactly the value obtained for the key")
		default:
			c.bad(name+"/return:other", P.InstrPos(ret), name, "GetList returns something that is neither the JSON array nor a one-element literal")
		}
	}
}

func isAnyMap(mt *types.Map) bool {
	k, ok := mt.Key().Underlying().(*types.Basic)
	if !ok || k.Kind() != types.String {
		return false
	}
	i, ok := mt.Elem().Underlying().(*types.Interface)
	return ok && i.NumMethods() == 0
}

// c17R7: "classify every JSON value correctly" includes the converse of R4: an
// accessor whose result is a pointer returns a non-nil one whenever it returns
// a nil error, on every path (through its helpers: url.Parse, mime.Parse, …).
// A helper that can answer (nil, nil) — a remembered failure, say — makes the
// accessor report success without a value, and the first user dereferences nil.
func c17R7(c *Ctx) {
	P := c.P
	nn := newNonNil(P)
	for _, fn := range P.FuncsIn("servitor/object") {
		if fn.Signature.Recv() == nil || fn.Parent() != nil || fn.Synthetic != "" {
			continue
		}
		res := fn.Signature.Results()
		if res.Len() < 2 || !isErrorType(res.At(res.Len()-1).Type()) {
			continue
		}
		for i := 0; i < res.Len()-1; i++ {
			if _, isPtr := res.At(i).Type().Underlying().(*types.Pointer); !isPtr {
				continue
			}
			name := FuncName(fn)
			c.check(nn.producerSound(fn, i), name+"/value-with-nil-error", P.Pos(fn.Pos()), name, "result #"+fmt.Sprint(i)+" is non-nil whenever the error is nil",
				"the accessor can return a nil "+typeString(res.At(i).Type())+" together with a nil error: success without a value, dereferenced by the first user")
		}
	}
}

// c17R8: "exactly the value the JSON number has when read as an IEEE-754
// double". The structural part: what GetNumber returns next to a nil error is
// the integer conversion of the very float64 it took out of the document
// (possibly through math.Trunc, equal to it under the integrality test that R1
// demands) — not a value that went through text (strconv.FormatFloat prints the
// shortest decimal that round-trips, not the double's exact value: 2^63 comes
// back as 9223372036854776000), through another float width, or arithmetic.
// That the conversion itself is exact is R1 (range and integrality known).
func c17R8(c *Ctx) {
	P := c.P
	fn := P.Method("servitor/object", "Object", "GetNumber")
	fname := FuncName(fn)
	fromDocument := func(v ssa.Value) bool {
		for d := 0; d < 4; d++ {
			v = unwrapLoad(v)
			if call, ok := v.(*ssa.Call); ok && (isLibCall(&call.Call, "math", "", "Trunc")) {
				v = call.Call.Args[0]
				continue
			}
			ex, ok := v.(*ssa.Extract)
			if !ok || ex.Index != 0 {
				return false
			}
			call, ok := ex.Tuple.(*ssa.Call)
			if !ok {
				return false
			}
			sc := call.Call.StaticCallee()
			return sc != nil && P.PkgOf(sc) == "servitor/object" && strings.HasPrefix(sc.Name(), "getPrimitive") && isFloat(ex.Type())
		}
		return false
	}
	var check func(v ssa.Value, d int) bool
	check = func(v ssa.Value, d int) bool {
		v = unwrapLoad(v)
		if ph, ok := v.(*ssa.Phi); ok && d < 4 {
			for _, e := range ph.Edges {
				if !check(e, d+1) {
					return false
				}
			}
			return true
		}
		cv, ok := v.(*ssa.Convert)
		if !ok || !isFloat(cv.X.Type()) || !isInteger(cv.Type()) {
			return false
		}
		if b, isB := cv.X.Type().Underlying().(*types.Basic); !isB || b.Kind() != types.Float64 {
			return false
		}
		return fromDocument(cv.X)
	}
	n := 0
	for _, b := range fn.Blocks {
		ret, ok := b.Instrs[len(b.Instrs)-1].(*ssa.Return)
		if !ok || len(ret.Results) != 2 {
			continue
		}
		if !isNilConst(ret.Results[1]) {
			if provablyNonNilErr(ret.Results[1], b, 0) {
				continue
			}
		}
		n++
		c.check(check(ret.Results[0], 0), fname+"/value", P.InstrPos(ret), fname, "returns uint64(x) of the float64 x taken out of the document",
			"GetNumber hands out a number that is not the direct conversion of the document's float64 (it went through text, another width or arithmetic): for large values the result differs from the JSON number read as a double")
	}
	if n == 0 {
		c.bad(fname+"/value", P.Pos(fn.Pos()), fname, "GetNumber has no return that accepts a number")
	}
}

// c17R10: GetMediaType / GetMarkup classify a string as a media type through
// mime.Parse, whose recogniser is a regular expression. The pattern is parsed
// (regexp/syntax) and the character class of each of the two name groups is
// compared, as a set, with the token characters of RFC 9110 —
// "!#$%&'*+-.^_`|~", digits and letters. A class written in another order is
// the same set; a class in which `+-.` has become a range (and so admits the
// comma), or that has lost or gained a character, is not.
func c17R10(c *Ctx) {
	P := c.P
	fn := P.FuncOpt("servitor/mime", "Parse")
	if fn == nil {
		c.bad("servitor/mime.Parse", "mime", "servitor/mime", "mime.Parse not found")
		return
	}
	fname := FuncName(fn)
	var pat string
	var at ssa.Instruction
	eachInstr(fn, func(_ *ssa.BasicBlock, _ int, in ssa.Instruction) {
		call, ok := in.(*ssa.Call)
		if !ok {
			return
		}
		sc := call.Call.StaticCallee()
		if sc == nil || sc.Pkg == nil || sc.Pkg.Pkg.Path() != "regexp" || !strings.HasPrefix(sc.Name(), "Find") && !strings.HasPrefix(sc.Name(), "Match") {
			return
		}
		if p, ok := patternOfRegexpValue(P, call.Call.Args[0]); ok {
			pat, at = p, in
		}
	})
	if at == nil {
		c.bad(fname+"/pattern", P.Pos(fn.Pos()), fname, "the recogniser of media types is not a regular expression with a constant pattern: what mime.Parse accepts cannot be established")
		return
	}
	re, err := syntax.Parse(pat, syntax.Perl)
	if err != nil {
		c.bad(fname+"/pattern", P.InstrPos(at), fname, "the media type pattern does not parse: "+err.Error())
		return
	}
	want := map[rune]bool{}
	for _, r := range "!#$%&'*+-.^_`|~" {
		want[r] = true
	}
	for r := '0'; r <= '9'; r++ {
		want[r] = true
	}
	for r := 'a'; r <= 'z'; r++ {
		want[r] = true
		want[r-'a'+'A'] = true
	}
	// the class under each capture that holds a name (a repetition of one character class)
	n := 0
	var walk func(r *syntax.Regexp)
	walk = func(r *syntax.Regexp) {
		if r.Op == syntax.OpCapture && len(r.Sub) == 1 {
			rep := r.Sub[0]
			if (rep.Op == syntax.OpPlus || rep.Op == syntax.OpStar || rep.Op == syntax.OpRepeat) && len(rep.Sub) == 1 && rep.Sub[0].Op == syntax.OpCharClass {
				cls := rep.Sub[0]
				n++
				got := map[rune]bool{}
				tooWide := false
				for i := 0; i+1 < len(cls.Rune); i += 2 {
					if cls.Rune[i+1]-cls.Rune[i] > 200 {
						tooWide = true
						break
					}
					for x := cls.Rune[i]; x <= cls.Rune[i+1]; x++ {
						got[x] = true
					}
				}
				var extra, missing []string
				for x := range got {
					if !want[x] {
						extra = append(extra, fmt.Sprintf("%q", x))
					}
				}
				for x := range want {
					if !got[x] {
						missing = append(missing, fmt.Sprintf("%q", x))
					}
				}
				sortStrings(extra)
				sortStrings(missing)
				okCls := !tooWide && len(extra) == 0 && len(missing) == 0 && rep.Op != syntax.OpStar
				why := "the name class of the media type pattern is not the set of token characters:"
				if tooWide {
					why += " it spans a wide range of characters"
				}
				if len(extra) > 0 {
					why += " it also admits " + strings.Join(extra, " ")
				}
				if len(missing) > 0 {
					why += " it lacks " + strings.Join(missing, " ")
				}
				if rep.Op == syntax.OpStar {
					why += " an empty name is accepted"
				}
				c.check(okCls, fmt.Sprintf("%s/token-class#%d", fname, n), P.InstrPos(at), fname, "a non-empty run of exactly the RFC 9110 token characters", why+" (strings that are not media types are classified as media types, or media types are refused)")
				return
			}
		}
		for _, s := range r.Sub {
			walk(s)
		}
	}
	walk(re)
	// what Parse hands out are the groups themselves: Essence, Supertype and Subtype of the value it
	// returns are matches[1], [2] and [3] of the same match, with no string operation in between
	groupOf := map[string]int64{"Essence": 1, "Supertype": 2, "Subtype": 3}
	seenField := map[string]bool{}
	eachInstr(fn, func(_ *ssa.BasicBlock, _ int, in ssa.Instruction) {
		st, ok := in.(*ssa.Store)
		if !ok {
			return
		}
		fa, ok := st.Addr.(*ssa.FieldAddr)
		if !ok || !isNamed(fa.X.Type(), "servitor/mime", "MediaType") {
			return
		}
		name := fieldOf(fa).Name()
		g, known := groupOf[name]
		if !known {
			return
		}
		seenField[name] = true
		okVal := false
		if ld, ok := unwrapLoad(st.Val).(*ssa.UnOp); ok && ld.Op == token.MUL {
			if ia, ok := ld.X.(*ssa.IndexAddr); ok {
				if k, isK := constInt(ia.Index); isK && k == g {
					okVal = true
				}
			}
		}
		c.check(okVal, fname+"/field:"+name, P.InstrPos(in), fname, fmt.Sprintf("%s is group %d of the match", name, g),
			fmt.Sprintf("%s of a parsed media type is not group %d of the match as it stands: the parts no longer add up to the type that was declared (a `+suffix` cut off, a case changed, blanks trimmed), so what %%subtype and %%mimetype hand to the media hook, and what the renderers dispatch on, disagree", name, g))
	})
	for _, name := range []string{"Essence", "Supertype", "Subtype"} {
		if !seenField[name] {
			c.bad(fname+"/field:"+name, P.InstrPos(at), fname, "mime.Parse does not fill "+name+" of the value it returns")
		}
	}
	c.check(n == 2, fname+"/two-names", P.InstrPos(at), fname, "supertype and subtype are each one group over a character class", fmt.Sprintf("the pattern has %d name groups over a character class where two (supertype, subtype) are expected", n))
}

func sortStrings(xs []string) {
	for i := 1; i < len(xs); i++ {
		for j := i; j > 0 && xs[j] < xs[j-1]; j-- {
			xs[j], xs[j-1] = xs[j-1], xs[j]
		}
	}
}

func c17R11(c *Ctx) { envRule(c, "what an accessor returns", "servitor/object", "servitor/mime") }
