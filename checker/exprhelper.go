package main

import (
	"fmt"
	"go/ast"
	"go/token"
	"go/types"
	"os"
	"sort"
	"strings"

	"golang.org/x/tools/go/packages"
)

// exprHelperRound: a new helper whose whole body is `return <expression>` is
// substituted at every call — wherever the call stands (inside a type
// assertion, an if-initialiser, an operand) — by that expression in
// parentheses, with the parameters replaced by the arguments. Conditions: one
// result, not recursive, not needed to satisfy an interface, not named in a
// test file, caller in the same package, and every argument (and the receiver)
// at every call is a simple operand (a name, a selector of names, a literal, an
// address of such): evaluating it later, inside the expression, reads the same
// value.
func exprHelperRound(pkgs []*packages.Package, overlay map[string][]byte, testIdents map[string]bool) (map[string][]byte, []string) {
	var log []string
	type helper struct {
		pkg  *packages.Package
		fd   *ast.FuncDecl
		obj  types.Object
		expr ast.Expr
	}
	helpers := map[types.Object]*helper{}
	moved := movedAnchorNames(pkgs)
	for _, pkg := range pkgs {
		if !isServitorPath(pkg.PkgPath) || len(pkg.Errors) > 0 {
			continue
		}
		for _, f := range pkg.Syntax {
			if strings.HasSuffix(pkg.Fset.File(f.Pos()).Name(), "_test.go") {
				continue
			}
			for _, d := range f.Decls {
				fd, ok := d.(*ast.FuncDecl)
				if !ok || fd.Body == nil || len(fd.Body.List) != 1 || fd.Type.TypeParams != nil {
					continue
				}
				ret, ok := fd.Body.List[0].(*ast.ReturnStmt)
				if !ok || len(ret.Results) != 1 {
					continue
				}
				if fd.Type.Results == nil {
					continue
				}
				if len(fd.Type.Results.List) != 1 || len(fd.Type.Results.List[0].Names) > 1 {
					// several results: only where the expression is one call whose results are
					// handed on as they are (a call may stand wherever the helper's call stood)
					if _, isCall := ret.Results[0].(*ast.CallExpr); !isCall {
						continue
					}
				}
				if anchorFuncs[funcKey(pkg.PkgPath, fd)] || testIdents[pkg.PkgPath+"\x00"+fd.Name.Name] || (moved[strings.ToLower(fd.Name.Name)] != "" && moved[strings.ToLower(fd.Name.Name)] != pkg.PkgPath) {
					continue
				}
				if fd.Recv != nil && interfaceMethodName(pkgs, fd.Name.Name) {
					continue
				}
				obj := pkg.TypesInfo.Defs[fd.Name]
				if obj == nil {
					continue
				}
				// no function literal, no use of itself, variadic not supported
				okBody := true
				ast.Inspect(ret.Results[0], func(n ast.Node) bool {
					switch x := n.(type) {
					case *ast.FuncLit:
						okBody = false
					case *ast.Ident:
						if originOf(pkg.TypesInfo.Uses[x]) == obj {
							okBody = false
						}
					}
					return true
				})
				if sig, ok := obj.Type().(*types.Signature); !ok || sig.Variadic() {
					okBody = false
				}
				if okBody {
					helpers[obj] = &helper{pkg, fd, obj, ret.Results[0]}
				}
			}
		}
	}
	if os.Getenv("SERVCHECK_DEBUG_NORM") != "" {
		for _, h := range helpers {
			fmt.Fprintln(os.Stderr, "expr helper candidate:", funcKey(h.pkg.PkgPath, h.fd))
		}
	}
	if len(helpers) == 0 {
		return nil, nil
	}
	out := map[string][]byte{}
	// every reference to a helper, to know when its declaration has become dead
	refCount := map[types.Object]int{}
	substituted := map[types.Object]int{}
	blockedAny := map[types.Object]bool{}
	for _, pkg := range pkgs {
		if !isServitorPath(pkg.PkgPath) {
			continue
		}
		for _, f := range pkg.Syntax {
			ast.Inspect(f, func(n ast.Node) bool {
				if id, ok := n.(*ast.Ident); ok {
					if h := helpers[originOf(pkg.TypesInfo.Uses[id])]; h != nil {
						refCount[h.obj]++
					}
				}
				return true
			})
		}
	}
	type fileEdit struct {
		lo, hi int
		text   string
		obj    types.Object
	}
	perFile := map[string][]fileEdit{}
	fileSrc := map[string][]byte{}
	for _, pkg := range pkgs {
		if !isServitorPath(pkg.PkgPath) || len(pkg.Errors) > 0 {
			continue
		}
		for _, f := range pkg.Syntax {
			fname := pkg.Fset.File(f.Pos()).Name()
			if strings.HasSuffix(fname, "_test.go") {
				continue
			}
			src := readSource(fname, overlay)
			off := func(p token.Pos) int { return pkg.Fset.Position(p).Offset }
			type edit = fileEdit
			var edits []edit
			blocked := blockedAny
			ast.Inspect(f, func(n ast.Node) bool {
				call, ok := n.(*ast.CallExpr)
				if !ok {
					return true
				}
				var id *ast.Ident
				var recvExpr ast.Expr
				switch fx := call.Fun.(type) {
				case *ast.Ident:
					id = fx
				case *ast.SelectorExpr:
					id = fx.Sel
					recvExpr = fx.X
				}
				if id == nil {
					return true
				}
				h := helpers[originOf(pkg.TypesInfo.Uses[id])]
				if h == nil {
					return true
				}
				// a qualified call from another package: only of a function, and only if
				// everything the expression names can be named from there (below)
				qual := ""
				if h.pkg != pkg {
					q := identOf(recvExpr)
					pn, isPkg := pkg.TypesInfo.Uses[q].(*types.PkgName)
					if h.fd.Recv != nil || q == nil || !isPkg || pn.Imported() != h.pkg.Types {
						blocked[h.obj] = true
						return true
					}
					qual = q.Name
					recvExpr = nil
				}
				// receiver
				subst := map[types.Object]string{}
				if h.fd.Recv != nil {
					if recvExpr == nil || !isSimpleOperand(recvExpr) {
						blocked[h.obj] = true
						return true
					}
					if sel := pkg.TypesInfo.Selections[call.Fun.(*ast.SelectorExpr)]; sel == nil || len(sel.Index()) != 1 {
						blocked[h.obj] = true
						return true
					}
					if len(h.fd.Recv.List) == 1 && len(h.fd.Recv.List[0].Names) == 1 {
						robj := h.pkg.TypesInfo.Defs[h.fd.Recv.List[0].Names[0]]
						text := string(src[off(recvExpr.Pos()):off(recvExpr.End())])
						// pointer/value adjustment: selectors and method calls on the receiver adjust themselves;
						// a bare use of the receiver needs the exact type
						sig := h.obj.Type().(*types.Signature)
						_, wantPtr := sig.Recv().Type().Underlying().(*types.Pointer)
						_, havePtr := pkg.TypesInfo.TypeOf(recvExpr).Underlying().(*types.Pointer)
						if wantPtr && !havePtr {
							text = "(&" + text + ")"
						} else if !wantPtr && havePtr {
							text = "(*" + text + ")"
						}
						if robj != nil {
							subst[robj] = text
						}
					}
				} else if recvExpr != nil {
					// a qualified call from another package: not supported
					blocked[h.obj] = true
					return true
				}
				// parameters
				ai := 0
				okArgs := true
				if h.fd.Type.Params != nil {
					for _, fl := range h.fd.Type.Params.List {
						names := fl.Names
						if len(names) == 0 {
							ai++
							continue
						}
						for _, nm := range names {
							if ai >= len(call.Args) {
								okArgs = false
								break
							}
							a := call.Args[ai]
							if !isSimpleOperand(a) && !forwardsInOrder(h.pkg.TypesInfo, h.fd, h.expr) {
								okArgs = false
							}
							if pobj := h.pkg.TypesInfo.Defs[nm]; pobj != nil {
								subst[pobj] = "(" + string(src[off(a.Pos()):off(a.End())]) + ")"
							}
							ai++
						}
					}
				}
				if !okArgs || ai != len(call.Args) || call.Ellipsis.IsValid() {
					blocked[h.obj] = true
					return true
				}
				// free names of the expression must mean the same here (same package: package-level names do,
				// unless shadowed by a local of the caller)
				hsrc := readSource(h.pkg.Fset.File(h.fd.Pos()).Name(), overlay)
				hoff := func(p token.Pos) int { return h.pkg.Fset.Position(p).Offset }
				type piece struct {
					lo, hi int
					text   string
				}
				var pieces []piece
				okNames := true
				selNames := map[*ast.Ident]bool{} // x.Sel: fields and methods, resolved through x
				ast.Inspect(h.expr, func(m ast.Node) bool {
					if se, ok := m.(*ast.SelectorExpr); ok {
						if _, isPkg := h.pkg.TypesInfo.Uses[identOf(se.X)].(*types.PkgName); !isPkg {
							selNames[se.Sel] = true
							if qual != "" && !se.Sel.IsExported() {
								okNames = false
							}
						} else {
							// pkg.Name: resolved through the package name, which is checked below
							selNames[se.Sel] = true
						}
					}
					if kv, ok := m.(*ast.KeyValueExpr); ok && qual != "" {
						if k := identOf(kv.Key); k != nil && !k.IsExported() {
							okNames = false
						}
					}
					return true
				})
				ast.Inspect(h.expr, func(m ast.Node) bool {
					eid, ok := m.(*ast.Ident)
					if !ok || selNames[eid] {
						return true
					}
					o := h.pkg.TypesInfo.Uses[eid]
					if o == nil {
						return true
					}
					if t, isSub := subst[o]; isSub {
						pieces = append(pieces, piece{hoff(eid.Pos()), hoff(eid.End()), t})
						return true
					}
					if v, isVar := o.(*types.Var); isVar && v.IsField() {
						return true
					}
					if _, isPkg := o.(*types.PkgName); isPkg {
						// the caller's file must import it under the same name
						found := false
						for _, im := range f.Imports {
							p := strings.Trim(im.Path.Value, "\"")
							name := ""
							if im.Name != nil {
								name = im.Name.Name
							} else if ip := pkg.Imports[p]; ip != nil {
								name = ip.Name
							}
							if p == o.(*types.PkgName).Imported().Path() && name == eid.Name {
								found = true
							}
						}
						if !found {
							okNames = false
						}
						return true
					}
					if o.Parent() == types.Universe {
						return true
					}
					if qual != "" {
						// a package-level name of the helper's package: exported, and qualified here
						if o.Parent() == h.pkg.Types.Scope() && eid.IsExported() {
							pieces = append(pieces, piece{hoff(eid.Pos()), hoff(eid.End()), qual + "." + eid.Name})
						} else {
							okNames = false
						}
						return true
					}
					if sc := pkg.Types.Scope().Innermost(call.Pos()); sc != nil {
						if _, found := sc.LookupParent(eid.Name, call.Pos()); found != o {
							okNames = false
						}
					}
					return true
				})
				if !okNames {
					blocked[h.obj] = true
					return true
				}
				sort.Slice(pieces, func(i, j int) bool { return pieces[i].lo > pieces[j].lo })
				text := string(hsrc[hoff(h.expr.Pos()):hoff(h.expr.End())])
				base := hoff(h.expr.Pos())
				for _, p := range pieces {
					text = text[:p.lo-base] + p.text + text[p.hi-base:]
				}
				edits = append(edits, edit{off(call.Pos()), off(call.End()), "(" + text + ")", h.obj})
				log = append(log, fmt.Sprintf("expression helper substituted: %s in %s", funcKey(h.pkg.PkgPath, h.fd), fname[strings.LastIndex(fname, "/")+1:]))
				return true
			})
			if len(edits) == 0 {
				continue
			}
			// nested calls: keep the outermost edits only (inner ones come in a later round)
			sort.Slice(edits, func(i, j int) bool {
				if edits[i].lo != edits[j].lo {
					return edits[i].lo < edits[j].lo
				}
				return edits[i].hi > edits[j].hi
			})
			var kept []edit
			end := -1
			for _, e := range edits {
				if e.lo >= end {
					kept = append(kept, e)
					end = e.hi
				}
			}
			for _, e := range kept {
				substituted[e.obj]++
			}
			perFile[fname] = append(perFile[fname], kept...)
			fileSrc[fname] = src
		}
	}
	// a helper all of whose references were substituted is dead: drop its declaration
	for _, h := range helpers {
		if blockedAny[h.obj] || refCount[h.obj] == 0 || substituted[h.obj] != refCount[h.obj] {
			continue
		}
		fname := h.pkg.Fset.File(h.fd.Pos()).Name()
		lo := h.pkg.Fset.Position(h.fd.Pos()).Offset
		if h.fd.Doc != nil {
			lo = h.pkg.Fset.Position(h.fd.Doc.Pos()).Offset
		}
		hi := h.pkg.Fset.Position(h.fd.End()).Offset
		// not if a substitution happens inside the declaration itself
		clash := false
		for _, e := range perFile[fname] {
			if e.lo >= lo && e.hi <= hi {
				clash = true
			}
		}
		if clash {
			continue
		}
		if _, ok := fileSrc[fname]; !ok {
			fileSrc[fname] = readSource(fname, overlay)
		}
		perFile[fname] = append(perFile[fname], fileEdit{lo, hi, "", h.obj})
		log = append(log, "dead expression helper removed: "+funcKey(h.pkg.PkgPath, h.fd))
	}
	for fname, es := range perFile {
		sort.Slice(es, func(i, j int) bool { return es[i].lo > es[j].lo })
		buf := append([]byte{}, fileSrc[fname]...)
		for _, e := range es {
			buf = append(buf[:e.lo], append([]byte(e.text), buf[e.hi:]...)...)
		}
		out[fname] = buf
	}
	// de-duplicate the log
	seen := map[string]bool{}
	var ulog []string
	for _, l := range log {
		if !seen[l] {
			seen[l] = true
			ulog = append(ulog, l)
		}
	}
	return out, ulog
}

func identOf(e ast.Expr) *ast.Ident {
	id, _ := e.(*ast.Ident)
	return id
}

// originOf: the declared object behind a method or field of an instantiated
// generic type (inside `func (h *History[T]) …` the methods and fields of h are
// those of an instantiation).
func originOf(o types.Object) types.Object {
	switch x := o.(type) {
	case *types.Func:
		return x.Origin()
	case *types.Var:
		return x.Origin()
	}
	return o
}

// forwardsInOrder: the expression of the helper uses every parameter exactly
// once, in the order of the parameter list, and apart from one outermost call
// contains no call, receive or function literal: then arguments of any shape
// can be put in the parameters' places without changing what is evaluated, or
// in which order.
func forwardsInOrder(info *types.Info, fd *ast.FuncDecl, expr ast.Expr) bool {
	var params []types.Object
	if fd.Recv != nil {
		return false
	}
	if fd.Type.Params != nil {
		for _, fl := range fd.Type.Params.List {
			for _, nm := range fl.Names {
				params = append(params, info.Defs[nm])
			}
		}
	}
	next := 0
	ok := true
	depth := 0
	ast.Inspect(expr, func(n ast.Node) bool {
		switch x := n.(type) {
		case *ast.CallExpr:
			depth++
			if depth > 1 {
				// conversions are fine, other calls are not
				if tv, isT := info.Types[x.Fun]; !isT || !tv.IsType() {
					ok = false
				}
			}
		case *ast.FuncLit:
			ok = false
		case *ast.UnaryExpr:
			if x.Op == token.ARROW {
				ok = false
			}
		case *ast.Ident:
			o := info.Uses[x]
			for i, p := range params {
				if o != nil && o == p {
					if i != next {
						ok = false
					}
					next++
				}
			}
		}
		return ok
	})
	return ok && next == len(params)
}
