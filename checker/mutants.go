package main

// Mutation operators for the rule self-test of the thorough tier. Each one is
// a single-site source rewrite of the *current* tree (applied in memory through
// the go/packages overlay, never written to disk) that breaks one rule instance
// while still type-checking. The rule named in Expect must report it. An
// operator whose Old text no longer occurs is skipped and listed.

type mutant struct {
	ID     string
	Prop   string
	File   string // relative to the repository root
	Old    string
	New    string
	Expect string // rule id (prefix) that must report a violation
}

var mutants = []mutant{
	// operators added with the rules that the seeded changes of round 4 motivated
	{"C04-server-name-override", "C04", "jtp/jtp.go", "tls.DialWithDialer(dialer, \"tcp\", hostport, nil)", "tls.DialWithDialer(dialer, \"tcp\", hostport, &tls.Config{ServerName: strings.TrimSuffix(link.Hostname(), \".\")})", "C04.R3"},
	{"C05-dialer-other-timeout", "C05", "jtp/jtp.go", "\tTimeout: config.Parsed.Network.Timeout,", "\tTimeout: config.Parsed.Network.Timeout / 4,", "C05.R1"},
	{"C05-fields-unguarded", "C05", "jtp/jtp.go", "\tif len(matches) != 2 {\n\t\treturn \"\", errors.New(\"received invalid status line: \" + text)\n\t}\n\n\treturn matches[1], nil", "\tif len(matches) != 2 {\n\t\treturn \"\", errors.New(\"received invalid status line: \" + text)\n\t}\n\n\treturn strings.Fields(matches[1])[0], nil", "C05.R8"},
	{"C06-fields-unguarded", "C06", "gemtext/gemtext.go", "\t\t\turi := match[1]", "\t\t\turi := strings.Fields(match[1] + \" \")[0]", "C06.K9"},
	{"C08-callback-writes-captured", "C08", "pub/post.go", "\tconstructComment := func(input any, source *url.URL) Tangible {\n\t\tcomment, err := NewPost(input, source)", "\tconstructComment := func(input any, source *url.URL) Tangible {\n\t\tvar comment *Post\n\t\tcomment, err = NewPost(input, source)", "C08.R5"},
	{"C09-creators-loop-break", "C09", "pub/post.go", "\t\t\tif asActor.Identifier() == nil && id == nil {\n\t\t\t\tcontinue\n\t\t\t}", "\t\t\tif asActor.Identifier() == nil && id == nil {\n\t\t\t\tbreak\n\t\t\t}", "C09.R4"},
	{"C16-height-two-ignored", "C16", "ui/ui.go", "\tif s.width == width && s.height == height {\n\t\treturn\n\t}", "\tif s.width == width && s.height == height || height <= 2 {\n\t\treturn\n\t}", "C16.R5"},
	// operators added with the rules that the seeded changes of round 3 motivated
	{"C01-unescape-after-scrub", "C01", "pub/link.go", "\t\t\treturn l.uri.String(), nil\n\t\t} else {\n\t\t\treturn \"\", l.uriErr", "\t\t\tdecoded, _ := url.PathUnescape(l.uri.String())\n\t\t\treturn decoded, nil\n\t\t} else {\n\t\t\treturn \"\", l.uriErr", "C01.R1"},
	{"C01-scrub-fast-path", "C01", "ansi/ansi.go", "func Scrub(text string) string {\n", "func Scrub(text string) string {\n\tif !strings.ContainsAny(text, \"\\x1b\\x07\\x00\") {\n\t\treturn text\n\t}\n", "C01.R4"},
	{"C17-scrub-keeps-c1", "C17", "ansi/ansi.go", "if input != '\\n' && unicode.IsControl(input) {", "if input != '\\n' && input < 0x80 && unicode.IsControl(input) {", "C17.R6"},
	{"C03-inflight-key-no-query", "C03", "client/client.go", "uriString := uri.String()", "uriString := uri.Scheme + \"://\" + uri.Host + uri.EscapedPath()", "C03.R8"},
	{"C04-location-fallback-literal", "C04", "jtp/jtp.go", "\treference, err := url.Parse(matches[1])\n\tif err != nil {\n\t\treturn nil, true, err\n\t}", "\treference, err := url.Parse(matches[1])\n\tif err != nil {\n\t\treference = &url.URL{Path: \"/\", RawQuery: matches[1]}\n\t}", "C04.R4"},
	{"C05-semaphore-leak", "C05", "client/client.go", "func FetchURL(uri *url.URL) (object.Object, *url.URL, error) {\n\turiString := uri.String()\n\tb, _, _ := group.Do(uriString, func() (any, error) {", "var slots = make(chan struct{}, 8)\n\nfunc FetchURL(uri *url.URL) (object.Object, *url.URL, error) {\n\turiString := uri.String()\n\tb, _, _ := group.Do(uriString, func() (any, error) {\n\t\tslots <- struct{}{}", "C05.R7"},
	{"C05-package-level-memo", "C05", "jtp/jtp.go", "\tif link.Scheme != \"https\" {\n\t\treturn nil, nil, errors.New(link.Scheme + \" is not supported in requests, only https\")\n\t}", "\tif link.Scheme != \"https\" {\n\t\tmediaTypeRegexp = nil\n\t\treturn nil, nil, errors.New(link.Scheme + \" is not supported in requests, only https\")\n\t}", "C05.R6"},
	{"C07-shared-page", "C07", "ui/ui.go", "\tcase pub.Tangible:\n\t\t_, frontier := narrowed.Parents(0)\n\t\ts.h.Add(&Page{\n\t\t\tfeed:     feed.Create(narrowed),\n\t\t\tchildren: narrowed.Children(),\n\t\t\tfrontier: frontier,\n\t\t})", "\tcase pub.Tangible:\n\t\ts.h.Add(s.h.Current())", "C07.R6"},
	{"C09-remembered-collection", "C09", "pub/collection.go", "func NewCollectionFromObject(o object.Object, id *url.URL, construct func(any, *url.URL) Tangible) (*Collection, error) {\n\tc := &Collection{}", "var lastCollection *Collection\n\nfunc NewCollectionFromObject(o object.Object, id *url.URL, construct func(any, *url.URL) Tangible) (*Collection, error) {\n\tif lastCollection != nil && id == nil {\n\t\treturn lastCollection, nil\n\t}\n\tc := &Collection{}", "C09.R3"},
	{"C10-harvest-remembers", "C10", "pub/collection.go", "func (c *Collection) Harvest(amount uint, startingPoint uint) ([]Tangible, Container, uint) {\n", "func (c *Collection) Harvest(amount uint, startingPoint uint) ([]Tangible, Container, uint) {\n\tc.size = uint64(amount)\n", "C10.R6"},
	{"C11-sources-in-arrival-order", "C11", "splicer/splicer.go", "\t\t\tcase *pub.Collection:\n\t\t\t\ts[i].page = narrowed", "\t\t\tcase *pub.Collection:\n\t\t\t\ts[len(inputs)-1-i].page = narrowed", "C11.R8"},
	{"C17-getany-bypasses-getprimitive", "C17", "object/object.go", "\treturn getPrimitive[any](o, key)", "\tif value, ok := o[key]; ok {\n\t\treturn value, nil\n\t}\n\treturn getPrimitive[any](o, key)", "C17.R4"},
	{"C19-timeout-bound-removed", "C19", "config/config.go", "\tif config.Network.Timeout > math.MaxInt64/time.Second {", "\tif config.Network.Timeout > math.MaxInt64 {", "C19.R4"},
	{"C20-hook-filtered", "C20", "config/config.go", "\tif len(config.Media.Hook) == 0 {", "\tconfig.Media.Hook = append([]string{}, config.Media.Hook...)\n\tif len(config.Media.Hook) == 0 {", "C20.R6"},
	// operators added with the rules that the seeded changes of round 2 motivated
	{"C03-cache-key-components", "C03", "jtp/jtp.go", "key := link.String() + \" \" + accept", "key := link.Host + link.RequestURI() + \" \" + accept", "C03.R6"},
	{"C03-readline-fragments", "C03", "jtp/jtp.go", "func findLocation(buf *bufio.Reader, baseLink *url.URL) (*url.URL, error) {\n\tfor {\n\t\tline, err := buf.ReadString('\\n')", "func findLocation(buf *bufio.Reader, baseLink *url.URL) (*url.URL, error) {\n\tfor {\n\t\traw, _, err := buf.ReadLine()\n\t\tline := string(raw) + \"\\n\"", "C03.R7"},
	{"C05-line-error-ignored", "C05", "jtp/jtp.go", "func validateHeaders(buf *bufio.Reader, tolerated []string) error {\n\tcontentTypeValidated := false\n\tfor {\n\t\tline, err := buf.ReadString('\\n')\n\t\tif err != nil {", "func validateHeaders(buf *bufio.Reader, tolerated []string) error {\n\tcontentTypeValidated := false\n\tfor {\n\t\tline, err := buf.ReadString('\\n')\n\t\tif err != nil && line == \"\" {", "C05.R5"},
	{"C06-id-deref-unguarded", "C06", "pub/actor.go", "if a.id != nil && !errors.Is(a.handleErr, object.ErrKeyNotPresent) {", "if !errors.Is(a.handleErr, object.ErrKeyNotPresent) {", "C06.K8"},
	{"C08-item-written-after-construction", "C08", "pub/post.go", "\tif p.parentErr != nil {\n\t\treturn []Tangible{NewFailure(p.parentErr)}, nil\n\t}", "\tif p.parentErr != nil {\n\t\tfailure := NewFailure(p.parentErr)\n\t\tp.parentObject = nil\n\t\treturn []Tangible{failure}, nil\n\t}", "C08.R8"},
	{"C10-page-falls-back-to-first", "C10", "pub/collection.go", "\t} else {\n\t\tc.next, c.nextErr = o.GetAny(\"next\")\n\t}", "\t} else {\n\t\tc.next, c.nextErr = o.GetAny(\"next\")\n\t\tif c.nextErr != nil {\n\t\t\tc.next, c.nextErr = o.GetAny(\"first\")\n\t\t}\n\t}", "C10.R5"},
	{"C11-ties-to-last", "C11", "splicer/splicer.go", "if candidateElement.Timestamp().After(mostRecent.Timestamp()) {", "if !candidateElement.Timestamp().Before(mostRecent.Timestamp()) {", "C11.R7"},
	{"C11-first-head-not-taken", "C11", "splicer/splicer.go", "\t\tif mostRecent == nil {\n\t\t\tmostRecent = candidateElement\n\t\t\tmostRecentIndex = i\n\t\t\tcontinue\n\t\t}", "\t\tif mostRecent == nil && i == 0 {\n\t\t\tmostRecent = candidateElement\n\t\t\tmostRecentIndex = i\n\t\t\tcontinue\n\t\t}\n\t\tif mostRecent == nil {\n\t\t\tcontinue\n\t\t}", "C11.R7"},
	{"C11-wrong-source-popped", "C11", "splicer/splicer.go", "\t\tif candidateElement.Timestamp().After(mostRecent.Timestamp()) {\n\t\t\tmostRecent = candidateElement\n\t\t\tmostRecentIndex = i", "\t\tif candidateElement.Timestamp().After(mostRecent.Timestamp()) {\n\t\t\tmostRecent = candidateElement\n\t\t\tmostRecentIndex = i - i", "C11.R7"},
	{"C19-sscanf-components", "C19", "config/config.go", "r, err := strconv.ParseUint(text[1:3], 16, 0)\n\tif err != nil {", "var r uint64\n\t_, err := fmt.Sscanf(text[1:3], \"%x\", &r)\n\tif err != nil {", "C19.R2"},
	// operators added with the rules that the seeded changes of round 1 motivated
	{"C02-cache-wrong-source", "C02", "jtp/jtp.go", "b.item, b.source, b.err = Get(location, accept, tolerated, maxRedirects-1)", "b.item, _, b.err = Get(location, accept, tolerated, maxRedirects-1)\n\t\tb.source = link", "C02.R4"},
	{"C03-header-unanchored", "C03", "jtp/jtp.go", "`^(?i:location):[ \\t\\r]*(.*?)[ \\t\\r]*\\n$`", "`(?i:location):[ \\t\\r]*(.*?)[ \\t\\r]*\\n$`", "C03.R5"},
	{"C07-backspace-bytes", "C07", "ui/ui.go", "\t\tbufferRunes := []rune(s.buffer)\n\t\ts.buffer = string(bufferRunes[:len(bufferRunes)-1])", "\t\ts.buffer = s.buffer[:len(s.buffer)-1]", "C07.R5"},
	{"C11-in-place-pop", "C11", "splicer/splicer.go", "s[mostRecentIndex].elements = s[mostRecentIndex].elements[1:]", "s[mostRecentIndex].elements = s[mostRecentIndex].elements[:copy(s[mostRecentIndex].elements, s[mostRecentIndex].elements[1:])]", "C11.R5"},
	{"C11-replenish-shortcut", "C11", "splicer/splicer.go", "func (s Splicer) replenish(amount int) {\n\tvar wg sync.WaitGroup", "func (s Splicer) replenish(amount int) {\n\tif len(s) > 0 && len(s[0].elements) >= amount {\n\t\treturn\n\t}\n\tvar wg sync.WaitGroup", "C11.R6"},
	{"C12-append-width-guard", "C12", "hypertext/hypertext.go", "\t\t*ctx.links = append(*ctx.links, link)\n\t\tctx.width -= 2\n\t\twrapped := situationalWrap(alt, ctx)\n\t\treturn block(style.LinkBlock(wrapped, len(*ctx.links)))\n\tcase \"iframe\":", "\t\tif ctx.width < 3 {\n\t\t\treturn block(alt)\n\t\t}\n\t\t*ctx.links = append(*ctx.links, link)\n\t\tctx.width -= 2\n\t\twrapped := situationalWrap(alt, ctx)\n\t\treturn block(style.LinkBlock(wrapped, len(*ctx.links)))\n\tcase \"iframe\":", "C12.R5"},
	{"C17-null-not-absent", "C17", "object/object.go", "if value, ok := o[key]; !ok || value == nil {", "if value, ok := o[key]; !ok {", "C17.R4"},
	{"C19-cache-2q", "C19", "jtp/jtp.go", "lru.New[string, bundle](config.Parsed.Network.CacheSize)", "lru.New2Q[string, bundle](config.Parsed.Network.CacheSize)", "C19.R3"},
	{"C19-signed-parse", "C19", "config/config.go", "r, err := strconv.ParseUint(text[1:3], 16, 0)", "r, err := strconv.ParseInt(text[1:3], 16, 0)", "C19.R2"},
	// C18
	{"C18-back-unguarded", "C18", "history/history.go", "\tif h.index > 0 {\n\t\th.index -= 1", "\tif h.index >= 0 {\n\t\th.index -= 1", "C18.R1"},
	{"C18-forward-past-end", "C18", "history/history.go", "if len(h.elements) > h.index+1 {", "if len(h.elements) >= h.index+1 {", "C18.R1"},
	{"C18-add-keeps-forward-entries", "C18", "history/history.go", "h.elements = append(h.elements[:h.index+1], element)", "h.elements = append(h.elements, element)", "C18.R1"},
	{"C18-add-drops-current", "C18", "history/history.go", "h.elements = append(h.elements[:h.index+1], element)", "h.elements = append(h.elements[:h.index], element)", "C18.R1"},
	{"C18-moveup-wrong-guard", "C18", "feed/feed.go", "\tif f.Contains(-1) {\n\t\tf.index -= 1", "\tif f.Contains(1) {\n\t\tf.index -= 1", "C18.R2"},
	{"C18-contains-inclusive", "C18", "feed/feed.go", "return f.index+offset < f.upperBound && f.index+offset > f.lowerBound", "return f.index+offset <= f.upperBound && f.index+offset > f.lowerBound", "C18.R2"},
	{"C18-append-overwrites-last", "C18", "feed/feed.go", "f.feed[f.upperBound+i] = element", "f.feed[f.upperBound+i-1] = element", "C18.R3"},
	{"C18-prepend-bound-short", "C18", "feed/feed.go", "f.lowerBound -= len(input)", "f.lowerBound -= len(input) - 1", "C18.R3"},
	{"C18-parent-includes-opened", "C18", "feed/feed.go", "return f.index+offset < 0", "return f.index+offset <= 0", "C18.R4"},
	{"C18-add-clears-current", "C18", "history/history.go", "\th.elements = append(h.elements[:h.index+1], element)\n\th.index += 1", "\tfor i := h.index; i < len(h.elements); i++ {\n\t\th.elements[i] = element\n\t}\n\th.elements = append(h.elements[:h.index+1], element)\n\th.index += 1", "C18.R1"},
	{"C18-list-constructor-falls-back", "C18", "feed/feed.go", "func CreateAndAppend(input []pub.Tangible) *Feed {\n", "func CreateAndAppend(input []pub.Tangible) *Feed {\n\tif len(input) == 0 {\n\t\treturn CreateEmpty()\n\t}\n", "C18.R4"},
	{"C18-history-copied-and-restored", "C18", "ui/ui.go", "func (s *State) switchTo(item any) {\n", "func (s *State) switchTo(item any) {\n\tprevious := s.h\n\tdefer func() {\n\t\tif s.h.Current() == nil {\n\t\t\ts.h = previous\n\t\t}\n\t}()\n", "C18.R1"},
	{"C18-get-off-by-one", "C18", "feed/feed.go", "return f.feed[f.index+offset]\n}\n\nfunc (f *Feed) Current", "return f.feed[f.index+offset+1]\n}\n\nfunc (f *Feed) Current", "C18.R4"},
	// C16
	{"C16-spare-row-unfixed", "C16", "ansi/ansi.go", "\tif topBufferSize == 0 {\n", "\tif topBufferSize == 0 && prefixHeight == 0 {\n", "C16.R1"},
	{"C16-odd-row-dropped", "C16", "ansi/ansi.go", "bottomBufferSize := topBufferSize + totalBufferSize%2", "bottomBufferSize := topBufferSize", "C16.R1"},
	{"C16-not-centred", "C16", "ansi/ansi.go", "topBufferSize := totalBufferSize / 2\n\tbottomBufferSize := topBufferSize + totalBufferSize%2", "topBufferSize := totalBufferSize / 4\n\tbottomBufferSize := totalBufferSize - topBufferSize", "C16.R1"},
	{"C16-cut-centre-off-by-one", "C16", "ansi/ansi.go", "return strings.Join(strings.Split(centered, \"\\n\")[:height], \"\\n\")", "return strings.Join(strings.Split(centered, \"\\n\")[:height-1], \"\\n\")", "C16.R1"},
	{"C16-status-line-appended", "C16", "ansi/ansi.go", "return original[:lastIndex] + \"\\n\" + replacement", "return original + \"\\n\" + replacement", "C16.R2"},
	{"C16-frame-for-other-height", "C16", "ui/ui.go", "output := ansi.CenterVertically(top, center, bottom, uint(s.height))", "output := ansi.CenterVertically(top, center, bottom, uint(s.height-1))", "C16.R3"},
	{"C16-frame-written-after-unlock", "C16", "ui/ui.go", "\t\t\tpage.loadingUp = false\n\t\t\ts.output(s.view())\n\t\t\ts.m.Unlock()", "\t\t\tpage.loadingUp = false\n\t\t\tframe := s.view()\n\t\t\ts.m.Unlock()\n\t\t\ts.output(frame)", "C16.R4"},
	{"C16-raw-terminal-write", "C16", "ui/ui.go", "\ts.mode = loading\n\ts.buffer = \"\"\n\ts.output(s.view())", "\ts.mode = loading\n\ts.buffer = \"\"\n\ts.output(\"Loading\\n\")", "C16.R4"},
	// C01
	{"C01-scrub-getstring", "C01", "object/object.go", "value = ansi.Scrub(value)", "value = ansi.Squash(value)", "C01.R1"},
	{"C01-scrub-problem", "C01", "style/style.go", "Red(ansi.Scrub(issue.Error()))", "Red(issue.Error())", "C01.R1"},
	{"C01-scrub-textnode", "C01", "hypertext/hypertext.go", "text := ansi.Scrub(node.Data)", "text := node.Data", "C01.R1"},
	{"C01-scrub-attribute", "C01", "hypertext/hypertext.go", "return ansi.Scrub(attribute.Val)", "return attribute.Val", "C01.R1"},
	{"C01-footer-raw", "C01", "ui/ui.go", "style.Highlight(ansi.SetLength(footer, s.width, \"\\u2026\"))", "style.Highlight(strings.ReplaceAll(footer, \"\\n\", \" \"))", "C01.R1"},
	{"C01-sgr-from-content", "C01", "style/style.go", "func Color(text string) string {\n\treturn foreground(text, config.Parsed.Style.Colors.Primary)", "func Color(text string) string {\n\treturn foreground(text, config.Parsed.Style.Colors.Primary+text[:0])", "C01.R2"},
	{"C01-esc-literal", "C01", "style/style.go", "return \"‣ \" + ansi.Indent(Link(text, number), \"  \", false)", "return \"\\x1b[1m‣\\x1b[0m \" + ansi.Indent(Link(text, number), \"  \", false)", "C01.R3"},
	// C02
	{"C02-drop-host-compare", "C02", "client/client.go", "(source == nil || source.Host != id.Host || len(obj) <= 2)", "(source == nil || len(obj) <= 2)", "C02.R3"},
	{"C02-drop-forged-check", "C02", "client/client.go", "if id != nil && source.Host != id.Host {\n\t\t\treturn nil, nil, errors.New(\"received response with forged identifier\")\n\t\t}", "", "C02.R3"},
	{"C02-stale-source", "C02", "client/client.go", "obj, source, err = FetchURL(id)", "obj, _, err = FetchURL(id)", "C02.R3"},
	{"C02-wrong-source-arg", "C02", "pub/post.go", "p.creators = getActors(o, \"attributedTo\", p.id)", "p.creators = getActors(o, \"attributedTo\", p.parentIdentifier)", "C02.R2"},
	{"C02-unvalidated-id", "C02", "pub/common.go", "fetched, postErr = NewPostFromObject(o, id)", "fetched, postErr = NewPostFromObject(o, source)", "C02.R1"},
	{"C02-bundle-mixup", "C02", "client/client.go", "return b.(bundle).item, b.(bundle).source, b.(bundle).err", "return b.(bundle).item, uri, b.(bundle).err", "C02.R5"},
	// C03
	{"C03-status-204", "C03", "jtp/jtp.go", "status != \"203\"", "status != \"204\"", "C03.R1"},
	{"C03-headers-unchecked", "C03", "jtp/jtp.go", "err = validateHeaders(buf, tolerated)\n\tif err != nil {", "err = validateHeaders(buf, tolerated)\n\tif err != nil && len(tolerated) == 0 {", "C03.R1"},
	{"C03-decode-unchecked", "C03", "jtp/jtp.go", "err = json.NewDecoder(buf).Decode(&dictionary)\n\tif err != nil {", "err = json.NewDecoder(buf).Decode(&dictionary)\n\tif err != nil && dictionary == nil {", "C03.R1"},
	{"C03-budget-not-decreased", "C03", "jtp/jtp.go", "Get(location, accept, tolerated, maxRedirects-1)", "Get(location, accept, tolerated, maxRedirects)", "C03.R2"},
	{"C03-location-base", "C03", "jtp/jtp.go", "return baseLink.ResolveReference(reference), true, nil", "return reference, true, nil", "C03.R3"},
	{"C03-any-content-type", "C03", "jtp/jtp.go", "\t\t} else {\n\t\t\treturn errors.New(\"response is of invalid type \" + mediaType.Essence)\n\t\t}", "\t\t}", "C03.R4"},
	{"C03-missing-content-type", "C03", "jtp/jtp.go", "if !contentTypeValidated {", "if !contentTypeValidated && len(tolerated) == 0 {", "C03.R4"},
	{"C03-unanchored-status", "C03", "jtp/jtp.go", "`^HTTP/1\\.[0-9] ([0-9]{3}).*\\n$`", "`HTTP/1\\.[0-9] ([0-9]{3}).*\\n$`", "C03.R5"},
	{"C03-cache-key-url-only", "C03", "jtp/jtp.go", "key := link.String() + \" \" + accept + \" \" + strings.Join(tolerated, \",\")", "key := link.String() + strings.Repeat(\" \", 0)", "C03.R6"},
	{"C03-cache-errors", "C03", "jtp/jtp.go", "if b.err == nil {\n\t\t\tcache.Add(key, b)\n\t\t}", "cache.Add(key, b)", "C03.R6"},
	{"C03-source-wrong", "C03", "jtp/jtp.go", "return dictionary, link, nil", "return dictionary, nil, nil", "C03.R1"},
	// C04
	{"C04-extra-header", "C04", "jtp/jtp.go", "\"Accept: \" + accept + \"\\r\\n\" +", "\"Accept: \" + accept + \"\\r\\n\" + \"User-Agent: servitor\\r\\n\" +", "C04.R2"},
	{"C04-host-from-path", "C04", "jtp/jtp.go", "\"Host: \" + link.Host + \"\\r\\n\" +", "\"Host: \" + link.Hostname() + \"\\r\\n\" +", "C04.R2"},
	{"C04-insecure", "C04", "jtp/jtp.go", "tls.DialWithDialer(dialer, \"tcp\", hostport, nil)", "tls.DialWithDialer(dialer, \"tcp\", hostport, &tls.Config{InsecureSkipVerify: true})", "C04.R3"},
	{"C04-http-allowed", "C04", "jtp/jtp.go", "if link.Scheme != \"https\" {", "if link.Scheme != \"https\" && link.Scheme != \"http\" {", "C04.R3"},
	{"C04-raw-query", "C04", "client/client.go", "RawQuery: (url.Values{\n\t\t\t\"resource\": []string{\"acct:\" + account + \"@\" + domain},\n\t\t}).Encode(),", "RawQuery: \"resource=acct:\" + account + \"@\" + domain,", "C04.R4"},
	{"C04-second-write", "C04", "jtp/jtp.go", "buf := bufio.NewReader(connection)", "connection.Write([]byte(\"\\r\\n\"))\n\tbuf := bufio.NewReader(connection)", "C04.R1"},
	// C05
	{"C05-no-deadline", "C05", "jtp/jtp.go", "err = connection.SetDeadline(time.Now().Add(config.Parsed.Network.Timeout))", "err = connection.SetDeadline(time.Time{})", "C05.R1"},
	{"C05-read-deadline-only", "C05", "jtp/jtp.go", "err = connection.SetDeadline(time.Now().Add(config.Parsed.Network.Timeout))", "err = connection.SetReadDeadline(time.Now().Add(config.Parsed.Network.Timeout))", "C05.R1"},
	{"C05-drop-status-error", "C05", "jtp/jtp.go", "status, err := parseStatusLine(statusLine)\n\tif err != nil {\n\t\treturn nil, nil, errors.Join(err, connection.Close())\n\t}", "status, _ := parseStatusLine(statusLine)", "C05.R2"},
	{"C05-use-before-check", "C05", "pub/actor.go", "o, id, err := client.FetchUnknown(input, source)\n\tif err != nil {\n\t\treturn nil, err\n\t}\n\treturn NewActorFromObject(o, id)", "o, id, _ := client.FetchUnknown(input, source)\n\treturn NewActorFromObject(o, id)", "C05.R2"},
	{"C05-failure-nil", "C05", "pub/common.go", "\t} else if err != nil {\n\t\treturn []Tangible{NewFailure(err)}\n\t}", "\t} else {\n\t\treturn []Tangible{NewFailure(err)}\n\t}", "C05.R4"},
	// C06
	{"C06-hr-unclamped", "C06", "hypertext/hypertext.go", "return block(strings.Repeat(\"\\u23AF\", length))", "return block(strings.Repeat(\"\\u23AF\", ctx.width))", "C06.K3"},
	{"C06-selectlink-lower", "C06", "pub/post.go", "\tif input < 0 {\n\t\treturn \"\", nil, false\n\t}\n", "", "C06.K3"},
	{"C06-assert-no-ok", "C06", "pub/link.go", "asMap, ok := input.(map[string]any)\n\tif !ok {\n\t\treturn nil, fmt.Errorf(\"can't turn non-object %T into Link\", input)\n\t}", "asMap := input.(map[string]any)", "C06.K1"},
	{"C06-pair-unguarded", "C06", "pub/post.go", "\tif p.bodyErr != nil {\n\t\treturn ansi.Wrap(style.Problem(p.bodyErr), width), true\n\t}\n", "", "C06.K2"},
	{"C06-match-index", "C06", "mime/mime.go", "if len(matches) != 4 {", "if len(matches) < 3 {", "C06.K4"},
	{"C06-activity-kind", "C06", "pub/activity.go", "\"Create\", \"Announce\", \"Dislike\", \"Like\",", "\"Create\", \"Announce\", \"Dislike\", \"Like\", \"Follow\",", "C06.K5"},
	{"C06-parents-recursion", "C06", "pub/post.go", "parent.Parents(quantity - 1)", "parent.Parents(quantity)", "C06.K7"},
	// C07
	{"C07-swap-jk", "C07", "ui/ui.go", "case 'k': // up\n\t\ts.h.Current().feed.MoveUp()", "case 'k': // up\n\t\ts.h.Current().feed.MoveDown()", "C07.R1"},
	{"C07-drop-key", "C07", "ui/ui.go", "case 'g': // return to OP\n\t\ts.h.Current().feed.MoveToCenter()\n", "", "C07.R1"},
	{"C07-nil-current", "C07", "ui/ui.go", "if current := s.h.Current().feed.Current(); current != nil {\n\t\t\ts.switchTo(current)\n\t\t}", "s.switchTo(s.h.Current().feed.Current())", "C07.R3"},
	{"C07-atoi-panic", "C07", "ui/ui.go", "if err != nil {\n\t\t\t\ts.buffer = \"\"\n\t\t\t\ts.mode = normal\n\t\t\t\ts.output(s.view())\n\t\t\t\treturn\n\t\t\t}\n\t\t\t/* An empty page", "if err != nil {\n\t\t\t\tpanic(err)\n\t\t\t}\n\t\t\t/* An empty page", "C07.R2"},
	{"C07-new-mode", "C07", "ui/ui.go", "\ts.mode = opening\n\ts.buffer = link", "\ts.mode = problem + 1\n\ts.buffer = link", "C07.R2"},
	{"C07-get-unguarded", "C07", "ui/ui.go", "\t\tif !s.h.Current().feed.Contains(i) {\n\t\t\tcontinue\n\t\t}\n", "", "C07.R2"},
	{"C07-loading-ignored", "C07", "ui/ui.go", "\tif s.mode == loading {\n\t\treturn\n\t}\n\n\tif input == escapeKey {", "\tif input == escapeKey {", "C07.R4"},
	// C08
	{"C08-openfeed-unlocked", "C08", "ui/ui.go", "result := splicer.NewSplicer(inputs)\n\t\ts.m.Lock()", "result := splicer.NewSplicer(inputs)", "C08.R1"},
	{"C08-unlock-early", "C08", "ui/ui.go", "\t\t\tpage.loadingUp = false\n\t\t\ts.output(s.view())\n\t\t\ts.m.Unlock()", "\t\t\tpage.loadingUp = false\n\t\t\ts.m.Unlock()\n\t\t\ts.output(s.view())", "C08.R1"},
	{"C08-flag-not-set", "C08", "ui/ui.go", "\t\tpage.loadingDown = true\n", "", "C08.R2"},
	{"C08-return-locked", "C08", "ui/ui.go", "\tif s.width == width && s.height == height {\n\t\treturn\n\t}", "\tif s.width == width && s.height == height {\n\t\ts.m.Lock()\n\t\treturn\n\t}", "C08.R"},
	{"C08-relock", "C08", "ui/ui.go", "func (s *State) loadSurroundings() {\n\tpage := s.h.Current()", "func (s *State) loadSurroundings() {\n\ts.m.Lock()\n\tdefer s.m.Unlock()\n\tpage := s.h.Current()", "C08.R4"},
	{"C08-shared-index", "C08", "pub/common.go", "\t\twg.Add(1)\n\t\ti := i\n\t\tgo func() {\n\t\t\tfetched, err := NewActor(list[i], source)", "\t\twg.Add(1)\n\t\tgo func() {\n\t\t\tfetched, err := NewActor(list[i], source)", "C08.R5"},
	{"C08-missing-wait", "C08", "pub/activity.go", "\twg.Wait()\n\n\treturn a, nil", "\treturn a, nil", "C08.R5"},
	{"C08-sibling-read", "C08", "pub/post.go", "go func() { p.recipients = getActors(o, \"audience\", p.id); wg.Done() }()", "go func() { p.recipients = append(getActors(o, \"audience\", p.id), p.creators...); wg.Done() }()", "C08.R5"},
	{"C08-config-write", "C08", "ui/ui.go", "\tcontext := config.Parsed.Network.Context\n", "\tcontext := config.Parsed.Network.Context\n\tconfig.Parsed.Network.Context = context\n", "C08.R6"},
	{"C08-doc-mutation", "C08", "pub/post.go", "\tp := &Post{}\n\tp.id = id", "\tp := &Post{}\n\to[\"seen\"] = true\n\tp.id = id", "C08.R6"},
	// C09
	{"C09-drop-actor-compare", "C09", "pub/actor.go", "if activity.ActorIdentifier() == nil || activity.ActorIdentifier().String() != id.String() {", "if activity.ActorIdentifier() == nil {", "C09.R1"},
	{"C09-host-only", "C09", "pub/post.go", "comment.ParentIdentifier().String() != id.String()", "comment.ParentIdentifier().Host != id.Host", "C09.R2"},
	{"C09-drop-silently", "C09", "pub/post.go", "return NewFailure(errors.New(\"comment does not reference this parent\"))", "return nil", "C09.R2"},
	{"C09-wrong-gatekeeper", "C09", "pub/post.go", "getCollection(o, \"comments\", p.id, constructComment)", "getCollection(o, \"comments\", p.id, NewTangible)", "C09.R3"},
	{"C09-creators-lenient", "C09", "pub/post.go", "if (asActor.Identifier() == nil || id == nil) || asActor.Identifier().Host != id.Host {", "if asActor.Identifier() != nil && id != nil && asActor.Identifier().Host != id.Host {", "C09.R4"},
	{"C09-accessor-unguarded", "C09", "pub/post.go", "func (p *Post) ParentIdentifier() *url.URL {\n\tif p.parentErr != nil {\n\t\treturn nil\n\t}", "func (p *Post) ParentIdentifier() *url.URL {", "C09.R5"},
	// C10
	{"C10-no-reset", "C10", "pub/collection.go", "\t} else {\n\t\t/* Only consecutive empty pages count */\n\t\temptyCount = 0\n\t}", "\t}", "C10.R2"},
	{"C10-threshold-off", "C10", "pub/collection.go", "if emptyCount > 3 {", "if emptyCount > 3 && amount == 0 {", "C10.R1"},
	{"C10-counter-constant", "C10", "pub/collection.go", "next.harvestWithEmptyCount(amount-amountFromThisPage, 0, emptyCount)", "next.harvestWithEmptyCount(amount-amountFromThisPage, 0, 0)", "C10.R1"},
	{"C10-slot-shift", "C10", "pub/collection.go", "c.construct(c.elements[i+startingPoint], c.id)", "c.construct(c.elements[i], c.id)", "C10.R3"},
	{"C10-concat-order", "C10", "pub/collection.go", "return append(fromThisPage, fromLaterPages...), nextCollection, nextStartingPoint", "return append(fromLaterPages, fromThisPage...), nextCollection, nextStartingPoint", "C10.R3"},
	{"C10-resume-offset", "C10", "pub/collection.go", "fromLaterPages, nextCollection, nextStartingPoint = []Tangible{}, c, amount+startingPoint", "fromLaterPages, nextCollection, nextStartingPoint = []Tangible{}, c, amount", "C10.R4"},
	// C11
	{"C11-typed-nil", "C11", "splicer/splicer.go", "\t\t\treturn output, nil, 0\n\t\t}\n\t\toutput = append(output, harvested)", "\t\t\tclone = nil\n\t\t\tbreak\n\t\t}\n\t\toutput = append(output, harvested)", "C11.R1"},
	{"C11-children-typed-nil", "C11", "pub/post.go", "\tif p.comments == nil {\n\t\treturn nil\n\t} else {\n\t\treturn p.comments\n\t}", "\treturn p.comments", "C11.R1"},
	{"C11-harvest-in-place", "C11", "splicer/splicer.go", "\tclone := s.clone()\n", "\tclone := &s\n", "C11.R4"},
	// C12
	{"C12-label-after-children", "C12", "hypertext/hypertext.go", "\t\tnumber := len(*ctx.links)\n\t\trendered := renderChildren(node, ctx)\n\t\treturn style.Link(rendered, number)", "\t\trendered := renderChildren(node, ctx)\n\t\treturn style.Link(rendered, len(*ctx.links))", "C12.R1"},
	{"C12-attachment-offset", "C12", "pub/post.go", "len(p.bodyLinks)+i+1)", "i+1)", "C12.R2"},
	{"C12-lookup-offset", "C12", "pub/post.go", "nextIndex := input - len(p.bodyLinks)", "nextIndex := input - len(p.bodyLinks) + 1", "C12.R"},
	{"C12-actor-lower-bound", "C12", "pub/actor.go", "if input < 0 || len(a.bioLinks) <= input {", "if len(a.bioLinks) <= input {", "C12.R3"},
	{"C12-unlabelled-target", "C12", "gemtext/gemtext.go", "\t\t\tlinks = append(links, uri)\n\t\t\tresult += style.LinkBlock(alt, len(links)) + \"\\n\"", "\t\t\tlinks = append(links, uri)\n\t\t\tlinks = append(links, alt)\n\t\t\tresult += style.LinkBlock(alt, len(links)) + \"\\n\"", "C12.R1"},
	// C15
	{"C15-gemtext-no-wrap", "C15", "gemtext/gemtext.go", "return strings.Trim(ansi.Wrap(result, width), \"\\n\"), links", "return strings.Trim(ansi.Indent(result, \"\", false), \"\\n\"), links", "C15.R1"},
	{"C15-wrap-wrong-width", "C15", "plaintext/plaintext.go", "wrapped := ansi.Wrap(rendered, width)", "wrapped := ansi.Wrap(rendered, 80)", "C15.R1"},
	{"C15-cache-width-not-stored", "C15", "hypertext/hypertext.go", "\tm.cachedWidth = width\n\tm.cached = rendered", "\tm.cached = rendered", "C15.R2"},
	{"C15-cache-any-width", "C15", "gemtext/gemtext.go", "if m.cachedWidth == width {", "if m.cachedWidth <= width {", "C15.R2"},
	{"C15-render-side-effect", "C15", "hypertext/hypertext.go", "\toutput := \"\"\n\tfor _, current := range nodes {", "\toutput := \"\"\n\tif len(nodes) > 80 {\n\t\tnodes[0].Data = \"\"\n\t}\n\tfor _, current := range nodes {", "C15.R3"},
	// C17
	{"C17-no-range-check", "C17", "object/object.go", "} else if number < 0 || number >= 1<<64 {", "} else if number >= 1<<64 {", "C17.R1"},
	{"C17-no-integrality", "C17", "object/object.go", "} else if number != math.Trunc(number) {", "} else if number != math.Trunc(number) && number < 0 {", "C17.R1"},
	{"C17-assert-panic", "C17", "object/object.go", "} else if asList, isList := value.([]any); isList {\n\t\treturn asList, nil\n\t} else {\n\t\treturn []any{value}, nil\n\t}", "} else {\n\t\treturn value.([]any), nil\n\t}", "C17.R"},
	{"C17-empty-string-value", "C17", "object/object.go", "\tif value == \"\" {\n\t\treturn \"\", ErrKeyNotPresent\n\t}\n", "", "C17.R3"},
	{"C17-wrong-sentinel", "C17", "object/object.go", "return zero, fmt.Errorf(\"failed to extract \\\"%s\\\": %w: is %T\", key, ErrKeyWrongType, value)", "return zero, fmt.Errorf(\"failed to extract \\\"%s\\\": %w: is %T\", key, ErrKeyNotPresent, value)", "C17.R4"},
	{"C17-bypass-getstring", "C17", "object/object.go", "func (o Object) GetURL(key string) (*url.URL, error) {\n\tif value, err := o.GetString(key); err != nil {", "func (o Object) GetURL(key string) (*url.URL, error) {\n\tif value, err := getPrimitive[string](o, key); err != nil {", "C17.R3"},
	{"C17-promotion-wrong", "C17", "object/object.go", "return []any{value}, nil", "return []any{key}, nil", "C17.R5"},
	// C19
	{"C19-lenient-decode", "C19", "config/config.go", "len(undecoded) != 0 {", "len(undecoded) > 100 {", "C19.R1"},
	{"C19-no-exit", "C19", "config/config.go", "\tif err = postprocess(Parsed); err != nil {\n\t\tos.Stderr.WriteString(fmt.Errorf(\"failed to parse %s: %w\", location, err).Error() + \"\\n\")\n\t\tos.Exit(1)\n\t}", "\tif err = postprocess(Parsed); err != nil {\n\t\tos.Stderr.WriteString(fmt.Errorf(\"failed to parse %s: %w\", location, err).Error() + \"\\n\")\n\t}", "C19.R1"},
	{"C19-colour-unchecked", "C19", "config/config.go", "config.Style.Colors.Code, err = hexToAnsi(config.Style.Colors.Code)\n\tif err != nil {\n\t\treturn fmt.Errorf(\"key style.colors.code is invalid: %w\", err)\n\t}", "config.Style.Colors.Code, _ = hexToAnsi(config.Style.Colors.Code)", "C19.R2"},
	{"C19-hook-unvalidated", "C19", "config/config.go", "\tif len(config.Media.Hook) == 0 {\n\t\treturn errors.New(\"key media.hook is invalid: must contain at least the program to run\")\n\t}\n", "", "C19.R3"},
	{"C19-cache-size-zero", "C19", "config/config.go", "if config.Network.CacheSize <= 0 {", "if config.Network.CacheSize < 0 {", "C19.R3"},
	{"C19-hex-length", "C19", "config/config.go", "\tif len(text) != 7 {\n\t\treturn \"\", errNotAHexCode\n\t}\n", "", "C19.R2"},
	// C20
	{"C20-program-substituted", "C20", "ui/ui.go", "\t\tif i == 0 {\n\t\t\tcontinue\n\t\t}\n", "", "C20.R3"},
	{"C20-substring-substitution", "C20", "ui/ui.go", "\t\tcase \"%url\":\n\t\t\tcommand[i] = link\n\t\t\tfoundPercentU = true", "\t\tcase \"%url\":\n\t\t\tcommand[i] = strings.TrimSpace(link)\n\t\t\tfoundPercentU = true", "C20.R3"},
	{"C20-shell", "C20", "ui/ui.go", "cmd := exec.Command(command[0], command[1:]...)", "cmd := exec.Command(\"sh\", \"-c\", strings.Join(command, \" \"))", "C20.R"},
	{"C20-alias-config", "C20", "ui/ui.go", "\tcommand := make([]string, len(config.Parsed.Media.Hook))\n\tcopy(command, config.Parsed.Media.Hook)", "\tcommand := config.Parsed.Media.Hook", "C20.R2"},
	{"C20-stdin-always", "C20", "ui/ui.go", "\tif !foundPercentU {\n\t\tcmd.Stdin = strings.NewReader(link)\n\t}", "\tif !foundPercentU || len(link) > 0 {\n\t\tcmd.Stdin = strings.NewReader(link)\n\t}", "C20.R4"},
	{"C20-swapped-fields", "C20", "ui/ui.go", "\t\tcase \"%subtype\":\n\t\t\tcommand[i] = mediaType.Subtype", "\t\tcase \"%subtype\":\n\t\t\tcommand[i] = mediaType.Supertype", "C20.R3"},
	{"C20-nil-mediatype", "C20", "pub/link.go", "return l.uri.String(), defaultMediaType, true", "return l.uri.String(), nil, true", "C20.R5"},
}
