package main

import (
	"bytes"
	"fmt"
	"go/ast"
	"go/token"
	"go/types"
	"sort"
	"strings"

	"golang.org/x/tools/go/packages"
)

// Scalar replacement of new aggregates (part of the normaliser, see inline.go).
//
// A refactoring that bundles several local variables (or several results of a
// goroutine) into one value of a newly introduced struct type does not change
// behaviour, but it changes every cell a rule tracks from "a variable" to "a
// field of a variable". A local variable whose type is a struct type that the
// rules have never seen (not in anchorTypes) and that is used only through
// field selections, assignments of composite literals and its own declaration
// is therefore replaced, in memory, by one variable per field:
//
//	var rest remainder            var rest_items_sra []Tangible; var rest_collection_sra Container; …
//	rest = remainder{a, b, c}     rest_items_sra, rest_collection_sra, rest_startingPoint_sra = a, b, c
//	rest.items                    rest_items_sra
//
// Closures capture the field variables individually, which is what they did
// to the struct's fields before. Any other use of the variable (passed on,
// returned, compared, address taken as a whole) leaves it alone.

type sraVar struct {
	obj    *types.Var
	st     *types.Struct
	named  *types.Named
	decl   ast.Node // *ast.ValueSpec / *ast.AssignStmt that declares it
	fields []string
	ftext  []string // field types as source text
}

func sraName(v, f string) string { return v + "_" + f + "_sra" }

// sraRound returns rewritten files (path -> content) for one round of scalar replacement.
func sraRound(pkgs []*packages.Package, overlay map[string][]byte) (map[string][]byte, []string) {
	out := map[string][]byte{}
	var log []string
	for _, pkg := range pkgs {
		if !isServitorPath(pkg.PkgPath) || len(pkg.Errors) > 0 {
			continue
		}
		// struct declarations of the package: type name -> field type texts
		structDecls := map[string]*ast.StructType{}
		structFile := map[string]*ast.File{}
		for _, f := range pkg.Syntax {
			for _, d := range f.Decls {
				gd, ok := d.(*ast.GenDecl)
				if !ok || gd.Tok != token.TYPE {
					continue
				}
				for _, sp := range gd.Specs {
					ts := sp.(*ast.TypeSpec)
					if st, ok := ts.Type.(*ast.StructType); ok && ts.TypeParams == nil {
						structDecls[ts.Name.Name] = st
						structFile[ts.Name.Name] = f
					}
				}
			}
		}
		for _, f := range pkg.Syntax {
			fname := pkg.Fset.File(f.Pos()).Name()
			if strings.HasSuffix(fname, "_test.go") {
				continue
			}
			src := readSource(fname, overlay)
			type edit struct {
				lo, hi int
				text   string
			}
			var edits []edit
			off := func(p token.Pos) int { return pkg.Fset.Position(p).Offset }
			text := func(n ast.Node) string { return string(src[off(n.Pos()):off(n.End())]) }
			for _, d := range f.Decls {
				fd, ok := d.(*ast.FuncDecl)
				if !ok || fd.Body == nil {
					continue
				}
				// candidates: local variables of a new struct type
				cands := map[*types.Var]*sraVar{}
				ast.Inspect(fd.Body, func(n ast.Node) bool {
					id, ok := n.(*ast.Ident)
					if !ok {
						return true
					}
					v, ok := pkg.TypesInfo.Defs[id].(*types.Var)
					if !ok || v.IsField() || cands[v] != nil {
						return true
					}
					named, ok := v.Type().(*types.Named)
					if ok && named.Obj().Pkg() != nil && named.Obj().Pkg() != pkg.Types && isServitorPath(named.Obj().Pkg().Path()) && !anchorTypes[named.Obj().Pkg().Path()+"."+named.Obj().Name()] {
						// a new struct type of ANOTHER package of the module (a result object
						// rebuilt at the call site): its exported fields, their types written
						// with the names this file imports their packages under
						if sv := foreignSraVar(pkg, f, v, named); sv != nil {
							cands[v] = sv
						}
						return true
					}
					if !ok || named.Obj().Pkg() != pkg.Types || anchorTypes[pkg.PkgPath+"."+named.Obj().Name()] {
						return true
					}
					st, ok := named.Underlying().(*types.Struct)
					decl := structDecls[named.Obj().Name()]
					if !ok || decl == nil || st.NumFields() == 0 || st.NumFields() > 8 {
						return true
					}
					sv := &sraVar{obj: v, st: st, named: named}
					okFields := true
					dsrc := readSource(pkg.Fset.File(structFile[named.Obj().Name()].Pos()).Name(), overlay)
					for _, fl := range decl.Fields.List {
						if len(fl.Names) == 0 {
							okFields = false // embedded field
						}
						ft := string(dsrc[pkg.Fset.Position(fl.Type.Pos()).Offset:pkg.Fset.Position(fl.Type.End()).Offset])
						for _, nm := range fl.Names {
							sv.fields = append(sv.fields, nm.Name)
							sv.ftext = append(sv.ftext, ft)
						}
					}
					// type texts with package qualifiers are only safe within the declaring file
					if !portableFieldTypes(pkg, decl, structFile[named.Obj().Name()], f) {
						okFields = false
					}
					if okFields && len(sv.fields) == st.NumFields() {
						cands[v] = sv
					}
					return true
				})
				if len(cands) == 0 {
					continue
				}
				// classify every use
				bad := map[*types.Var]string{}
				type use struct {
					kind  string
					node  ast.Node
					sv    *sraVar
					extra ast.Node
				}
				var uses []use
				var stack []ast.Node
				ast.Inspect(fd.Body, func(n ast.Node) bool {
					if n == nil {
						stack = stack[:len(stack)-1]
						return true
					}
					stack = append(stack, n)
					id, ok := n.(*ast.Ident)
					if !ok {
						return true
					}
					var v *types.Var
					isDef := false
					if o, ok := pkg.TypesInfo.Defs[id].(*types.Var); ok {
						v, isDef = o, true
					} else if o, ok := pkg.TypesInfo.Uses[id].(*types.Var); ok {
						v = o
					}
					sv := cands[v]
					if sv == nil {
						return true
					}
					parent := stack[len(stack)-2]
					switch p := parent.(type) {
					case *ast.SelectorExpr:
						if p.X == ast.Expr(id) {
							if sel := pkg.TypesInfo.Selections[p]; sel != nil && sel.Kind() == types.FieldVal && len(sel.Index()) == 1 {
								uses = append(uses, use{"field", p, sv, nil})
								return true
							}
						}
					case *ast.ValueSpec:
						if !isDef && len(p.Names) == 1 && len(p.Values) == 1 && p.Values[0] == ast.Expr(id) {
							if lv, ok := pkg.TypesInfo.Defs[p.Names[0]].(*types.Var); ok && cands[lv] != nil && types.Identical(lv.Type(), v.Type()) {
								return true // rewritten with the declaration (var-copy)
							}
						}
						if isDef && len(p.Names) > 1 && len(p.Values) == 0 {
							uses = append(uses, use{"var-multi", p, sv, nil})
							return true
						}
						if isDef && len(p.Names) == 1 {
							if len(p.Values) == 0 {
								uses = append(uses, use{"var", p, sv, nil})
								return true
							}
							if cl, ok := unparen(p.Values[0]).(*ast.CompositeLit); ok && len(p.Values) == 1 && types.Identical(pkg.TypesInfo.TypeOf(cl), sv.named) {
								uses = append(uses, use{"var-lit", p, sv, cl})
								return true
							}
							// var x T = y, y another candidate of the same type
							if rid, ok := p.Values[0].(*ast.Ident); ok && len(p.Values) == 1 {
								if rv, ok := pkg.TypesInfo.Uses[rid].(*types.Var); ok && cands[rv] != nil && types.Identical(rv.Type(), v.Type()) {
									uses = append(uses, use{"var-copy", p, sv, rid})
									return true
								}
							}
						}
					case *ast.AssignStmt:
						if len(p.Lhs) == 1 && len(p.Rhs) == 1 && p.Lhs[0] == ast.Expr(id) {
							if cl, ok := unparen(p.Rhs[0]).(*ast.CompositeLit); ok && types.Identical(pkg.TypesInfo.TypeOf(cl), sv.named) {
								if p.Tok == token.DEFINE && isDef {
									uses = append(uses, use{"define-lit", p, sv, cl})
									return true
								}
								if p.Tok == token.ASSIGN {
									uses = append(uses, use{"assign-lit", p, sv, cl})
									return true
								}
							}
							if bid, ok := p.Rhs[0].(*ast.Ident); ok && p.Tok == token.ASSIGN && bid.Name == "_" {
								return true
							}
						}
						// `_ = v`
						if len(p.Lhs) == 1 && len(p.Rhs) == 1 && p.Rhs[0] == ast.Expr(id) && p.Tok == token.ASSIGN {
							if b, ok := p.Lhs[0].(*ast.Ident); ok && b.Name == "_" {
								uses = append(uses, use{"blank", p, sv, nil})
								return true
							}
						}
					}
					// a tuple assignment `a, err = T{…}, x` / `a, err = b, x`: expanded in place
					if as, ok := parent.(*ast.AssignStmt); ok && len(as.Lhs) == len(as.Rhs) && len(as.Lhs) >= 2 && as.Tok == token.ASSIGN {
						okTuple := true
						mine := false
						for k := range as.Lhs {
							lid, lIsId := as.Lhs[k].(*ast.Ident)
							var lv *types.Var
							if lIsId {
								lv, _ = pkg.TypesInfo.Uses[lid].(*types.Var)
							}
							rid, rIsId := as.Rhs[k].(*ast.Ident)
							var rv *types.Var
							if rIsId {
								rv, _ = pkg.TypesInfo.Uses[rid].(*types.Var)
							}
							lc, rc := lv != nil && cands[lv] != nil, rv != nil && cands[rv] != nil
							if lIsId && lid == id || rIsId && rid == id {
								mine = true
							}
							switch {
							case lc && rc:
								if !types.Identical(lv.Type(), rv.Type()) {
									okTuple = false
								}
							case lc:
								cl, isLit := unparen(as.Rhs[k]).(*ast.CompositeLit)
								if !isLit || !types.Identical(pkg.TypesInfo.TypeOf(cl), lv.Type()) {
									okTuple = false
								} else if _, okLit := litFieldsOf(cands[lv], cl, text); !okLit {
									okTuple = false
								}
							case rc:
								okTuple = false // a candidate read as a whole into something else: handled as "rebuild"
							}
						}
						if okTuple && mine {
							uses = append(uses, use{"tuple", as, sv, nil})
							return true
						}
					}
					// a copy between two candidates of the same type: field by field
					if as, ok := parent.(*ast.AssignStmt); ok && len(as.Lhs) == 1 && len(as.Rhs) == 1 && (as.Tok == token.ASSIGN || as.Tok == token.DEFINE) {
						l, lok := as.Lhs[0].(*ast.Ident)
						r, rok := as.Rhs[0].(*ast.Ident)
						if lok && rok {
							var lv, rv *types.Var
							if o, ok := pkg.TypesInfo.Defs[l].(*types.Var); ok {
								lv = o
							} else if o, ok := pkg.TypesInfo.Uses[l].(*types.Var); ok {
								lv = o
							}
							if o, ok := pkg.TypesInfo.Uses[r].(*types.Var); ok {
								rv = o
							}
							if lv != nil && rv != nil && cands[lv] != nil && cands[rv] != nil && types.Identical(lv.Type(), rv.Type()) {
								if id == l {
									kind := "copy-assign"
									if as.Tok == token.DEFINE {
										kind = "copy-define"
									}
									uses = append(uses, use{kind, as, sv, r})
								}
								return true // the right-hand side is rewritten with the statement
							}
						}
					}
					// read as a whole (an operand, an argument, a value stored somewhere else):
					// rebuilt from its fields as a composite literal
					if !isDef && wholeReadContext(parent, id) && structFile[sv.named.Obj().Name()] != nil {
						uses = append(uses, use{"rebuild", id, sv, nil})
						return true
					}
					bad[v] = "used as a whole"
					return true
				})
				// literals must not mention the variable being assigned in a way that reorders reads: fine, tuple assignment evaluates first
				litFields := func(sv *sraVar, cl *ast.CompositeLit) ([]string, bool) {
					vals := make([]string, len(sv.fields))
					for i := range vals {
						vals[i] = zeroText(sv, i)
					}
					if len(cl.Elts) == 0 {
						return vals, true
					}
					if _, keyed := cl.Elts[0].(*ast.KeyValueExpr); keyed {
						for _, e := range cl.Elts {
							kv, ok := e.(*ast.KeyValueExpr)
							if !ok {
								return nil, false
							}
							k, ok := kv.Key.(*ast.Ident)
							if !ok {
								return nil, false
							}
							found := false
							for i, fn := range sv.fields {
								if fn == k.Name {
									vals[i] = text(kv.Value)
									found = true
								}
							}
							if !found {
								return nil, false
							}
						}
						return vals, true
					}
					if len(cl.Elts) != len(sv.fields) {
						return nil, false
					}
					for i, e := range cl.Elts {
						vals[i] = text(e)
					}
					return vals, true
				}
				for _, u := range uses {
					if bad[u.sv.obj] != "" {
						continue
					}
					if cl, isLit := u.extra.(*ast.CompositeLit); isLit {
						if _, ok := litFields(u.sv, cl); !ok {
							bad[u.sv.obj] = "unsupported literal"
						}
					}
				}
				// a copy needs both ends replaced
				for pass := 0; pass < 3; pass++ {
					for _, u := range uses {
						if u.kind != "copy-assign" && u.kind != "copy-define" && u.kind != "var-copy" {
							continue
						}
						rid, _ := u.extra.(*ast.Ident)
						if rid == nil {
							continue
						}
						rv, _ := pkg.TypesInfo.Uses[rid].(*types.Var)
						if rv == nil || cands[rv] == nil {
							bad[u.sv.obj] = "copied from something that is not replaced"
							continue
						}
						if bad[rv] != "" && bad[u.sv.obj] == "" {
							bad[u.sv.obj] = "copied from a variable that is not replaced"
						}
						if bad[u.sv.obj] != "" && bad[rv] == "" {
							bad[rv] = "copied into a variable that is not replaced"
						}
					}
				}
				// `var a, b T`: all of them or none
				for pass := 0; pass < 3; pass++ {
					for _, u := range uses {
						if u.kind != "var-multi" {
							continue
						}
						anyBad := false
						for _, nm := range u.node.(*ast.ValueSpec).Names {
							o, _ := pkg.TypesInfo.Defs[nm].(*types.Var)
							if o == nil || cands[o] == nil || bad[o] != "" {
								anyBad = true
							}
						}
						if anyBad {
							for _, nm := range u.node.(*ast.ValueSpec).Names {
								if o, _ := pkg.TypesInfo.Defs[nm].(*types.Var); o != nil && cands[o] != nil && bad[o] == "" {
									bad[o] = "declared together with a variable that is not replaced"
								}
							}
						}
					}
				}
				multiDone := map[ast.Node]bool{}
				// nested literal uses: a field selection inside the literal assigned to the same variable is fine
				done := map[*types.Var]bool{}
				for _, u := range uses {
					sv := u.sv
					if bad[sv.obj] != "" {
						continue
					}
					v := sv.obj.Name()
					names := make([]string, len(sv.fields))
					for i, fn := range sv.fields {
						names[i] = sraName(v, fn)
					}
					declare := func() string {
						var b bytes.Buffer
						for i := range names {
							fmt.Fprintf(&b, "var %s %s\n_ = %s\n", names[i], sv.ftext[i], names[i])
						}
						return b.String()
					}
					switch u.kind {
					case "field":
						se := u.node.(*ast.SelectorExpr)
						edits = append(edits, edit{off(se.Pos()), off(se.End()), sraName(v, se.Sel.Name)})
					case "blank":
						edits = append(edits, edit{off(u.node.Pos()), off(u.node.End()), ""})
					case "var-copy":
						src2 := cands[pkg.TypesInfo.Uses[u.extra.(*ast.Ident)].(*types.Var)]
						if src2 == nil || bad[src2.obj] != "" {
							break
						}
						var rhs []string
						for _, fn := range sv.fields {
							rhs = append(rhs, sraName(src2.obj.Name(), fn))
						}
						edits = append(edits, edit{off(u.node.Pos()) - len("var "), off(u.node.End()), declare() + strings.Join(names, ", ") + " = " + strings.Join(rhs, ", ")})
					case "tuple":
						if multiDone[u.node] {
							break
						}
						multiDone[u.node] = true
						as := u.node.(*ast.AssignStmt)
						var lhs, rhs []string
						okT := true
						for k := range as.Lhs {
							lid, _ := as.Lhs[k].(*ast.Ident)
							var lv *types.Var
							if lid != nil {
								lv, _ = pkg.TypesInfo.Uses[lid].(*types.Var)
							}
							if lv == nil || cands[lv] == nil {
								lhs = append(lhs, text(as.Lhs[k]))
								rhs = append(rhs, text(as.Rhs[k]))
								continue
							}
							if bad[lv] != "" {
								okT = false
								break
							}
							for _, fn := range cands[lv].fields {
								lhs = append(lhs, sraName(lv.Name(), fn))
							}
							if rid, isId := as.Rhs[k].(*ast.Ident); isId {
								rv, _ := pkg.TypesInfo.Uses[rid].(*types.Var)
								if rv == nil || cands[rv] == nil || bad[rv] != "" {
									okT = false
									break
								}
								for _, fn := range cands[rv].fields {
									rhs = append(rhs, sraName(rv.Name(), fn))
								}
								continue
							}
							vals, okV := litFieldsOf(cands[lv], unparen(as.Rhs[k]).(*ast.CompositeLit), text)
							if !okV {
								okT = false
								break
							}
							rhs = append(rhs, vals...)
						}
						if okT {
							edits = append(edits, edit{off(as.Pos()), off(as.End()), strings.Join(lhs, ", ") + " = " + strings.Join(rhs, ", ")})
						}
					case "rebuild":
						var parts []string
						for i, fn := range sv.fields {
							parts = append(parts, fn+": "+names[i])
						}
						id := u.node.(*ast.Ident)
						edits = append(edits, edit{off(id.Pos()), off(id.End()), "(" + sv.named.Obj().Name() + "{" + strings.Join(parts, ", ") + "})"})
					case "copy-assign", "copy-define":
						src2 := cands[pkg.TypesInfo.Uses[u.extra.(*ast.Ident)].(*types.Var)]
						if src2 == nil || bad[src2.obj] != "" {
							break
						}
						var rhs []string
						for _, fn := range sv.fields {
							rhs = append(rhs, sraName(src2.obj.Name(), fn))
						}
						pre := ""
						if u.kind == "copy-define" {
							pre = declare()
						}
						edits = append(edits, edit{off(u.node.Pos()), off(u.node.End()), pre + strings.Join(names, ", ") + " = " + strings.Join(rhs, ", ")})
					case "var-multi":
						if multiDone[u.node] {
							break
						}
						multiDone[u.node] = true
						var b bytes.Buffer
						for _, nm := range u.node.(*ast.ValueSpec).Names {
							o, _ := pkg.TypesInfo.Defs[nm].(*types.Var)
							sib := cands[o]
							for i, fn := range sib.fields {
								n := sraName(o.Name(), fn)
								fmt.Fprintf(&b, "var %s %s\n_ = %s\n", n, sib.ftext[i], n)
							}
						}
						edits = append(edits, edit{off(u.node.Pos()) - len("var "), off(u.node.End()), strings.TrimSuffix(b.String(), "\n")})
					case "var":
						// the ValueSpec sits in a GenDecl `var x T`: replace the whole declaration statement
						edits = append(edits, edit{off(u.node.Pos()) - len("var "), off(u.node.End()), strings.TrimSuffix(declare(), "\n")})
					case "var-lit", "define-lit", "assign-lit":
						vals, _ := litFields(sv, u.extra.(*ast.CompositeLit))
						assign := strings.Join(names, ", ") + " = " + strings.Join(vals, ", ")
						lo := off(u.node.Pos())
						if u.kind == "var-lit" {
							lo -= len("var ")
						}
						pre := ""
						if u.kind != "assign-lit" {
							pre = declare()
						}
						edits = append(edits, edit{lo, off(u.node.End()), pre + assign})
					}
					done[sv.obj] = true
				}
				for v := range done {
					log = append(log, fmt.Sprintf("scalar replacement: %s.%s local %s (%s)", pkg.PkgPath, fd.Name.Name, v.Name(), v.Type().String()))
				}
			}
			if len(edits) == 0 {
				continue
			}
			sort.Slice(edits, func(i, j int) bool { return edits[i].lo > edits[j].lo })
			okFile := true
			for i := 1; i < len(edits); i++ {
				if edits[i].hi > edits[i-1].lo {
					okFile = false
				}
			}
			// `var ` prefix sanity for declaration edits
			buf := append([]byte{}, src...)
			if okFile {
				for _, e := range edits {
					if e.lo < 0 || e.hi > len(buf) {
						okFile = false
						break
					}
					buf = append(buf[:e.lo], append([]byte(e.text), buf[e.hi:]...)...)
				}
			}
			if okFile {
				out[fname] = buf
			} else {
				log = append(log, "scalar replacement skipped (overlapping edits) in "+fname)
			}
		}
	}
	return out, log
}

// unboxRound: a function that returns a value of a new struct type is changed,
// in memory, to return that struct's fields as separate results; its call
// sites receive them in temporaries and rebuild the struct in a local variable
// (which the scalar replacement of the next round then dissolves):
//
//	func f() (line, error) { … return line{a, b}, nil }     func f() (A, B, error) { … return a, b, nil }
//	x, err := f()                                            x_a_unb1, x_b_unb1, err := f(); x := line{x_a_unb1, x_b_unb1}
//
// so that a function whose several results were bundled into a small struct
// looks to the rules as it did before. Applied only if every return of the
// function and every use of it has one of the supported shapes.
func unboxRound(pkgs []*packages.Package, overlay map[string][]byte, counter *int) (map[string][]byte, []string) {
	type edit struct {
		lo, hi int
		text   string
	}
	edits := map[string][]edit{}
	var log []string
	for _, pkg := range pkgs {
		if !isServitorPath(pkg.PkgPath) || len(pkg.Errors) > 0 {
			continue
		}
		info := pkg.TypesInfo
		fset := pkg.Fset
		off := func(p token.Pos) int { return fset.Position(p).Offset }
		structDecls := map[string]*ast.StructType{}
		structFile := map[string]*ast.File{}
		for _, f := range pkg.Syntax {
			for _, d := range f.Decls {
				if gd, ok := d.(*ast.GenDecl); ok && gd.Tok == token.TYPE {
					for _, sp := range gd.Specs {
						ts := sp.(*ast.TypeSpec)
						if st, ok := ts.Type.(*ast.StructType); ok && ts.TypeParams == nil {
							structDecls[ts.Name.Name], structFile[ts.Name.Name] = st, f
						}
					}
				}
			}
		}
		fileOf := func(p token.Pos) *ast.File {
			for _, f := range pkg.Syntax {
				if f.Pos() <= p && p <= f.End() {
					return f
				}
			}
			return nil
		}
		for _, f := range pkg.Syntax {
			fname := fset.File(f.Pos()).Name()
			if strings.HasSuffix(fname, "_test.go") {
				continue
			}
			for _, d := range f.Decls {
				fd, ok := d.(*ast.FuncDecl)
				if !ok || fd.Body == nil || fd.Type.Results == nil || fd.Type.TypeParams != nil {
					continue
				}
				fobj, _ := info.Defs[fd.Name].(*types.Func)
				if fobj == nil {
					continue
				}
				if fd.Recv != nil && interfaceMethodName(pkgs, fd.Name.Name) {
					continue
				}
				// exactly one result of a new struct type, unnamed results
				pos := -1
				nres := 0
				var sname string
				var resField *ast.Field
				okSig := true
				for _, rf := range fd.Type.Results.List {
					if len(rf.Names) > 0 {
						okSig = false
					}
					if id, ok := rf.Type.(*ast.Ident); ok {
						if tn, ok := info.Uses[id].(*types.TypeName); ok && tn.Pkg() == pkg.Types && !anchorTypes[pkg.PkgPath+"."+tn.Name()] && structDecls[tn.Name()] != nil {
							if pos >= 0 {
								okSig = false
							}
							pos, sname, resField = nres, tn.Name(), rf
						}
					}
					nres++
				}
				if !okSig || pos < 0 {
					continue
				}
				sdecl := structDecls[sname]
				var fields, ftext []string
				dsrc := readSource(fset.File(structFile[sname].Pos()).Name(), overlay)
				okFields := true
				for _, fl := range sdecl.Fields.List {
					if len(fl.Names) == 0 {
						okFields = false
					}
					ft := string(dsrc[off(fl.Type.Pos()):off(fl.Type.End())])
					for _, nm := range fl.Names {
						fields = append(fields, nm.Name)
						ftext = append(ftext, ft)
					}
				}
				if !okFields || len(fields) == 0 || len(fields) > 6 {
					continue
				}
				crossFile := func(target *ast.File) bool {
					return portableFieldTypes(pkg, sdecl, structFile[sname], target)
				}
				if !crossFile(f) {
					continue
				}
				// returns
				src := readSource(fname, overlay)
				text := func(n ast.Node) string { return string(src[off(n.Pos()):off(n.End())]) }
				var local []edit
				okRets := true
				ast.Inspect(fd.Body, func(n ast.Node) bool {
					if _, isLit := n.(*ast.FuncLit); isLit {
						return false
					}
					ret, ok := n.(*ast.ReturnStmt)
					if !ok {
						return true
					}
					if len(ret.Results) != nres {
						okRets = false
						return true
					}
					e := ret.Results[pos]
					switch x := e.(type) {
					case *ast.CompositeLit:
						vals := make([]string, len(fields))
						for i := range vals {
							vals[i] = "*new(" + ftext[i] + ")"
						}
						if len(x.Elts) > 0 {
							if _, keyed := x.Elts[0].(*ast.KeyValueExpr); keyed {
								for _, el := range x.Elts {
									kv, ok := el.(*ast.KeyValueExpr)
									k, ok2 := kv.Key.(*ast.Ident)
									if !ok || !ok2 {
										okRets = false
										return true
									}
									for i, fn := range fields {
										if fn == k.Name {
											vals[i] = text(kv.Value)
										}
									}
								}
							} else {
								if len(x.Elts) != len(fields) {
									okRets = false
									return true
								}
								for i, el := range x.Elts {
									vals[i] = text(el)
								}
							}
						}
						local = append(local, edit{off(e.Pos()), off(e.End()), strings.Join(vals, ", ")})
					case *ast.Ident:
						if v, ok := info.Uses[x].(*types.Var); !ok || v.IsField() || v.Parent() == pkg.Types.Scope() {
							okRets = false
							return true
						}
						var parts []string
						for _, fn := range fields {
							parts = append(parts, x.Name+"."+fn)
						}
						local = append(local, edit{off(e.Pos()), off(e.End()), strings.Join(parts, ", ")})
					default:
						okRets = false
					}
					return true
				})
				if !okRets {
					continue
				}
				local = append(local, edit{off(resField.Type.Pos()), off(resField.Type.End()), strings.Join(ftext, ", ")})
				// uses: every reference to the function is a call that is the only right-hand side of an assignment statement
				type siteEdit struct {
					file string
					e    edit
				}
				var sites []siteEdit
				okUses := true
				for _, p2 := range pkgs {
					if !isServitorPath(p2.PkgPath) {
						continue
					}
					for _, f2 := range p2.Syntax {
						f2name := p2.Fset.File(f2.Pos()).Name()
						var stack []ast.Node
						ast.Inspect(f2, func(n ast.Node) bool {
							if n == nil {
								stack = stack[:len(stack)-1]
								return true
							}
							stack = append(stack, n)
							id, ok := n.(*ast.Ident)
							if !ok || p2.TypesInfo.Uses[id] != types.Object(fobj) {
								return true
							}
							if strings.HasSuffix(f2name, "_test.go") {
								okUses = false
								return true
							}
							foreign := p2 != pkg
							if foreign {
								// a caller in another package can name the struct and its fields only if
								// they are exported, and reaches the function as pkgname.F
								if !ast.IsExported(sname) {
									okUses = false
									return true
								}
								for _, fn := range fields {
									if !ast.IsExported(fn) {
										okUses = false
									}
								}
								if !okUses {
									return true
								}
							} else if !crossFile(f2) {
								okUses = false
								return true
							}
							// ident -> (selector) -> call -> assign -> block
							up := len(stack) - 2
							var fexpr ast.Expr = id
							if sel, ok := stack[up].(*ast.SelectorExpr); ok && sel.Sel == id {
								fexpr = sel
								up--
							}
							call, ok := stack[up].(*ast.CallExpr)
							if !ok || call.Fun != fexpr || up < 2 {
								okUses = false
								return true
							}
							as, ok := stack[up-1].(*ast.AssignStmt)
							if !ok || len(as.Rhs) != 1 || as.Rhs[0] != ast.Expr(call) || len(as.Lhs) != nres {
								okUses = false
								return true
							}
							switch stack[up-2].(type) {
							case *ast.BlockStmt, *ast.CaseClause, *ast.CommClause:
							default:
								okUses = false
								return true
							}
							lhs, ok := as.Lhs[pos].(*ast.Ident)
							if !ok {
								okUses = false
								return true
							}
							s2 := readSource(f2name, overlay)
							o2 := func(p token.Pos) int { return p2.Fset.Position(p).Offset }
							if lhs.Name == "_" {
								blanks := make([]string, len(fields))
								for i := range blanks {
									blanks[i] = "_"
								}
								sites = append(sites, siteEdit{f2name, edit{o2(lhs.Pos()), o2(lhs.End()), strings.Join(blanks, ", ")}})
								return true
							}
							*counter++
							if foreign {
								// no type texts here: everything is received with := into fresh names and
								// handed on to the original left-hand sides afterwards
								sel, isSel := fexpr.(*ast.SelectorExpr)
								if !isSel {
									okUses = false
									return true
								}
								qual := string(s2[o2(sel.X.Pos()):o2(sel.X.End())])
								var recv, after []string
								for i, l := range as.Lhs {
									if i == pos {
										var temps []string
										for _, fn := range fields {
											temps = append(temps, fmt.Sprintf("%s_%s_unb%d", lhs.Name, fn, *counter))
										}
										recv = append(recv, temps...)
										var kv []string
										for j, fn := range fields {
											kv = append(kv, fn+": "+temps[j])
										}
										lit := qual + "." + sname + "{" + strings.Join(kv, ", ") + "}"
										if as.Tok == token.DEFINE && p2.TypesInfo.Defs[lhs] != nil {
											after = append(after, lhs.Name+" := "+lit, "_ = "+lhs.Name)
										} else {
											after = append(after, lhs.Name+" = "+lit)
										}
										continue
									}
									ltext := string(s2[o2(l.Pos()):o2(l.End())])
									if lid, ok := l.(*ast.Ident); ok && lid.Name == "_" {
										recv = append(recv, "_")
										continue
									}
									t := fmt.Sprintf("_o%d_unb%d", i, *counter)
									recv = append(recv, t)
									if lid, ok := l.(*ast.Ident); ok && as.Tok == token.DEFINE && p2.TypesInfo.Defs[lid] != nil {
										after = append(after, ltext+" := "+t, "_ = "+ltext)
									} else {
										after = append(after, ltext+" = "+t)
									}
								}
								stmt := strings.Join(recv, ", ") + " := " + string(s2[o2(call.Pos()):o2(call.End())]) + "\n" + strings.Join(after, "\n")
								sites = append(sites, siteEdit{f2name, edit{o2(as.Pos()), o2(as.End()), stmt}})
								return true
							}
							var temps []string
							var decl bytes.Buffer
							for i, fn := range fields {
								t := fmt.Sprintf("%s_%s_unb%d", lhs.Name, fn, *counter)
								temps = append(temps, t)
								fmt.Fprintf(&decl, "var %s %s\n_ = %s\n", t, ftext[i], t)
							}
							defined := as.Tok == token.DEFINE && p2.TypesInfo.Defs[lhs] != nil
							otherNew := false
							if as.Tok == token.DEFINE {
								for i, l := range as.Lhs {
									if lid, ok := l.(*ast.Ident); ok && i != pos && lid.Name != "_" && p2.TypesInfo.Defs[lid] != nil {
										otherNew = true
									}
								}
							}
							var lhsText []string
							for i, l := range as.Lhs {
								if i == pos {
									lhsText = append(lhsText, strings.Join(temps, ", "))
								} else {
									lhsText = append(lhsText, string(s2[o2(l.Pos()):o2(l.End())]))
								}
							}
							tok := as.Tok.String()
							if as.Tok == token.DEFINE && !otherNew {
								tok = "="
							}
							rebuild := lhs.Name + " = " + sname + "{" + strings.Join(temps, ", ") + "}"
							if defined {
								rebuild = lhs.Name + " := " + sname + "{" + strings.Join(temps, ", ") + "}\n_ = " + lhs.Name
							}
							stmt := decl.String() + strings.Join(lhsText, ", ") + " " + tok + " " + string(s2[o2(call.Pos()):o2(call.End())]) + "\n" + rebuild
							sites = append(sites, siteEdit{f2name, edit{o2(as.Pos()), o2(as.End()), stmt}})
							return true
						})
					}
				}
				if !okUses {
					continue
				}
				for _, e := range local {
					edits[fname] = append(edits[fname], e)
				}
				for _, s := range sites {
					edits[s.file] = append(edits[s.file], s.e)
				}
				_ = fileOf
				log = append(log, fmt.Sprintf("results unboxed: %s returns the fields of %s separately", funcKey(pkg.PkgPath, fd), sname))
			}
		}
	}
	out := map[string][]byte{}
	for fn, es := range edits {
		sort.Slice(es, func(i, j int) bool { return es[i].lo > es[j].lo })
		ok := true
		for i := 1; i < len(es); i++ {
			if es[i].hi > es[i-1].lo {
				ok = false
			}
		}
		if !ok {
			log = append(log, "unboxing skipped (overlapping edits) in "+fn)
			continue
		}
		buf := append([]byte{}, readSource(fn, overlay)...)
		for _, e := range es {
			buf = append(buf[:e.lo], append([]byte(e.text), buf[e.hi:]...)...)
		}
		out[fn] = buf
	}
	return out, log
}

// wholeReadContext: the identifier is read as a value (not assigned to, not
// addressed, not the base of a selector or an index, not ranged over into).
func wholeReadContext(parent ast.Node, id *ast.Ident) bool {
	switch p := parent.(type) {
	case *ast.AssignStmt:
		for _, l := range p.Lhs {
			if l == ast.Expr(id) {
				return false
			}
		}
		return true
	case *ast.ReturnStmt, *ast.CallExpr, *ast.KeyValueExpr, *ast.CompositeLit, *ast.SendStmt, *ast.ParenExpr:
		if ce, ok := p.(*ast.CallExpr); ok && ce.Fun == ast.Expr(id) {
			return false
		}
		return true
	case *ast.BinaryExpr:
		return p.Op == token.EQL || p.Op == token.NEQ
	case *ast.ValueSpec:
		for _, v := range p.Values {
			if v == ast.Expr(id) {
				return true
			}
		}
	}
	return false
}

// litFieldsOf: the values a composite literal gives to the fields of sv, in
// field order (zero values spelled *new(T)).
func litFieldsOf(sv *sraVar, cl *ast.CompositeLit, text func(ast.Node) string) ([]string, bool) {
	vals := make([]string, len(sv.fields))
	for i := range vals {
		vals[i] = zeroText(sv, i)
	}
	if len(cl.Elts) == 0 {
		return vals, true
	}
	if _, keyed := cl.Elts[0].(*ast.KeyValueExpr); keyed {
		for _, e := range cl.Elts {
			kv, ok := e.(*ast.KeyValueExpr)
			if !ok {
				return nil, false
			}
			k, ok := kv.Key.(*ast.Ident)
			if !ok {
				return nil, false
			}
			found := false
			for i, fn := range sv.fields {
				if fn == k.Name {
					vals[i] = text(kv.Value)
					found = true
				}
			}
			if !found {
				return nil, false
			}
		}
		return vals, true
	}
	if len(cl.Elts) != len(sv.fields) {
		return nil, false
	}
	for i, e := range cl.Elts {
		vals[i] = text(e)
	}
	return vals, true
}

func unparen(e ast.Expr) ast.Expr {
	for {
		p, ok := e.(*ast.ParenExpr)
		if !ok {
			return e
		}
		e = p.X
	}
}

// portableFieldTypes: the field types of struct declaration decl, written in
// file declFile, mean the same when copied as text into file target of the
// same package: every package qualifier they use is imported by target under
// the same name.
func portableFieldTypes(pkg *packages.Package, decl *ast.StructType, declFile, target *ast.File) bool {
	if declFile == target {
		return true
	}
	importName := func(f *ast.File, path string) string {
		for _, im := range f.Imports {
			p := strings.Trim(im.Path.Value, "\"")
			if p != path {
				continue
			}
			if im.Name != nil {
				return im.Name.Name
			}
			if ip := pkg.Imports[p]; ip != nil {
				return ip.Name
			}
		}
		return ""
	}
	ok := true
	for _, fl := range decl.Fields.List {
		ast.Inspect(fl.Type, func(n ast.Node) bool {
			se, isSel := n.(*ast.SelectorExpr)
			if !isSel {
				return true
			}
			id, isID := se.X.(*ast.Ident)
			if !isID {
				ok = false
				return false
			}
			pn, isPkg := pkg.TypesInfo.Uses[id].(*types.PkgName)
			if !isPkg {
				ok = false
				return false
			}
			if n := importName(target, pn.Imported().Path()); n == "" || n == "_" || n == "." || n != id.Name {
				ok = false
			}
			return false
		})
	}
	return ok
}

// foreignSraVar: the scalar-replacement description of a local whose type is
// a struct of another package of the module; nil if a field is unexported or
// a field type cannot be written in file f.
func foreignSraVar(pkg *packages.Package, f *ast.File, v *types.Var, named *types.Named) *sraVar {
	st, ok := named.Underlying().(*types.Struct)
	if !ok || st.NumFields() == 0 || st.NumFields() > 8 || named.TypeArgs().Len() > 0 {
		return nil
	}
	imports := map[string]string{}
	for _, im := range f.Imports {
		p := strings.Trim(im.Path.Value, "\"")
		name := ""
		if im.Name != nil {
			name = im.Name.Name
		} else if ip := pkg.Imports[p]; ip != nil {
			name = ip.Name
		}
		imports[p] = name
	}
	okTypes := true
	qual := func(p *types.Package) string {
		if p == pkg.Types {
			return ""
		}
		if n, ok := imports[p.Path()]; ok && n != "" && n != "_" && n != "." {
			return n
		}
		okTypes = false
		return p.Name()
	}
	sv := &sraVar{obj: v, st: st, named: named}
	for i := 0; i < st.NumFields(); i++ {
		fl := st.Field(i)
		if !fl.Exported() || fl.Embedded() {
			return nil
		}
		sv.fields = append(sv.fields, fl.Name())
		sv.ftext = append(sv.ftext, types.TypeString(fl.Type(), qual))
	}
	if !okTypes {
		return nil
	}
	return sv
}

// zeroText: the zero value of field i, spelled so that later rounds recognise
// it: `T{}` for a field of a named struct type (a literal the next scalar
// replacement takes apart), `*new(T)` for everything else.
func zeroText(sv *sraVar, i int) string {
	if sv.st != nil && i < sv.st.NumFields() {
		if n, ok := sv.st.Field(i).Type().(*types.Named); ok {
			if _, isStruct := n.Underlying().(*types.Struct); isStruct && !strings.ContainsAny(sv.ftext[i], "*[] ") {
				return sv.ftext[i] + "{}"
			}
		}
	}
	return "*new(" + sv.ftext[i] + ")"
}
