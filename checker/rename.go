package main

import (
	"fmt"
	"go/ast"
	"go/token"
	"go/types"
	"sort"
	"strings"

	"golang.org/x/tools/go/packages"
)

// Undoing renames (part of the normaliser, see inline.go).
//
// Rules name their anchors: servitor/jtp.Get, (*ui.State).view, the field
// Collection.construct, the variable config.Parsed. Renaming one of them is the
// commonest refactoring of all and changes nothing about behaviour, yet it would
// leave every rule that mentions the old name without its anchor. anchorSigs
// (generated with the other inventories) records, for every function, method,
// interface method, struct field, named type and package-level variable or
// constant of the tree the rules were written against, its type. When such a
// name has disappeared from a package and exactly one new name with the same
// type has appeared in the same place (same package; same receiver / struct /
// interface), the new name is the old one renamed, and it is renamed back, in
// memory, at its declaration and at every reference in the module.

type renameObj struct {
	kind string // func, method, imethod, field, type, var
	key  string // inventory key
	sig  string
	obj  types.Object
}

func qualFull(p *types.Package) string { return p.Path() }

func sigString(t types.Type) string {
	if s, ok := t.(*types.Signature); ok {
		var ps, rs []string
		for i := 0; i < s.Params().Len(); i++ {
			pt := types.TypeString(s.Params().At(i).Type(), qualFull)
			if s.Variadic() && i == s.Params().Len()-1 {
				pt = "..." + strings.TrimPrefix(pt, "[]")
			}
			ps = append(ps, pt)
		}
		for i := 0; i < s.Results().Len(); i++ {
			rs = append(rs, types.TypeString(s.Results().At(i).Type(), qualFull))
		}
		return "func(" + strings.Join(ps, ", ") + ") (" + strings.Join(rs, ", ") + ")"
	}
	return types.TypeString(t, qualFull)
}

// inventory lists the nameable objects of the servitor packages with their types.
func inventory(pkgs []*packages.Package) []renameObj {
	var out []renameObj
	seenPkg := map[string]bool{}
	for _, pkg := range pkgs {
		if !isServitorPath(pkg.PkgPath) || pkg.Types == nil || seenPkg[pkg.PkgPath] {
			continue
		}
		seenPkg[pkg.PkgPath] = true
		sc := pkg.Types.Scope()
		for _, name := range sc.Names() {
			obj := sc.Lookup(name)
			// declared in a test file? skip
			if f := pkg.Fset.File(obj.Pos()); f != nil && strings.HasSuffix(f.Name(), "_test.go") {
				continue
			}
			switch o := obj.(type) {
			case *types.Func:
				out = append(out, renameObj{"func", pkg.PkgPath + "." + name, sigString(o.Type()), o})
			case *types.Var, *types.Const:
				out = append(out, renameObj{"var", "var:" + pkg.PkgPath + "." + name, sigString(obj.Type()), obj})
			case *types.TypeName:
				if o.IsAlias() {
					continue
				}
				named, ok := o.Type().(*types.Named)
				if !ok {
					continue
				}
				out = append(out, renameObj{"type", "type:" + pkg.PkgPath + "." + name, typeShape(named), o})
				for i := 0; i < named.NumMethods(); i++ {
					m := named.Method(i)
					out = append(out, renameObj{"method", pkg.PkgPath + ".(" + name + ")." + m.Name(), sigString(m.Type()), m})
				}
				switch u := named.Underlying().(type) {
				case *types.Struct:
					for i := 0; i < u.NumFields(); i++ {
						f := u.Field(i)
						out = append(out, renameObj{"field", "field:" + pkg.PkgPath + "." + name + "." + f.Name(), sigString(f.Type()), f})
					}
				case *types.Interface:
					for i := 0; i < u.NumExplicitMethods(); i++ {
						m := u.ExplicitMethod(i)
						out = append(out, renameObj{"imethod", "imethod:" + pkg.PkgPath + "." + name + "." + m.Name(), sigString(m.Type()), m})
					}
				}
			}
		}
	}
	sort.Slice(out, func(i, j int) bool { return out[i].key < out[j].key })
	return out
}

// typeShape: what a named type looks like apart from its own name: the kinds
// and types of its fields / methods, names left out (so that a renamed type
// whose fields were also renamed still matches).
func typeShape(n *types.Named) string {
	self := types.TypeString(n, qualFull)
	var parts []string
	switch u := n.Underlying().(type) {
	case *types.Struct:
		for i := 0; i < u.NumFields(); i++ {
			parts = append(parts, strings.ReplaceAll(sigString(u.Field(i).Type()), self, "SELF"))
		}
		return "struct{" + strings.Join(parts, "; ") + "}"
	case *types.Interface:
		for i := 0; i < u.NumExplicitMethods(); i++ {
			parts = append(parts, strings.ReplaceAll(sigString(u.ExplicitMethod(i).Type()), self, "SELF"))
		}
		sort.Strings(parts)
		return "interface{" + strings.Join(parts, "; ") + "}"
	}
	return strings.ReplaceAll(types.TypeString(n.Underlying(), qualFull), self, "SELF")
}

// owner of an inventory key: everything up to the last dot (package, or package.Type).
func keyOwner(k string) string {
	i := strings.LastIndex(k, ".")
	if i < 0 {
		return k
	}
	return k[:i]
}

// renameRound finds names that were renamed and produces the edits that rename
// them back. Types are handled in a round of their own (their names occur in
// the keys and signatures of everything else).
func renameRound(pkgs []*packages.Package, overlay map[string][]byte) (map[string][]byte, []string) {
	inv := inventory(pkgs)
	present := map[string]renameObj{}
	for _, o := range inv {
		present[o.key] = o
	}
	var missing []string
	for k := range anchorSigs {
		if _, ok := present[k]; !ok && !strings.HasPrefix(k, "names:") && !strings.HasPrefix(k, "syn:") {
			missing = append(missing, k)
		}
	}
	sort.Strings(missing)
	// candidates: present but unknown to the inventory
	var news []renameObj
	for _, o := range inv {
		if _, known := anchorSigs[o.key]; !known {
			news = append(news, o)
		}
	}
	if ed, lg := wrapperSwap(pkgs, overlay, inv, news); len(ed) > 0 {
		return ed, lg
	}
	if len(missing) == 0 {
		return nil, nil
	}
	kindOf := func(k string) string {
		switch {
		case strings.HasPrefix(k, "type:"):
			return "type"
		case strings.HasPrefix(k, "field:"):
			return "field"
		case strings.HasPrefix(k, "imethod:"):
			return "imethod"
		case strings.HasPrefix(k, "var:"):
			return "var"
		case strings.Contains(k, ".("):
			return "method"
		}
		return "func"
	}
	// types first, alone
	typesMissing := false
	for _, m := range missing {
		if kindOf(m) == "type" {
			typesMissing = true
		}
	}
	type rn struct {
		obj types.Object
		old string
		key string
	}
	var renames []rn
	var log []string
	used := map[types.Object]bool{}
	for _, m := range missing {
		k := kindOf(m)
		if typesMissing && k != "type" {
			continue
		}
		var cands []renameObj
		for _, n := range news {
			if n.kind != k || keyOwner(n.key) != keyOwner(m) || n.sig != anchorSigs[m] || used[n.obj] {
				continue
			}
			cands = append(cands, n)
		}
		// several missing names of the same owner with the same type: ambiguous
		same := 0
		for _, m2 := range missing {
			if kindOf(m2) == k && keyOwner(m2) == keyOwner(m) && anchorSigs[m2] == anchorSigs[m] {
				same++
			}
		}
		if len(cands) == 1 && same == 1 {
			old := m[strings.LastIndex(m, ".")+1:]
			renames = append(renames, rn{cands[0].obj, old, m})
			used[cands[0].obj] = true
			log = append(log, fmt.Sprintf("renamed back: %s is %s under a new name (%s)", cands[0].key, m, cands[0].obj.Name()))
		}
	}
	if len(renames) == 0 {
		return nil, nil
	}
	type edit struct {
		lo, hi int
		text   string
	}
	edits := map[string][]edit{}
	// an unexported name that is now used from other packages cannot simply be
	// put back. A struct type without methods gets a private copy under the old
	// name in each package that uses it (privatise); the type checker then says
	// whether values of it ever crossed the package boundary as that type.
	// Anything else keeps its new name.
	handled := map[token.Pos]bool{}
	kept := renames[:0]
	for _, r := range renames {
		if ast.IsExported(r.old) || !ast.IsExported(r.obj.Name()) || r.obj.Pkg() == nil {
			kept = append(kept, r)
			continue
		}
		var users []*packages.Package
		for _, pkg := range pkgs {
			if !isServitorPath(pkg.PkgPath) || pkg.Types == r.obj.Pkg() || pkg.TypesInfo == nil {
				continue
			}
			for _, o := range pkg.TypesInfo.Uses {
				if v, ok := o.(*types.Var); ok {
					o = v.Origin()
				}
				if o == r.obj {
					users = append(users, pkg)
					break
				}
			}
		}
		if len(users) == 0 {
			kept = append(kept, r)
			continue
		}
		tn, isType := r.obj.(*types.TypeName)
		if !isType || renamePrivatiseOff {
			log = append(log, fmt.Sprintf("not renamed back: %s is used from other packages under its exported name", r.obj.Name()))
			continue
		}
		pedits, why := privatise(pkgs, overlay, tn, r.old, users, handled)
		if why != "" {
			log = append(log, fmt.Sprintf("not renamed back: %s is used from other packages (%s)", r.obj.Name(), why))
			continue
		}
		for fn, es := range pedits {
			for _, e := range es {
				edits[fn] = append(edits[fn], edit{e.lo, e.hi, e.text})
			}
		}
		log = append(log, fmt.Sprintf("private copy of type %s.%s under its old name %s for the packages that use it", r.obj.Pkg().Path(), r.obj.Name(), r.old))
		kept = append(kept, r)
	}
	renames = kept
	if len(renames) == 0 {
		return nil, log
	}
	byObj := map[types.Object]string{}
	for _, r := range renames {
		byObj[r.obj] = r.old
	}
	for _, pkg := range pkgs {
		if !isServitorPath(pkg.PkgPath) {
			continue
		}
		for _, f := range pkg.Syntax {
			fname := pkg.Fset.File(f.Pos()).Name()
			ast.Inspect(f, func(n ast.Node) bool {
				id, ok := n.(*ast.Ident)
				if !ok {
					return true
				}
				obj := pkg.TypesInfo.Defs[id]
				if obj == nil {
					obj = pkg.TypesInfo.Uses[id]
				}
				if obj == nil {
					return true
				}
				// methods and fields of instantiated / embedded origins resolve to the same object
				if fn, ok := obj.(*types.Func); ok {
					obj = fn.Origin()
				}
				if v, ok := obj.(*types.Var); ok {
					obj = v.Origin()
				}
				old, ok := byObj[obj]
				if !ok || handled[id.Pos()] {
					return true
				}
				edits[fname] = append(edits[fname], edit{pkg.Fset.Position(id.Pos()).Offset, pkg.Fset.Position(id.End()).Offset, old})
				return true
			})
		}
	}
	out := map[string][]byte{}
	for fn, es := range edits {
		sort.Slice(es, func(i, j int) bool { return es[i].lo > es[j].lo })
		buf := append([]byte{}, readSource(fn, overlay)...)
		last := -1
		for _, e := range es {
			if e.lo == last {
				continue // the same identifier seen through two packages (test variants)
			}
			last = e.lo
			buf = append(buf[:e.lo], append([]byte(e.text), buf[e.hi:]...)...)
		}
		out[fn] = buf
	}
	return out, log
}

var _ = token.NoPos

// ---------------------------------------------------------------------------
// methods that became functions, and permuted parameter / result lists

// paramNames: the parameter and result names of the anchors ("name:key" -> "a,b|x,y"),
// used to undo permutations when two parameters have the same type.
func namesOfSig(s *types.Signature) string {
	var ps, rs []string
	for i := 0; i < s.Params().Len(); i++ {
		ps = append(ps, s.Params().At(i).Name())
	}
	for i := 0; i < s.Results().Len(); i++ {
		rs = append(rs, s.Results().At(i).Name())
	}
	return strings.Join(ps, ",") + "|" + strings.Join(rs, ",")
}

type srcEdit struct {
	lo, hi int
	text   string
}

func applyEdits(edits map[string][]srcEdit, overlay map[string][]byte) (map[string][]byte, bool) {
	out := map[string][]byte{}
	for fn, es := range edits {
		sort.Slice(es, func(i, j int) bool { return es[i].lo > es[j].lo })
		for i := 1; i < len(es); i++ {
			if es[i].hi > es[i-1].lo {
				return nil, false
			}
		}
		buf := append([]byte{}, readSource(fn, overlay)...)
		for _, e := range es {
			buf = append(buf[:e.lo], append([]byte(e.text), buf[e.hi:]...)...)
		}
		out[fn] = buf
	}
	return out, true
}

// isSimpleOperand: an argument whose evaluation has no effect and cannot be
// affected by the evaluation of its neighbours (so arguments may be reordered).
func isSimpleOperand(e ast.Expr) bool {
	switch x := e.(type) {
	case *ast.Ident, *ast.BasicLit:
		return true
	case *ast.SelectorExpr:
		return isSimpleOperand(x.X)
	case *ast.ParenExpr:
		return isSimpleOperand(x.X)
	case *ast.UnaryExpr:
		return (x.Op == token.AND || x.Op == token.SUB || x.Op == token.NOT) && isSimpleOperand(x.X)
	case *ast.StarExpr:
		return isSimpleOperand(x.X)
	}
	return false
}

// reshapeRound undoes (a) a method of the inventory that became a function
// taking the former receiver first and (b) a function of the inventory whose
// parameters or results were reordered.
func reshapeRound(pkgs []*packages.Package, overlay map[string][]byte) (map[string][]byte, []string) {
	inv := inventory(pkgs)
	present := map[string]renameObj{}
	for _, o := range inv {
		present[o.key] = o
	}
	edits := map[string][]srcEdit{}
	var log []string
	declOf := func(obj types.Object) (*packages.Package, *ast.File, *ast.FuncDecl) {
		for _, pkg := range pkgs {
			if !isServitorPath(pkg.PkgPath) {
				continue
			}
			for _, f := range pkg.Syntax {
				for _, d := range f.Decls {
					if fd, ok := d.(*ast.FuncDecl); ok && pkg.TypesInfo.Defs[fd.Name] == obj {
						return pkg, f, fd
					}
				}
			}
		}
		return nil, nil, nil
	}
	// every reference to obj with the call it is the callee of (nil if used otherwise)
	type ref struct {
		pkg   *packages.Package
		file  *ast.File
		fexpr ast.Expr
		call  *ast.CallExpr
		stack []ast.Node
	}
	refsOf := func(obj types.Object) []ref {
		var out []ref
		for _, pkg := range pkgs {
			if !isServitorPath(pkg.PkgPath) {
				continue
			}
			for _, f := range pkg.Syntax {
				var stack []ast.Node
				ast.Inspect(f, func(n ast.Node) bool {
					if n == nil {
						stack = stack[:len(stack)-1]
						return true
					}
					stack = append(stack, n)
					id, ok := n.(*ast.Ident)
					if !ok {
						return true
					}
					o := pkg.TypesInfo.Uses[id]
					if fn, ok := o.(*types.Func); ok {
						o = fn.Origin()
					}
					if o != obj {
						return true
					}
					var fexpr ast.Expr = id
					up := len(stack) - 2
					if sel, ok := stack[up].(*ast.SelectorExpr); ok && sel.Sel == id {
						fexpr = sel
						up--
					}
					var call *ast.CallExpr
					if c, ok := stack[up].(*ast.CallExpr); ok && c.Fun == fexpr {
						call = c
					}
					out = append(out, ref{pkg, f, fexpr, call, append([]ast.Node{}, stack[:up+1]...)})
					return true
				})
			}
		}
		return out
	}
	text := func(pkg *packages.Package, n ast.Node) string {
		fn := pkg.Fset.File(n.Pos()).Name()
		src := readSource(fn, overlay)
		return string(src[pkg.Fset.Position(n.Pos()).Offset:pkg.Fset.Position(n.End()).Offset])
	}
	off := func(pkg *packages.Package, p token.Pos) int { return pkg.Fset.Position(p).Offset }
	fileName := func(pkg *packages.Package, n ast.Node) string { return pkg.Fset.File(n.Pos()).Name() }

	// (a) methods that became functions
	var missingMethods []string
	for k := range anchorSigs {
		if _, ok := present[k]; !ok && strings.Contains(k, ".(") && !strings.Contains(k, ":") {
			missingMethods = append(missingMethods, k)
		}
	}
	sort.Strings(missingMethods)
	usedFunc := map[types.Object]bool{}
	for _, mk := range missingMethods {
		// pkg.(T).m
		pkgPath := mk[:strings.Index(mk, ".(")]
		tname := mk[strings.Index(mk, ".(")+2 : strings.Index(mk, ").")]
		mname := mk[strings.Index(mk, ").")+2:]
		want := anchorSigs[mk] // func(P) (R)
		var cands []renameObj
		for _, o := range inv {
			if o.kind != "func" || keyOwner(o.key) != pkgPath || usedFunc[o.obj] {
				continue
			}
			if _, known := anchorSigs[o.key]; known {
				continue
			}
			for _, recv := range []string{pkgPath + "." + tname, "*" + pkgPath + "." + tname} {
				rest := strings.TrimPrefix(want, "func(")
				with := "func(" + recv
				if !strings.HasPrefix(rest, ")") {
					with += ", "
				}
				if o.sig == with+rest {
					cands = append(cands, o)
				}
			}
		}
		if len(cands) != 1 {
			continue
		}
		fobj := cands[0].obj
		pkg, _, fd := declOf(fobj)
		if fd == nil || fd.Recv != nil || fd.Type.Params == nil || len(fd.Type.Params.List) == 0 || fd.Type.TypeParams != nil {
			continue
		}
		first := fd.Type.Params.List[0]
		if len(first.Names) != 1 {
			continue
		}
		rs := refsOf(fobj)
		okAll := true
		for _, r := range rs {
			if r.call == nil || len(r.call.Args) < 1 || r.call.Ellipsis.IsValid() && len(r.call.Args) == 1 {
				okAll = false
			}
		}
		if !okAll {
			continue
		}
		usedFunc[fobj] = true
		// declaration: func f(r T, rest) -> func (r T) m(rest)
		restLo := off(pkg, first.End())
		if len(fd.Type.Params.List) > 1 {
			restLo = off(pkg, fd.Type.Params.List[1].Pos())
		}
		header := "func (" + first.Names[0].Name + " " + text(pkg, first.Type) + ") " + mname + "("
		fn := fileName(pkg, fd)
		edits[fn] = append(edits[fn], srcEdit{off(pkg, fd.Pos()), restLo, header})
		for _, r := range rs {
			recv := text(r.pkg, r.call.Args[0])
			argLo := off(r.pkg, r.call.Args[0].End())
			if len(r.call.Args) > 1 {
				argLo = off(r.pkg, r.call.Args[1].Pos())
			}
			f2 := fileName(r.pkg, r.call)
			edits[f2] = append(edits[f2], srcEdit{off(r.pkg, r.fexpr.Pos()), argLo, "(" + recv + ")." + mname + "("})
		}
		log = append(log, fmt.Sprintf("method restored: %s is %s turned into a function", cands[0].key, mk))
	}

	// (a') functions that became methods: a function of the inventory has
	// disappeared while a method of the same name has appeared in its package whose
	// receiver type is the type of one of the function's parameters and whose
	// parameters are the others, in order
	var missingFuncs []string
	for k := range anchorSigs {
		if _, ok := present[k]; !ok && !strings.Contains(k, ".(") && !strings.Contains(k, ":") && strings.HasPrefix(anchorSigs[k], "func(") {
			missingFuncs = append(missingFuncs, k)
		}
	}
	sort.Strings(missingFuncs)
	for _, fk := range missingFuncs {
		pkgPath := fk[:strings.LastIndex(fk, ".")]
		fname := fk[strings.LastIndex(fk, ".")+1:]
		want := anchorSigs[fk]
		i := strings.Index(want, ") (")
		if i < 0 {
			continue
		}
		wantParams := splitTop(want[len("func("):i])
		wantRest := want[i:]
		var cand *renameObj
		pos := -1
		for idx := range inv {
			o := inv[idx]
			if o.kind != "method" || !strings.HasPrefix(o.key, pkgPath+".(") || !strings.HasSuffix(o.key, ")."+fname) {
				continue
			}
			if _, known := anchorSigs[o.key]; known {
				continue
			}
			j := strings.Index(o.sig, ") (")
			if j < 0 || o.sig[j:] != wantRest {
				continue
			}
			var have []string
			if ps := o.sig[len("func("):j]; ps != "" {
				have = splitTop(ps)
			}
			if len(have)+1 != len(wantParams) {
				continue
			}
			tname := o.key[strings.Index(o.key, ".(")+2 : strings.Index(o.key, ").")]
			names := strings.Split(strings.SplitN(anchorSigs["names:"+fk], "|", 2)[0], ",")
			sigRecv := o.obj.Type().(*types.Signature).Recv()
			for k := range wantParams {
				if wantParams[k] != pkgPath+"."+tname && wantParams[k] != "*"+pkgPath+"."+tname {
					continue
				}
				rest := append(append([]string{}, wantParams[:k]...), wantParams[k+1:]...)
				if strings.Join(rest, ", ") != strings.Join(have, ", ") {
					continue
				}
				// prefer the position whose old parameter name is the receiver's name
				if pos < 0 || (k < len(names) && sigRecv != nil && names[k] == sigRecv.Name()) {
					cand, pos = &inv[idx], k
				}
			}
		}
		if cand == nil {
			continue
		}
		pkg, _, fd := declOf(cand.obj)
		if fd == nil || fd.Recv == nil || len(fd.Recv.List) != 1 || len(fd.Recv.List[0].Names) != 1 || fd.Type.TypeParams != nil {
			continue
		}
		rs := refsOf(cand.obj)
		okAll := true
		for _, r := range rs {
			sel, isSel := r.fexpr.(*ast.SelectorExpr)
			if r.call == nil || !isSel || r.call.Ellipsis.IsValid() {
				okAll = false
				continue
			}
			if si := r.pkg.TypesInfo.Selections[sel]; si == nil || len(si.Index()) != 1 {
				okAll = false
			}
		}
		if !okAll {
			continue
		}
		recvField := fd.Recv.List[0]
		recvDecl := recvField.Names[0].Name + " " + text(pkg, recvField.Type)
		// declaration: func (r T) f(a, b) -> func f(a, r T, b)
		var params []string
		if fd.Type.Params != nil {
			for _, fl := range fd.Type.Params.List {
				if len(fl.Names) == 0 {
					params = append(params, text(pkg, fl.Type))
					continue
				}
				for _, nm := range fl.Names {
					params = append(params, nm.Name+" "+text(pkg, fl.Type))
				}
			}
		}
		if pos > len(params) {
			continue
		}
		params = append(params[:pos], append([]string{recvDecl}, params[pos:]...)...)
		fn := fileName(pkg, fd)
		edits[fn] = append(edits[fn], srcEdit{off(pkg, fd.Pos()), off(pkg, fd.Type.Params.Closing) + 1, "func " + fname + "(" + strings.Join(params, ", ") + ")"})
		_, wantPtr := cand.obj.Type().(*types.Signature).Recv().Type().Underlying().(*types.Pointer)
		for _, r := range rs {
			sel := r.fexpr.(*ast.SelectorExpr)
			recv := text(r.pkg, sel.X)
			if t := r.pkg.TypesInfo.TypeOf(sel.X); t != nil {
				_, havePtr := t.Underlying().(*types.Pointer)
				if wantPtr && !havePtr {
					recv = "&" + recv
				} else if !wantPtr && havePtr {
					recv = "*" + recv
				}
			}
			var args []string
			for _, a := range r.call.Args {
				args = append(args, text(r.pkg, a))
			}
			if pos > len(args) {
				okAll = false
				break
			}
			args = append(args[:pos], append([]string{recv}, args[pos:]...)...)
			f2 := fileName(r.pkg, r.call)
			edits[f2] = append(edits[f2], srcEdit{off(r.pkg, r.call.Pos()), off(r.pkg, r.call.End()), fname + "(" + strings.Join(args, ", ") + ")"})
		}
		log = append(log, fmt.Sprintf("function restored: %s is %s turned into a method", cand.key, fk))
	}

	// (b) permuted parameters / results of a function that kept its name
	for _, o := range inv {
		if o.kind != "func" && o.kind != "method" {
			continue
		}
		want, known := anchorSigs[o.key]
		if !known || want == o.sig {
			continue
		}
		wantNames, haveNames := anchorSigs["names:"+o.key], namesOfSig(o.obj.Type().(*types.Signature))
		sig := o.obj.Type().(*types.Signature)
		split := func(s string) (ps, rs []string) {
			// "func(a, b) (c, d)"
			i := strings.Index(s, ") (")
			p, r := s[len("func("):i], s[i+3:len(s)-1]
			if p != "" {
				ps = splitTop(p)
			}
			if r != "" {
				rs = splitTop(r)
			}
			return
		}
		wp, wr := split(want)
		hp, hr := split(o.sig)
		if len(wp) != len(hp) || len(wr) != len(hr) {
			continue
		}
		wn := strings.Split(wantNames, "|")
		hn := strings.Split(haveNames, "|")
		if len(wn) != 2 || len(hn) != 2 {
			continue
		}
		perm := func(wantT, haveT []string, wantN, haveN string) []int {
			// for each wanted position i, the current position p[i]
			p := make([]int, len(wantT))
			usedIdx := map[int]bool{}
			wN, hN := strings.Split(wantN, ","), strings.Split(haveN, ",")
			for i := range wantT {
				p[i] = -1
				// by name first (if names are available and distinct), then by unique type
				if len(wN) == len(wantT) && len(hN) == len(haveT) && wN[i] != "" && wN[i] != "_" {
					for j := range haveT {
						if !usedIdx[j] && hN[j] == wN[i] && haveT[j] == wantT[i] {
							p[i] = j
							break
						}
					}
				}
				if p[i] < 0 {
					cnt, at := 0, -1
					for j := range haveT {
						if !usedIdx[j] && haveT[j] == wantT[i] {
							cnt++
							at = j
						}
					}
					if cnt == 1 {
						p[i] = at
					}
				}
				if p[i] < 0 {
					return nil
				}
				usedIdx[p[i]] = true
			}
			return p
		}
		pp := perm(wp, hp, wn[0], hn[0])
		rp := perm(wr, hr, wn[1], hn[1])
		if pp == nil || rp == nil {
			continue
		}
		identity := func(p []int) bool {
			for i, v := range p {
				if i != v {
					return false
				}
			}
			return true
		}
		if identity(pp) && identity(rp) {
			continue
		}
		if sig.Variadic() {
			continue
		}
		pkg, _, fd := declOf(o.obj)
		if fd == nil {
			continue
		}
		// flatten declared params / results into (name, type text) entries
		flat := func(fl *ast.FieldList) ([]string, bool) {
			var out []string
			if fl == nil {
				return nil, true
			}
			for _, f := range fl.List {
				t := text(pkg, f.Type)
				if len(f.Names) == 0 {
					out = append(out, t)
				}
				for _, nm := range f.Names {
					out = append(out, nm.Name+" "+t)
				}
			}
			return out, true
		}
		dps, _ := flat(fd.Type.Params)
		drs, _ := flat(fd.Type.Results)
		if len(dps) != len(hp) || len(drs) != len(hr) {
			continue
		}
		var local []struct {
			file string
			e    srcEdit
		}
		add := func(file string, e srcEdit) {
			local = append(local, struct {
				file string
				e    srcEdit
			}{file, e})
		}
		okAll := true
		fn := fileName(pkg, fd)
		if !identity(pp) {
			var np []string
			for i := range pp {
				np = append(np, dps[pp[i]])
			}
			add(fn, srcEdit{off(pkg, fd.Type.Params.Opening) + 1, off(pkg, fd.Type.Params.Closing), strings.Join(np, ", ")})
		}
		if !identity(rp) {
			var nr []string
			for i := range rp {
				nr = append(nr, drs[rp[i]])
			}
			if fd.Type.Results.Opening.IsValid() {
				add(fn, srcEdit{off(pkg, fd.Type.Results.Opening) + 1, off(pkg, fd.Type.Results.Closing), strings.Join(nr, ", ")})
			} else {
				okAll = false
			}
			// every return statement of the function (not of nested literals)
			ast.Inspect(fd.Body, func(n ast.Node) bool {
				if _, isLit := n.(*ast.FuncLit); isLit {
					return false
				}
				ret, ok := n.(*ast.ReturnStmt)
				if !ok || len(ret.Results) == 0 {
					return true
				}
				if len(ret.Results) != len(rp) {
					okAll = false
					return true
				}
				var parts []string
				for i := range rp {
					if !isSimpleOperand(ret.Results[rp[i]]) {
						if _, isCall := ret.Results[rp[i]].(*ast.CallExpr); isCall {
							// calls among the results: reordering would change evaluation order
							nCalls := 0
							for _, r := range ret.Results {
								if !isSimpleOperand(r) {
									nCalls++
								}
							}
							if nCalls > 1 {
								okAll = false
							}
						}
					}
					parts = append(parts, text(pkg, ret.Results[rp[i]]))
				}
				add(fn, srcEdit{off(pkg, ret.Results[0].Pos()), off(pkg, ret.Results[len(ret.Results)-1].End()), strings.Join(parts, ", ")})
				return true
			})
		}
		for _, r := range refsOf(o.obj) {
			if r.call == nil {
				okAll = false
				continue
			}
			f2 := fileName(r.pkg, r.call)
			if !identity(pp) {
				if len(r.call.Args) != len(pp) {
					okAll = false
					continue
				}
				var parts []string
				for i := range pp {
					a := r.call.Args[pp[i]]
					if !isSimpleOperand(a) {
						okAll = false
					}
					parts = append(parts, text(r.pkg, a))
				}
				add(f2, srcEdit{off(r.pkg, r.call.Args[0].Pos()), off(r.pkg, r.call.Args[len(r.call.Args)-1].End()), strings.Join(parts, ", ")})
			}
			if !identity(rp) {
				// the call must be the only right-hand side of an assignment or definition
				up := len(r.stack) - 2
				as, ok := r.stack[up].(*ast.AssignStmt)
				if !ok || len(as.Rhs) != 1 || as.Rhs[0] != ast.Expr(r.call) || len(as.Lhs) != len(rp) {
					okAll = false
					continue
				}
				var parts []string
				for i := range rp {
					parts = append(parts, text(r.pkg, as.Lhs[rp[i]]))
				}
				add(f2, srcEdit{off(r.pkg, as.Lhs[0].Pos()), off(r.pkg, as.Lhs[len(as.Lhs)-1].End()), strings.Join(parts, ", ")})
			}
		}
		if !okAll {
			continue
		}
		for _, l := range local {
			edits[l.file] = append(edits[l.file], l.e)
		}
		log = append(log, fmt.Sprintf("parameter/result order restored: %s", o.key))
	}
	if len(edits) == 0 {
		return nil, nil
	}
	out, ok := applyEdits(edits, overlay)
	if !ok {
		return nil, append(log, "reshaping skipped (overlapping edits)")
	}
	// a package qualifier may have become unused (mime.Matches(m, …) -> m.Matches(…))
	for fn, src := range out {
		var p *packages.Package
		for _, pkg := range pkgs {
			for _, f := range pkg.Syntax {
				if pkg.Fset.File(f.Pos()).Name() == fn {
					p = pkg
				}
			}
		}
		out[fn] = pruneImports(src, p)
	}
	return out, log
}

// splitTop splits a comma-separated list of types at top level.
func splitTop(s string) []string {
	var out []string
	depth, start := 0, 0
	for i, r := range s {
		switch r {
		case '(', '[', '{':
			depth++
		case ')', ']', '}':
			depth--
		case ',':
			if depth == 0 {
				out = append(out, strings.TrimSpace(s[start:i]))
				start = i + 1
			}
		}
	}
	return append(out, strings.TrimSpace(s[start:]))
}

// wrapperSwap: a function of the inventory whose signature is written
// differently now, while a NEW function of the same package has exactly the
// recorded signature and the old name's body is nothing but `return new(…)`,
// became a wrapper around itself (`Get(link, accept, tolerated)` calling an
// unexported `get(link, accept, tolerated, MaxRedirects)` that is the old
// `Get`). The names are swapped back: the new function gets the inventory's
// name, the wrapper a name of its own — it is then a helper unknown to the
// rules and substituted at its call sites, which read as they did before.
func wrapperSwap(pkgs []*packages.Package, overlay map[string][]byte, inv, news []renameObj) (map[string][]byte, []string) {
	byObj := map[types.Object]string{}
	var log []string
	for _, o := range inv {
		want, known := anchorSigs[o.key]
		if !known || o.kind != "func" || o.sig == want {
			continue
		}
		var cands []renameObj
		for _, n := range news {
			if n.kind == "func" && keyOwner(n.key) == keyOwner(o.key) && n.sig == want {
				cands = append(cands, n)
			}
		}
		if len(cands) != 1 {
			continue
		}
		inner := cands[0]
		// the body of the old name: a single return of a call of the candidate
		okBody := false
		for _, pkg := range pkgs {
			if !isServitorPath(pkg.PkgPath) {
				continue
			}
			for _, f := range pkg.Syntax {
				for _, d := range f.Decls {
					fd, ok := d.(*ast.FuncDecl)
					if !ok || fd.Body == nil || pkg.TypesInfo.Defs[fd.Name] != o.obj || len(fd.Body.List) != 1 {
						continue
					}
					ret, ok := fd.Body.List[0].(*ast.ReturnStmt)
					if !ok || len(ret.Results) != 1 {
						continue
					}
					call, ok := ret.Results[0].(*ast.CallExpr)
					if !ok {
						continue
					}
					if id, ok := call.Fun.(*ast.Ident); ok && pkg.TypesInfo.Uses[id] == inner.obj {
						okBody = true
					}
				}
			}
		}
		if !okBody {
			continue
		}
		name := o.obj.Name()
		wrapper := name + "Wrapped"
		if o.obj.Pkg().Scope().Lookup(wrapper) != nil {
			continue
		}
		byObj[inner.obj] = name
		byObj[o.obj] = wrapper
		log = append(log, fmt.Sprintf("wrapper undone: %s has the recorded signature of %s, which only calls it; names swapped back (the wrapper is %s now)", inner.key, o.key, wrapper))
	}
	if len(byObj) == 0 {
		return nil, nil
	}
	edits := map[string][]srcEdit{}
	seenEdit := map[string]bool{}
	for _, pkg := range pkgs {
		if !isServitorPath(pkg.PkgPath) {
			continue
		}
		for _, f := range pkg.Syntax {
			fname := pkg.Fset.File(f.Pos()).Name()
			ast.Inspect(f, func(n ast.Node) bool {
				id, ok := n.(*ast.Ident)
				if !ok {
					return true
				}
				obj := pkg.TypesInfo.Defs[id]
				if obj == nil {
					obj = pkg.TypesInfo.Uses[id]
				}
				if fn, ok := obj.(*types.Func); ok {
					obj = fn.Origin()
				}
				if nm, ok := byObj[obj]; ok {
					lo := pkg.Fset.Position(id.Pos()).Offset
					if k := fmt.Sprintf("%s:%d", fname, lo); !seenEdit[k] {
						seenEdit[k] = true
						edits[fname] = append(edits[fname], srcEdit{lo, pkg.Fset.Position(id.End()).Offset, nm})
					}
				}
				return true
			})
		}
	}
	out, ok := applyEdits(edits, overlay)
	if !ok {
		return nil, nil
	}
	return out, log
}

// renamePrivatiseOff: set by Normalise when a rename round with a private type
// copy did not type-check; the rename pass is then retried without it.
var renamePrivatiseOff bool

// privatise: edits that give every package in users its own copy of struct
// type tn (of another package) under the name old, and make its uses there
// (`p.T`) read `old`. Field names are left as they are: the rename pass puts
// them back per package in its next round.
func privatise(pkgs []*packages.Package, overlay map[string][]byte, tn *types.TypeName, old string, users []*packages.Package, handled map[token.Pos]bool) (map[string][]srcEdit, string) {
	named, _ := tn.Type().(*types.Named)
	if named == nil || named.NumMethods() > 0 || named.TypeParams().Len() > 0 {
		return nil, "it has methods or type parameters"
	}
	var home *packages.Package
	var spec *ast.TypeSpec
	var homeFile *ast.File
	for _, pkg := range pkgs {
		if pkg.Types != tn.Pkg() {
			continue
		}
		for _, f := range pkg.Syntax {
			for _, d := range f.Decls {
				gd, ok := d.(*ast.GenDecl)
				if !ok || gd.Tok != token.TYPE {
					continue
				}
				for _, sp := range gd.Specs {
					if ts := sp.(*ast.TypeSpec); pkg.TypesInfo.Defs[ts.Name] == types.Object(tn) {
						home, spec, homeFile = pkg, ts, f
					}
				}
			}
		}
	}
	if spec == nil {
		return nil, "declaration not found"
	}
	st, ok := spec.Type.(*ast.StructType)
	if !ok {
		return nil, "not a struct type"
	}
	// field types: only predeclared names and qualified names
	plain := true
	for _, fl := range st.Fields.List {
		if len(fl.Names) == 0 {
			return nil, "it embeds a type"
		}
		ast.Inspect(fl.Type, func(n ast.Node) bool {
			switch x := n.(type) {
			case *ast.SelectorExpr:
				return false
			case *ast.Ident:
				if o := home.TypesInfo.Uses[x]; o == nil || o.Pkg() != nil {
					plain = false
				}
			case *ast.StructType, *ast.FuncType, *ast.InterfaceType:
				plain = false
			}
			return true
		})
	}
	if !plain {
		return nil, "a field type is local to its package"
	}
	hsrc := readSource(home.Fset.File(homeFile.Pos()).Name(), overlay)
	hoff := func(p token.Pos) int { return home.Fset.Position(p).Offset }
	body := string(hsrc[hoff(spec.Type.Pos()):hoff(spec.Type.End())])
	out := map[string][]srcEdit{}
	for _, pkg := range users {
		if pkg.Types.Scope().Lookup(old) != nil {
			return nil, "the old name is taken in " + pkg.PkgPath
		}
		var first *ast.File
		for _, f := range pkg.Syntax {
			fname := pkg.Fset.File(f.Pos()).Name()
			if strings.HasSuffix(fname, "_test.go") {
				continue
			}
			bad := ""
			ast.Inspect(f, func(n ast.Node) bool {
				se, ok := n.(*ast.SelectorExpr)
				if !ok {
					if id, isId := n.(*ast.Ident); isId && pkg.TypesInfo.Uses[id] == types.Object(tn) && !handled[id.Pos()] {
						bad = "used without qualifier (dot import)"
					}
					return true
				}
				if pkg.TypesInfo.Uses[se.Sel] != types.Object(tn) {
					return true
				}
				handled[se.Sel.Pos()] = true
				if first == nil {
					if !portableFieldTypes(home, st, homeFile, f) {
						bad = "a field type cannot be written in " + fname
						return false
					}
					first = f
				}
				out[fname] = append(out[fname], srcEdit{pkg.Fset.Position(se.Pos()).Offset, pkg.Fset.Position(se.End()).Offset, old})
				return false
			})
			if bad != "" {
				return nil, bad
			}
		}
		if first == nil {
			continue
		}
		fname := pkg.Fset.File(first.Pos()).Name()
		end := len(readSource(fname, overlay))
		out[fname] = append(out[fname], srcEdit{end, end, "\n\ntype " + old + " " + body + "\n"})
	}
	return out, ""
}
