package main

func thoroughImpl(repo, verif string, prop *Property, res *RunResult, known KnownFile) map[string]any {
	return map[string]any{}
}

func runMutantChildImpl(repo, verif, spec string) int { return 0 }
