package main

import (
	"encoding/json"
	"fmt"
	"os"
	"os/exec"
	"path/filepath"
	"runtime"
	"sort"
	"strings"
	"sync"
)

type mutantResult struct {
	ID     string   `json:"id"`
	Status string   `json:"status"` // killed | missed | invalid | skipped
	Expect string   `json:"expect"`
	Rules  []string `json:"rules,omitempty"`
	Detail string   `json:"detail,omitempty"`
}

// runMutantChildImpl applies one mutation operator in memory (overlay), runs
// the property's rules on the mutated program and reports what fired.
func runMutantChildImpl(repo, verif, id string) int {
	var m *mutant
	for i := range mutants {
		if mutants[i].ID == id {
			m = &mutants[i]
		}
	}
	out := mutantResult{ID: id}
	emit := func() int {
		b, _ := json.Marshal(out)
		fmt.Println(string(b))
		return 0
	}
	if m == nil {
		out.Status = "invalid"
		out.Detail = "unknown mutant"
		return emit()
	}
	out.Expect = m.Expect
	path := filepath.Join(repo, m.File)
	src, err := os.ReadFile(path)
	if err != nil {
		out.Status = "skipped"
		out.Detail = "file not found"
		return emit()
	}
	if strings.Count(string(src), m.Old) < 1 {
		out.Status = "skipped"
		out.Detail = "anchor text not present in the current tree"
		return emit()
	}
	mutated := strings.Replace(string(src), m.Old, m.New, 1)
	// keep the file compiling when the mutation removes the last use of an import
	P, err := loadSafe(LoadOptions{Repo: repo, Overlay: map[string][]byte{path: []byte(mutated)}})
	if err != nil {
		out.Status = "invalid"
		out.Detail = err.Error()
		return emit()
	}
	prop := registry[m.Prop]()
	res := runProperty(P, prop, KnownFile{})
	seen := map[string]bool{}
	for _, v := range res.Violations {
		if !seen[v.Rule] {
			seen[v.Rule] = true
			out.Rules = append(out.Rules, v.Rule)
		}
	}
	sort.Strings(out.Rules)
	out.Status = "missed"
	for _, r := range out.Rules {
		if strings.HasPrefix(r, m.Expect) {
			out.Status = "killed"
		}
	}
	if out.Status == "missed" && len(res.Broken) > 0 {
		out.Detail = "rule reported the mutated tree as unanalysable: " + strings.Join(res.Broken, "; ")
	}
	return emit()
}

func thoroughImpl(repo, verif string, prop *Property, res *RunResult, known KnownFile) map[string]any {
	extra := map[string]any{}
	baseKeys := map[string]bool{}
	for _, o := range res.Obs {
		if o.Verdict == Violation {
			baseKeys[o.Key] = true
		}
	}
	// (a) the same rules on the test build, with the reserved tag, and for another architecture
	type variant struct {
		name string
		opt  LoadOptions
	}
	variants := []variant{
		{"tests", LoadOptions{Repo: repo, Tests: true, NoInline: true}}, // only type-checked: the tests are not normalised
		{"tag-verif", LoadOptions{Repo: repo, Tags: "verif"}},
		{"GOARCH=386", LoadOptions{Repo: repo, GOARCH: "386"}},
	}
	var vres []map[string]any
	for _, v := range variants {
		P, err := loadSafe(v.opt)
		if err != nil {
			res.Broken = append(res.Broken, "variant "+v.name+": "+err.Error())
			continue
		}
		if v.opt.Tests {
			// test files cannot change the behaviour of the production code the
			// properties speak about; the test build only has to load and type-check
			vres = append(vres, map[string]any{"variant": v.name, "packages_with_tests_type_check": true, "functions_outside_test_files": len(P.Funcs)})
			continue
		}
		r := runProperty(P, registry[prop.ID](), known)
		nObl := 0
		for _, rr := range r.Rules {
			nObl += rr.Obligations
		}
		newV := 0
		for _, o := range r.Violations {
			if !baseKeys[o.Key] {
				newV++
				o.Reason = "[" + v.name + " build] " + o.Reason
				res.Violations = append(res.Violations, o)
			}
		}
		for _, b := range r.Broken {
			res.Broken = append(res.Broken, "variant "+v.name+": "+b)
		}
		vres = append(vres, map[string]any{"variant": v.name, "obligations": nObl, "violations": len(r.Violations), "new_violations": newV, "functions": len(P.Funcs)})
		P = nil
		runtime.GC()
	}
	extra["variants"] = vres
	// (b) CHA cross-check: the coarser call graph may only add reports
	if P, err := loadSafe(LoadOptions{Repo: repo}); err == nil {
		P.useCHA = true
		r := runProperty(P, registry[prop.ID](), known)
		chaKeys := map[string]bool{}
		for _, o := range r.Obs {
			if o.Verdict == Violation {
				chaKeys[o.Key] = true
			}
		}
		var chaOnly, vtaOnly []string
		for k := range chaKeys {
			if !baseKeys[k] {
				chaOnly = append(chaOnly, k)
			}
		}
		for k := range baseKeys {
			if !chaKeys[k] {
				vtaOnly = append(vtaOnly, k)
			}
		}
		sort.Strings(chaOnly)
		sort.Strings(vtaOnly)
		extra["cha_crosscheck"] = map[string]any{"cha_only_reports": chaOnly, "vta_only_reports": vtaOnly,
			"note": "CHA over-approximates interface calls; CHA-only reports are listed, not failed"}
	}
	// (c) rule self-test by mutation
	var mine []mutant
	for _, m := range mutants {
		if m.Prop == prop.ID {
			mine = append(mine, m)
		}
	}
	results := make([]mutantResult, len(mine))
	exe, _ := os.Executable()
	workers := runtime.NumCPU() / 2
	if workers < 1 {
		workers = 1
	}
	if workers > 8 {
		workers = 8
	}
	sem := make(chan struct{}, workers)
	var wg sync.WaitGroup
	for i, m := range mine {
		wg.Add(1)
		go func(i int, m mutant) {
			defer wg.Done()
			sem <- struct{}{}
			defer func() { <-sem }()
			cmd := exec.Command(exe, "-mutant", m.ID, "-repo", repo, "-verif", verif)
			out, err := cmd.Output()
			r := mutantResult{ID: m.ID, Expect: m.Expect, Status: "invalid", Detail: "child failed"}
			if err == nil {
				lines := strings.Split(strings.TrimSpace(string(out)), "\n")
				_ = json.Unmarshal([]byte(lines[len(lines)-1]), &r)
			} else {
				r.Detail = "child failed: " + err.Error()
			}
			results[i] = r
		}(i, m)
	}
	wg.Wait()
	counts := map[string]int{}
	for _, r := range results {
		counts[r.Status]++
		switch r.Status {
		case "missed":
			res.Broken = append(res.Broken, fmt.Sprintf("self-test: mutant %s (expected %s) was not reported; rules fired: %v %s", r.ID, r.Expect, r.Rules, r.Detail))
		case "invalid":
			res.Broken = append(res.Broken, fmt.Sprintf("self-test: mutant %s does not type-check or could not be run: %s", r.ID, r.Detail))
		}
	}
	extra["mutation_selftest"] = map[string]any{
		"operators": len(mine), "killed": counts["killed"], "missed": counts["missed"],
		"skipped": counts["skipped"], "invalid": counts["invalid"], "results": results,
		"method": "each operator rewrites one site of the current tree in memory (go/packages overlay), the mutant must type-check, and the expected rule must report it; the program is never executed",
	}
	return extra
}
