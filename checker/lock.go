package main

import (
	"fmt"
	"go/token"
	"go/types"
	"sort"

	"golang.org/x/tools/go/ssa"
)

// E3 — lock-state dataflow for the single UI mutex (ui.State.m).
//
// Abstract state per program point: Held / Inherit (whatever the caller had) /
// NotHeld, plus "an Unlock is registered with defer on every path".  Join is
// the minimum (must-analysis).  Functions are analysed once with a symbolic
// entry state; requirements found at Inherit become requirements of the
// function ("needs the lock"), which its call sites must satisfy in turn.

type lstate int

const (
	notHeld lstate = iota
	inherit
	held
)

func (s lstate) String() string { return [...]string{"not held", "caller's state", "held"}[s] }

type lpoint struct {
	lock     lstate
	deferred bool // defer Unlock registered on every path
}

func joinL(a, b lpoint) lpoint {
	r := a
	if b.lock < r.lock {
		r.lock = b.lock
	}
	r.deferred = a.deferred && b.deferred
	return r
}

type guardedAccess struct {
	in    ssa.Instruction
	what  string // e.g. "write:State.mode", "call:State.output"
	field *types.Var
	write bool
	base  ssa.Value
	state lstate
}

type lockFuncInfo struct {
	fn       *ssa.Function
	before   map[ssa.Instruction]lpoint
	accesses []guardedAccess
	exit     lstate // state at return (after defers) as a function of entry: held/notHeld are absolute, inherit = unchanged
	hasLock  bool   // contains a direct Lock/Unlock
	returns  []*ssa.Return
}

type LockAnalysis struct {
	P         *Program
	mField    *types.Var
	outField  *types.Var
	feedField *types.Var            // Page.feed: stands for the state inside the feed in calls of its methods
	guarded   map[*types.Var]string // field -> "State.mode"
	cacheFld  map[*types.Var]string // markup cache fields -> name
	info      map[*ssa.Function]*lockFuncInfo
	mayLock   map[*ssa.Function]bool   // may synchronously reach a Lock of State.m
	touches   map[*ssa.Function]bool   // may synchronously reach a Lock or Unlock
	needs     map[*ssa.Function]string // reason the function requires the lock on entry
	origin    map[*ssa.Function]string // why a function starts with the lock not held
	summary   map[*ssa.Function]lstate
	inprog    map[*ssa.Function]bool
}

func (la *LockAnalysis) lockCallKind(c *ssa.CallCommon) string {
	if c == nil || c.IsInvoke() {
		return ""
	}
	var kind string
	switch {
	case isLibCall(c, "sync", "Mutex", "Lock"):
		kind = "lock"
	case isLibCall(c, "sync", "Mutex", "Unlock"):
		kind = "unlock"
	default:
		return ""
	}
	if len(c.Args) == 0 {
		return ""
	}
	// receiver must be State.m (loaded pointer) or &State.m
	recv := c.Args[0]
	if u, ok := recv.(*ssa.UnOp); ok && u.Op == token.MUL {
		recv = u.X
	}
	if fa, ok := recv.(*ssa.FieldAddr); ok && fieldOf(fa) == la.mField {
		return kind
	}
	return ""
}

func NewLockAnalysis(P *Program) *LockAnalysis {
	la := &LockAnalysis{
		P:         P,
		mField:    P.Field("servitor/ui", "State", "m"),
		outField:  P.Field("servitor/ui", "State", "output"),
		feedField: P.FieldOpt("servitor/ui", "Page", "feed"),
		guarded:   map[*types.Var]string{},
		cacheFld:  map[*types.Var]string{},
		info:      map[*ssa.Function]*lockFuncInfo{},
		mayLock:   map[*ssa.Function]bool{},
		touches:   map[*ssa.Function]bool{},
		needs:     map[*ssa.Function]string{},
		origin:    map[*ssa.Function]string{},
		summary:   map[*ssa.Function]lstate{},
		inprog:    map[*ssa.Function]bool{},
	}
	for _, tn := range []string{"State", "Page"} {
		st := P.NamedType("servitor/ui", tn).Underlying().(*types.Struct)
		for i := 0; i < st.NumFields(); i++ {
			f := st.Field(i)
			if f == la.mField || f == la.outField {
				continue // written once in NewState before the object is shared (checked by C08.R6)
			}
			la.guarded[f] = tn + "." + f.Name()
		}
	}
	for _, pk := range []string{"servitor/hypertext", "servitor/gemtext", "servitor/plaintext"} {
		for _, fld := range []string{"cached", "cachedWidth"} {
			if v := P.FieldOpt(pk, "Markup", fld); v != nil {
				la.cacheFld[v] = trimPkg(pk) + ".Markup." + fld
			}
		}
	}
	la.computeOrigins()
	la.computeMayLock()
	for _, fn := range P.Funcs {
		la.analyse(fn)
	}
	la.computeNeeds()
	return la
}

func (la *LockAnalysis) computeOrigins() {
	P := la.P
	for _, fn := range P.Funcs {
		pk := P.PkgOf(fn)
		if fn.Parent() == nil && (pk == "servitor/ui" || pk == "servitor") {
			if obj := fn.Object(); obj != nil && (obj.Exported() || obj.Name() == "main" || obj.Name() == "init") {
				la.origin[fn] = "exported entry point (public methods must take the lock themselves)"
			}
		}
		for _, b := range fn.Blocks {
			for _, in := range b.Instrs {
				if g, ok := in.(*ssa.Go); ok {
					for _, callee := range P.Callees(g) {
						if P.IsServitorFunc(callee) {
							la.origin[callee] = "started with a go statement at " + P.InstrPos(g)
						}
					}
				}
			}
		}
	}
	for _, fn := range P.Funcs {
		if _, ok := la.origin[fn]; ok {
			continue
		}
		for _, e := range P.Callers(fn) {
			if !P.IsServitorFunc(e.Caller.Func) {
				// called back from library code
				if async := asyncLibCaller(e.Caller.Func); async != "" {
					la.origin[fn] = "run asynchronously by " + async
				}
			}
		}
	}
}

func asyncLibCaller(fn *ssa.Function) string {
	s := fn.String()
	switch s {
	case "time.AfterFunc", "time.goFunc":
		return s
	}
	return ""
}

// computeMayLock: functions that may (synchronously, transitively) call Lock on State.m.
func (la *LockAnalysis) computeMayLock() {
	la.closeOver(la.mayLock, "lock")
	la.closeOver(la.touches, "lock")
	la.closeOver(la.touches, "unlock")
}

func (la *LockAnalysis) closeOver(set map[*ssa.Function]bool, kind string) {
	P := la.P
	for _, fn := range P.Funcs {
		eachInstr(fn, func(_ *ssa.BasicBlock, _ int, in ssa.Instruction) {
			if _, isGo := in.(*ssa.Go); isGo {
				return
			}
			if la.lockCallKind(callOf(in)) == kind {
				set[fn] = true
			}
		})
	}
	changed := true
	for changed {
		changed = false
		for _, fn := range P.Funcs {
			if set[fn] {
				continue
			}
			eachInstr(fn, func(_ *ssa.BasicBlock, _ int, in ssa.Instruction) {
				ci, ok := in.(ssa.CallInstruction)
				if !ok {
					return
				}
				if _, isGo := in.(*ssa.Go); isGo {
					return
				}
				for _, callee := range P.Callees(ci) {
					if set[callee] && !set[fn] {
						set[fn] = true
						changed = true
					}
				}
			})
		}
	}
}

// freshBase reports whether the struct being accessed was allocated in this
// very function (composite literal under construction, not yet shared).
func freshBase(base ssa.Value) bool {
	for i := 0; i < 4; i++ {
		switch b := base.(type) {
		case *ssa.Alloc:
			// a local variable holding a pointer is not a fresh object; a
			// complit/new allocation of the struct itself is
			if _, isPtr := deref(b.Type()).Underlying().(*types.Struct); isPtr {
				return true
			}
			return false
		case *ssa.FieldAddr:
			base = b.X
		default:
			return false
		}
	}
	return false
}

func (la *LockAnalysis) classify(in ssa.Instruction) []guardedAccess {
	var out []guardedAccess
	switch x := in.(type) {
	case *ssa.FieldAddr:
		f := fieldOf(x)
		name, ok := la.guarded[f]
		cache := false
		if !ok {
			name, ok = la.cacheFld[f]
			cache = ok
		}
		if !ok || freshBase(x.X) {
			return nil
		}
		write := false
		for _, r := range refs(x) {
			switch r := r.(type) {
			case *ssa.Store:
				if r.Addr == ssa.Value(x) {
					write = true
				}
			case *ssa.UnOp:
			default:
				// address escapes into a call / another address computation:
				// treated as a write (e.g. s.h.Add(..) mutates through &s.h)
				write = true
			}
		}
		if cache && !write {
			return nil // only writes of the render cache need serialising
		}
		kind := "read:"
		if write {
			kind = "write:"
		}
		out = append(out, guardedAccess{in: in, what: kind + name, field: f, write: write, base: x.X})
	case *ssa.Field:
		f := fieldOf(x)
		if name, ok := la.guarded[f]; ok {
			out = append(out, guardedAccess{in: in, what: "read:" + name, field: f, base: x.X})
		}
	}
	// the cursor and bounds of a feed, and the history, are UI state too: their methods
	// read and write them, so a call from package ui needs the lock like a field access does
	if c := callOf(in); c != nil && !c.IsInvoke() {
		if sc := c.StaticCallee(); sc != nil && sc.Signature.Recv() != nil && len(c.Args) > 0 && in.Parent() != nil && in.Parent().Pkg != nil && in.Parent().Pkg.Pkg.Path() == "servitor/ui" {
			rt := sc.Signature.Recv().Type()
			if isNamed(rt, "servitor/feed", "Feed") && la.feedField != nil && !freshBase(c.Args[0]) {
				write := false
				switch sc.Name() {
				case "Append", "Prepend", "MoveUp", "MoveDown", "MoveToCenter":
					write = true
				}
				out = append(out, guardedAccess{in: in, what: "call:Feed." + sc.Name(), field: la.feedField, write: write, base: c.Args[0]})
			}
		}
	}
	if c := callOf(in); c != nil && !c.IsInvoke() {
		v := c.Value
		if u, ok := v.(*ssa.UnOp); ok && u.Op == token.MUL {
			if fa, ok := u.X.(*ssa.FieldAddr); ok && fieldOf(fa) == la.outField {
				out = append(out, guardedAccess{in: in, what: "call:State.output", field: la.outField, write: true, base: fa.X})
			}
		}
	}
	return out
}

func (la *LockAnalysis) analyse(fn *ssa.Function) *lockFuncInfo {
	if fi, ok := la.info[fn]; ok {
		return fi
	}
	fi := &lockFuncInfo{fn: fn, before: map[ssa.Instruction]lpoint{}}
	la.info[fn] = fi
	if len(fn.Blocks) == 0 {
		fi.exit = inherit
		return fi
	}
	in := map[*ssa.BasicBlock]lpoint{}
	visited := map[*ssa.BasicBlock]bool{}
	in[fn.Blocks[0]] = lpoint{lock: inherit}
	visited[fn.Blocks[0]] = true
	work := []*ssa.BasicBlock{fn.Blocks[0]}
	out := map[*ssa.BasicBlock]lpoint{}
	for len(work) > 0 {
		b := work[0]
		work = work[1:]
		st := in[b]
		for _, instr := range b.Instrs {
			fi.before[instr] = st
			st = la.transfer(fi, instr, st)
		}
		out[b] = st
		for _, s := range b.Succs {
			ns := st
			if visited[s] {
				ns = joinL(in[s], st)
				if ns == in[s] {
					continue
				}
			}
			visited[s] = true
			in[s] = ns
			work = append(work, s)
		}
	}
	// exit state
	exit := held
	any := false
	for _, b := range fn.Blocks {
		if !visited[b] {
			continue
		}
		if r, ok := b.Instrs[len(b.Instrs)-1].(*ssa.Return); ok {
			fi.returns = append(fi.returns, r)
			st := fi.before[r]
			e := st.lock
			if st.deferred {
				e = notHeld
			}
			if e < exit {
				exit = e
			}
			any = true
		}
	}
	if !any {
		exit = inherit
	}
	fi.exit = exit
	// collect guarded accesses with their state
	for _, b := range fn.Blocks {
		if !visited[b] {
			continue
		}
		for _, instr := range b.Instrs {
			for _, ga := range la.classify(instr) {
				ga.state = fi.before[instr].lock
				fi.accesses = append(fi.accesses, ga)
			}
		}
	}
	return fi
}

func (la *LockAnalysis) transfer(fi *lockFuncInfo, instr ssa.Instruction, st lpoint) lpoint {
	switch x := instr.(type) {
	case *ssa.Defer:
		if la.lockCallKind(&x.Call) == "unlock" {
			fi.hasLock = true
			st.deferred = true
		}
		return st
	case *ssa.Go:
		return st
	case *ssa.Call:
		switch la.lockCallKind(&x.Call) {
		case "lock":
			fi.hasLock = true
			st.lock = held
			return st
		case "unlock":
			fi.hasLock = true
			st.lock = notHeld
			return st
		}
		// effect of a synchronous callee on the lock
		res := lstate(-1)
		for _, callee := range la.P.Callees(x) {
			if !la.P.IsServitorFunc(callee) || !la.touches[callee] {
				continue
			}
			e := la.exitOf(callee)
			var after lstate
			switch e {
			case inherit:
				after = st.lock
			default:
				after = e
			}
			if res < 0 || after < res {
				res = after
			}
		}
		if res >= 0 {
			st.lock = res
		}
	}
	return st
}

func (la *LockAnalysis) exitOf(fn *ssa.Function) lstate {
	if fi, ok := la.info[fn]; ok {
		return fi.exit
	}
	if la.inprog[fn] {
		return inherit
	}
	la.inprog[fn] = true
	fi := la.analyse(fn)
	delete(la.inprog, fn)
	return fi.exit
}

// effectiveState folds "inherit" for origins into notHeld.
func (la *LockAnalysis) effective(fn *ssa.Function, s lstate) lstate {
	if s == inherit {
		if _, isOrigin := la.origin[fn]; isOrigin {
			return notHeld
		}
	}
	return s
}

// computeNeeds: a function needs the lock on entry if, at a point where it
// still has its caller's state, it touches guarded state or calls a function
// that needs the lock.
func (la *LockAnalysis) computeNeeds() {
	P := la.P
	for _, fn := range P.Funcs {
		fi := la.info[fn]
		for _, ga := range fi.accesses {
			if ga.state == inherit {
				if _, ok := la.needs[fn]; !ok {
					la.needs[fn] = fmt.Sprintf("%s at %s", ga.what, P.InstrPos(ga.in))
				}
			}
		}
	}
	changed := true
	for changed {
		changed = false
		for _, fn := range P.Funcs {
			if _, ok := la.needs[fn]; ok {
				continue
			}
			fi := la.info[fn]
			eachInstr(fn, func(_ *ssa.BasicBlock, _ int, in ssa.Instruction) {
				c, ok := in.(*ssa.Call)
				if !ok {
					return
				}
				if st, seen := fi.before[in]; !seen || st.lock != inherit {
					return
				}
				for _, callee := range P.Callees(c) {
					if why, ok := la.needs[callee]; ok {
						if _, already := la.needs[fn]; !already {
							la.needs[fn] = fmt.Sprintf("calls %s (%s)", callee.String(), why)
							changed = true
						}
					}
				}
			})
		}
	}
}

// sortedFuncs returns map keys in a deterministic order.
func sortedFuncs[V any](m map[*ssa.Function]V) []*ssa.Function {
	var out []*ssa.Function
	for f := range m {
		out = append(out, f)
	}
	sort.Slice(out, func(i, j int) bool {
		if out[i].Pos() != out[j].Pos() {
			return out[i].Pos() < out[j].Pos()
		}
		return out[i].String() < out[j].String()
	})
	return out
}
