package main

import (
	"fmt"
	"go/token"
	"go/types"
	"sort"
	"strings"

	"golang.org/x/tools/go/ssa"
)

// E6(b) — linear forms over integer SSA expressions: Σ cᵢ·symᵢ + c.

type linForm struct {
	coef map[string]int64
	c    int64
}

func newLin() linForm { return linForm{coef: map[string]int64{}} }

func (a linForm) add(b linForm, k int64) linForm {
	r := newLin()
	for s, v := range a.coef {
		r.coef[s] = v
	}
	for s, v := range b.coef {
		r.coef[s] += k * v
		if r.coef[s] == 0 {
			delete(r.coef, s)
		}
	}
	r.c = a.c + k*b.c
	return r
}

func (a linForm) isConst() bool { return len(a.coef) == 0 }

func (a linForm) String() string {
	var keys []string
	for k := range a.coef {
		keys = append(keys, k)
	}
	sort.Strings(keys)
	var parts []string
	for _, k := range keys {
		parts = append(parts, fmt.Sprintf("%+d·%s", a.coef[k], shortSym(k)))
	}
	parts = append(parts, fmt.Sprintf("%+d", a.c))
	return strings.Join(parts, " ")
}

func shortSym(s string) string {
	s = trimPkg(s)
	if len(s) > 60 {
		s = "…" + s[len(s)-58:]
	}
	return s
}

// normSym: canonical symbol for a non-linear leaf; the receiver parameter of a
// method is rendered as "recv" so that forms from sibling methods compare.
func normSym(v ssa.Value) string {
	p := path(v)
	fn := v.Parent()
	if fn != nil && fn.Signature.Recv() != nil && len(fn.Params) > 0 {
		recv := "param:" + fn.String() + ":" + fn.Params[0].Name()
		p = strings.ReplaceAll(p, recv, "recv")
	}
	return p
}

// lin normalises an integer expression.
func lin(v ssa.Value) linForm {
	return linDepth(v, 0)
}

func linDepth(v ssa.Value, d int) linForm {
	r := newLin()
	if d > 16 {
		r.coef[normSym(v)] = 1
		return r
	}
	// a local that is assigned once (possibly captured by a closure) stands for its value
	if u := unwrapLoad(v); u != v && d < 12 {
		if _, isLoad := u.(*ssa.UnOp); !isLoad {
			return linDepth(u, d+1)
		}
	}
	switch x := v.(type) {
	case *ssa.Const:
		if k, ok := constInt(x); ok {
			r.c = k
			return r
		}
	case *ssa.BinOp:
		// the index variable of a range loop (phi + 1) is one symbol
		if ph, ok := x.X.(*ssa.Phi); ok && ph.Comment == "rangeindex" && x.Op == token.ADD {
			if k, ok := constInt(x.Y); ok && k == 1 {
				r.coef["rangeidx:"+normSym(v)] = 1
				return r
			}
		}
		switch x.Op {
		case token.ADD:
			return linDepth(x.X, d+1).add(linDepth(x.Y, d+1), 1)
		case token.SUB:
			return linDepth(x.X, d+1).add(linDepth(x.Y, d+1), -1)
		case token.MUL:
			if k, ok := constInt(x.Y); ok {
				return newLin().add(linDepth(x.X, d+1), k)
			}
			if k, ok := constInt(x.X); ok {
				return newLin().add(linDepth(x.Y, d+1), k)
			}
		}
	case *ssa.Phi:
		// a counter that runs along with the index of a range loop: one more on every
		// way round, so inside the body it is its initial value plus the index
		if init, idx, ok := coCounter(x); ok {
			return linDepth(init, d+1).add(linDepth(idx, d+1), 1)
		}
	case *ssa.Convert:
		// integer <-> integer conversions keep the value inside the guarded
		// ranges the rules establish; treated as identity for the form
		if isInteger(x.X.Type()) && isInteger(x.Type()) {
			return linDepth(x.X, d+1)
		}
	case *ssa.ChangeType:
		return linDepth(x.X, d+1)
	case *ssa.Call:
		if b, ok := x.Call.Value.(*ssa.Builtin); ok && b.Name() == "len" {
			if d < 12 {
				return lenLinD(x.Call.Args[0], d+1)
			}
			r.coef["len("+normSym(x.Call.Args[0])+")"] = 1
			return r
		}
	case *ssa.UnOp:
		if x.Op == token.SUB {
			return newLin().add(linDepth(x.X, d+1), -1)
		}
		if x.Op == token.MUL {
			if w := unwrapLoad(v); w != v {
				return linDepth(w, d+1)
			}
		}
	}
	r.coef[normSym(v)] = 1
	return r
}

// ineqs turns the branch facts into linear inequalities form >= 0.
func ineqs(facts []Fact) []linForm {
	var out []linForm
	for _, f := range facts {
		cmp, ok := f.Cmp()
		if !ok {
			continue
		}
		if !isInteger(cmp.X.Type()) {
			continue
		}
		a, b := lin(cmp.X), lin(cmp.Y)
		// strings.Index / LastIndex return -1 or a valid position: v != -1 means v >= 0
		if cmp.Op == token.NEQ {
			if k, ok := constInt(cmp.Y); ok && k == -1 {
				if call, ok := cmp.X.(*ssa.Call); ok {
					if f := calleeObj(&call.Call); f != nil && f.Pkg() != nil && (f.Pkg().Path() == "strings" || f.Pkg().Path() == "bytes") && strings.Contains(f.Name(), "Index") {
						out = append(out, a)
					}
				}
			}
		}
		// a length that is not 0 is at least 1
		if cmp.Op == token.NEQ {
			for _, side := range [][2]ssa.Value{{cmp.X, cmp.Y}, {cmp.Y, cmp.X}} {
				if k, ok := constInt(side[1]); ok && k == 0 {
					if call, ok := side[0].(*ssa.Call); ok {
						if bi, ok := call.Call.Value.(*ssa.Builtin); ok && (bi.Name() == "len" || bi.Name() == "cap") {
							g := lin(side[0])
							g.c -= 1
							out = append(out, g)
						}
					}
				}
			}
		}
		switch cmp.Op {
		case token.GTR: // a > b  =>  a-b-1 >= 0
			g := a.add(b, -1)
			g.c -= 1
			out = append(out, g)
		case token.GEQ:
			out = append(out, a.add(b, -1))
		case token.LSS: // a < b => b-a-1 >= 0
			g := b.add(a, -1)
			g.c -= 1
			out = append(out, g)
		case token.LEQ:
			out = append(out, b.add(a, -1))
		case token.EQL:
			out = append(out, a.add(b, -1), b.add(a, -1))
		}
	}
	return out
}

// nonNegByNature: a form that is >= 0 whatever the values: non-negative
// constant plus non-negative multiples of len(...) and of unsigned symbols.
func nonNegByNature(g linForm, unsignedSyms map[string]bool) bool {
	if g.c < 0 {
		return false
	}
	for s, k := range g.coef {
		if k < 0 {
			return false
		}
		if !strings.HasPrefix(s, "len(") && !strings.HasPrefix(s, "rangeidx:") && !unsignedSyms[s] {
			return false
		}
	}
	return true
}

// proveNonNeg: g >= 0 follows from the inequalities (by itself, from one, or
// from the sum of two of them, up to a non-negative remainder).
func proveNonNeg(g linForm, hyps []linForm, unsignedSyms map[string]bool) bool {
	if nonNegByNature(g, unsignedSyms) {
		return true
	}
	for _, h := range hyps {
		if nonNegByNature(g.add(h, -1), unsignedSyms) {
			return true
		}
	}
	for i, h1 := range hyps {
		for j, h2 := range hyps {
			if j < i {
				continue
			}
			if nonNegByNature(g.add(h1, -1).add(h2, -1), unsignedSyms) {
				return true
			}
		}
	}
	return false
}

// unsignedSymbols lists the symbols of g that denote unsigned values.
func unsignedSymbolsOf(vals ...ssa.Value) map[string]bool {
	out := map[string]bool{}
	var walk func(v ssa.Value, d int)
	walk = func(v ssa.Value, d int) {
		if d > 16 || v == nil {
			return
		}
		if b, ok := v.Type().Underlying().(*types.Basic); ok && b.Info()&types.IsUnsigned != 0 {
			out[normSym(v)] = true
		}
		switch x := v.(type) {
		case *ssa.BinOp:
			walk(x.X, d+1)
			walk(x.Y, d+1)
		case *ssa.Convert:
			walk(x.X, d+1)
		}
	}
	for _, v := range vals {
		walk(v, 0)
	}
	return out
}

// indexInBounds: 0 <= idx < len(seq) is provable at block b.
func indexInBounds(idx, seq ssa.Value, b *ssa.BasicBlock) (lower, upper bool) {
	facts := factsOf(b.Parent()).At(b)
	hyps := ineqs(facts)
	us := unsignedSymbolsOf(idx)
	g := lin(idx)
	lower = proveNonNeg(g, hyps, us)
	// len(seq) - idx - 1 >= 0
	l := lenLin(seq)
	u := l.add(g, -1)
	u.c -= 1
	upper = proveNonNeg(u, hyps, us)
	if !upper {
		// fixed-size arrays / constant indices into literals
		if arr, ok := deref(seq.Type()).Underlying().(*types.Array); ok && g.isConst() && g.c < arr.Len() {
			upper = true
		}
	}
	return
}

// proveValueNonNeg: v >= 0 at block b; a phi is judged edge by edge.
func proveValueNonNeg(v ssa.Value, b *ssa.BasicBlock, depth int) bool {
	hyps := ineqs(factsOf(b.Parent()).At(b))
	if proveNonNeg(lin(v), hyps, unsignedSymbolsOf(v)) {
		return true
	}
	// a quotient by a positive constant lies between 0 and its dividend, where the dividend is known not to be negative
	if qh := quotientHyps(v, hyps, 0); len(qh) > 0 {
		if proveNonNeg(lin(v), append(append([]linForm{}, hyps...), qh...), unsignedSymbolsOf(v)) {
			return true
		}
	}
	if ph, ok := v.(*ssa.Phi); ok && depth < 3 {
		for k, e := range ph.Edges {
			pred := ph.Block().Preds[k]
			ok := false
			withEdge(pred, ph.Block(), func() { ok = proveValueNonNeg(e, pred, depth+1) })
			if !ok {
				return false
			}
		}
		return true
	}
	return false
}

func quotientHyps(v ssa.Value, hyps []linForm, d int) []linForm {
	if d > 6 {
		return nil
	}
	var out []linForm
	switch x := v.(type) {
	case *ssa.Convert:
		return quotientHyps(x.X, hyps, d+1)
	case *ssa.ChangeType:
		return quotientHyps(x.X, hyps, d+1)
	case *ssa.BinOp:
		out = append(out, quotientHyps(x.X, hyps, d+1)...)
		out = append(out, quotientHyps(x.Y, hyps, d+1)...)
		if x.Op == token.QUO {
			if k, ok := constInt(x.Y); ok && k >= 1 {
				e := lin(x.X)
				if proveNonNeg(e, append(append([]linForm{}, hyps...), out...), unsignedSymbolsOf(x.X)) {
					q := lin(x)
					out = append(out, q, e.add(q, -1))
				}
			}
		}
	}
	return out
}

// coCounter: p is an integer phi at the head of a range loop whose value on
// every back edge is p+1 (whatever way the body is left towards the next
// trip); init is its value on entry, idx the index variable of the loop (the
// rangeindex phi plus one, as the body sees it). Inside the body p == init + idx.
func coCounter(p *ssa.Phi) (init, idx ssa.Value, ok bool) {
	if p.Comment == "rangeindex" || !isInteger(p.Type()) {
		return nil, nil, false
	}
	h := p.Block()
	var r *ssa.Phi
	for _, in := range h.Instrs {
		ph, isPhi := in.(*ssa.Phi)
		if !isPhi {
			break
		}
		if ph.Comment == "rangeindex" {
			r = ph
		}
	}
	if r == nil {
		return nil, nil, false
	}
	nInit := 0
	for k, pred := range h.Preds {
		if !h.Dominates(pred) {
			init = p.Edges[k]
			nInit++
			continue
		}
		b, isB := p.Edges[k].(*ssa.BinOp)
		if !isB || b.Op != token.ADD || b.X != ssa.Value(p) {
			return nil, nil, false
		}
		if c, isC := constInt(b.Y); !isC || c != 1 {
			return nil, nil, false
		}
	}
	if nInit != 1 {
		return nil, nil, false
	}
	for _, ref := range *r.Referrers() {
		if b, isB := ref.(*ssa.BinOp); isB && b.Op == token.ADD && b.X == ssa.Value(r) {
			if c, isC := constInt(b.Y); isC && c == 1 {
				return init, b, true
			}
		}
	}
	return nil, nil, false
}

// lenLin: the length of a sequence as a linear form: of `x[lo:hi]` (a slice of
// a slice, which panics unless the bounds fit) it is hi - lo, of anything else
// the symbol len(seq).
func lenLin(seq ssa.Value) linForm { return lenLinD(seq, 0) }

func lenLinD(seq ssa.Value, d int) linForm {
	if sl, ok := unwrapLoad(seq).(*ssa.Slice); ok && sl.High != nil {
		if _, isSlice := sl.X.Type().Underlying().(*types.Slice); isSlice {
			l := linDepth(sl.High, d+1)
			if sl.Low != nil {
				l = l.add(linDepth(sl.Low, d+1), -1)
			}
			return l
		}
	}
	l := newLin()
	l.coef["len("+normSym(seq)+")"] = 1
	return l
}

// belowLenByConstruction: idx < len(seq) holds without any branch fact (idx is
// the length minus a positive constant).
func belowLenByConstruction(idx, seq ssa.Value) bool {
	u := lenLin(seq).add(lin(idx), -1)
	u.c -= 1
	return proveNonNeg(u, nil, nil)
}
