package main

import (
	"fmt"
	"go/ast"
	"go/token"
	"go/types"
	"sort"
	"strings"

	"golang.org/x/tools/go/packages"
)

// unboxParamsRound: a parameter whose type is a struct type new to the checker
// ("parameter object": `Get(link, kind Kind, n)` with `type Kind struct {
// Accept string; Tolerated []string }`) is replaced by one parameter per field,
// the counterpart of unboxRound for results. The body gets the object back as
// a local built from the new parameters (`var kind Kind = Kind{accept,
// tolerated}`), which scalar replacement then dissolves; every call passes the
// fields: of a composite literal its elements, of a variable its selections.
// Conditions: the function is only ever called (never used as a value), is not
// a method that may satisfy an interface, the struct has at most 6 named
// fields whose types can be written where the function is, and every argument
// is a literal or a plain variable/selection.
func unboxParamsRound(pkgs []*packages.Package, overlay map[string][]byte) (map[string][]byte, []string) {
	type edit struct {
		lo, hi int
		text   string
	}
	var log []string
	for _, pkg := range pkgs {
		if !isServitorPath(pkg.PkgPath) || len(pkg.Errors) > 0 {
			continue
		}
		info := pkg.TypesInfo
		fset := pkg.Fset
		off := func(p token.Pos) int { return fset.Position(p).Offset }
		structDecls := map[string]*ast.StructType{}
		structFile := map[string]*ast.File{}
		for _, f := range pkg.Syntax {
			for _, d := range f.Decls {
				if gd, ok := d.(*ast.GenDecl); ok && gd.Tok == token.TYPE {
					for _, sp := range gd.Specs {
						ts := sp.(*ast.TypeSpec)
						if st, ok := ts.Type.(*ast.StructType); ok && ts.TypeParams == nil {
							structDecls[ts.Name.Name], structFile[ts.Name.Name] = st, f
						}
					}
				}
			}
		}
		for _, f := range pkg.Syntax {
			fname := fset.File(f.Pos()).Name()
			if strings.HasSuffix(fname, "_test.go") {
				continue
			}
			for _, d := range f.Decls {
				fd, ok := d.(*ast.FuncDecl)
				if !ok || fd.Body == nil || fd.Type.TypeParams != nil || fd.Type.Params == nil {
					continue
				}
				fobj, _ := info.Defs[fd.Name].(*types.Func)
				if fobj == nil || fd.Name.Name == "main" || fd.Name.Name == "init" {
					continue
				}
				if fd.Recv != nil && interfaceMethodName(pkgs, fd.Name.Name) {
					continue
				}
				if sig := fobj.Type().(*types.Signature); sig.Variadic() {
					continue
				}
				// the first parameter of a new struct type
				argIndex, n := -1, 0
				var pfield *ast.Field
				var sname string
				for _, fl := range fd.Type.Params.List {
					k := len(fl.Names)
					if k == 0 {
						k = 1
					}
					if id, ok := fl.Type.(*ast.Ident); ok && argIndex < 0 && len(fl.Names) == 1 && fl.Names[0].Name != "_" {
						if tn, ok := info.Uses[id].(*types.TypeName); ok && tn.Pkg() == pkg.Types && !anchorTypes[pkg.PkgPath+"."+tn.Name()] && structDecls[tn.Name()] != nil {
							argIndex, pfield, sname = n, fl, tn.Name()
						}
					}
					n += k
				}
				if argIndex < 0 {
					continue
				}
				sdecl := structDecls[sname]
				var fields, ftext []string
				dsrc := readSource(fset.File(structFile[sname].Pos()).Name(), overlay)
				okFields := true
				for _, fl := range sdecl.Fields.List {
					if len(fl.Names) == 0 {
						okFields = false
					}
					ft := string(dsrc[off(fl.Type.Pos()):off(fl.Type.End())])
					for _, nm := range fl.Names {
						fields = append(fields, nm.Name)
						ftext = append(ftext, ft)
					}
				}
				if !okFields || len(fields) == 0 || len(fields) > 6 {
					continue
				}
				if !portableFieldTypes(pkg, sdecl, structFile[sname], f) {
					okFields = false // a qualified type that this file imports under another name, or not at all
				}
				if !okFields {
					continue
				}
				pname := pfield.Names[0].Name
				// names of the new parameters
				used := map[string]bool{}
				ast.Inspect(fd, func(n ast.Node) bool {
					if id, ok := n.(*ast.Ident); ok {
						used[id.Name] = true
					}
					return true
				})
				names := make([]string, len(fields))
				for i, fn := range fields {
					nm := strings.ToLower(fn[:1]) + fn[1:]
					if used[nm] || token.Lookup(nm).IsKeyword() || types.Universe.Lookup(nm) != nil || pkg.Types.Scope().Lookup(nm) != nil {
						nm = pname + "_" + fn + "_par"
					}
					used[nm] = true
					names[i] = nm
				}
				// every reference is a call with a usable argument
				edits := map[string][]edit{}
				okRefs := true
				nCalls := 0
				for _, upkg := range pkgs {
					if !isServitorPath(upkg.PkgPath) {
						continue
					}
					if len(upkg.Errors) > 0 {
						okRefs = false
						break
					}
					for _, uf := range upkg.Syntax {
						ufname := upkg.Fset.File(uf.Pos()).Name()
						if strings.HasSuffix(ufname, "_test.go") {
							continue
						}
						usrc := readSource(ufname, overlay)
						uoff := func(p token.Pos) int { return upkg.Fset.Position(p).Offset }
						var stack []ast.Node
						ast.Inspect(uf, func(n ast.Node) bool {
							if n == nil {
								stack = stack[:len(stack)-1]
								return true
							}
							stack = append(stack, n)
							id, ok := n.(*ast.Ident)
							if !ok || originOf(upkg.TypesInfo.Uses[id]) != types.Object(fobj) {
								return true
							}
							var fexpr ast.Expr = id
							up := len(stack) - 2
							if sel, ok := stack[up].(*ast.SelectorExpr); ok && sel.Sel == id {
								fexpr = sel
								up--
							}
							call, ok := stack[up].(*ast.CallExpr)
							if !ok || call.Fun != fexpr || call.Ellipsis.IsValid() || len(call.Args) != n0(fd) {
								okRefs = false
								return true
							}
							arg := unparen(call.Args[argIndex])
							text := func(n ast.Node) string { return string(usrc[uoff(n.Pos()):uoff(n.End())]) }
							var vals []string
							switch a := arg.(type) {
							case *ast.CompositeLit:
								if tv, ok := upkg.TypesInfo.Types[a]; !ok || !isNamedStruct(tv.Type, pkg.Types, sname) {
									okRefs = false
									return true
								}
								v, ok := litFieldsOf(&sraVar{fields: fields, ftext: ftext}, a, func(n ast.Node) string { return text(n) })
								if !ok {
									okRefs = false
									return true
								}
								for i := range v {
									if strings.HasPrefix(v[i], "*new(") && (upkg != pkg || strings.Contains(ftext[i], ".")) && uf != structFile[sname] {
										okRefs = false // the zero value cannot be spelled there
										return true
									}
								}
								vals = v
							default:
								if !isSimpleOperand(arg) {
									okRefs = false
									return true
								}
								if tv, ok := upkg.TypesInfo.Types[arg]; !ok || !isNamedStruct(tv.Type, pkg.Types, sname) {
									okRefs = false
									return true
								}
								for _, fn := range fields {
									if upkg != pkg && !ast.IsExported(fn) {
										okRefs = false
										return true
									}
									switch arg.(type) {
									case *ast.Ident, *ast.SelectorExpr:
										vals = append(vals, text(arg)+"."+fn)
									default:
										vals = append(vals, "("+text(arg)+")."+fn)
									}
								}
							}
							a0 := call.Args[argIndex]
							edits[ufname] = append(edits[ufname], edit{uoff(a0.Pos()), uoff(a0.End()), strings.Join(vals, ", ")})
							nCalls++
							return true
						})
					}
				}
				if !okRefs || nCalls == 0 {
					continue
				}
				// the declaration
				var decl []string
				for i := range fields {
					decl = append(decl, names[i]+" "+ftext[i])
				}
				edits[fname] = append(edits[fname], edit{off(pfield.Pos()), off(pfield.End()), strings.Join(decl, ", ")})
				var lit []string
				for i, fn := range fields {
					lit = append(lit, fn+": "+names[i])
				}
				prologue := fmt.Sprintf("\nvar %s %s = %s{%s}\n_ = %s\n", pname, sname, sname, strings.Join(lit, ", "), pname)
				edits[fname] = append(edits[fname], edit{off(fd.Body.Lbrace) + 1, off(fd.Body.Lbrace) + 1, prologue})
				// apply: one function per round
				out := map[string][]byte{}
				okAll := true
				for path, es := range edits {
					sort.Slice(es, func(i, j int) bool { return es[i].lo > es[j].lo })
					for i := 1; i < len(es); i++ {
						if es[i].hi > es[i-1].lo {
							okAll = false
						}
					}
					buf := append([]byte{}, readSource(path, overlay)...)
					for _, e := range es {
						buf = append(buf[:e.lo], append([]byte(e.text), buf[e.hi:]...)...)
					}
					out[path] = buf
				}
				if !okAll {
					continue
				}
				log = append(log, fmt.Sprintf("parameter object unboxed: %s of %s (%s) at %d call sites", pname, funcKey(pkg.PkgPath, fd), sname, nCalls))
				return out, log
			}
		}
	}
	return nil, log
}

// n0: the number of parameters of a declaration.
func n0(fd *ast.FuncDecl) int {
	n := 0
	for _, fl := range fd.Type.Params.List {
		if len(fl.Names) == 0 {
			n++
		} else {
			n += len(fl.Names)
		}
	}
	return n
}

func isNamedStruct(t types.Type, pkg *types.Package, name string) bool {
	n, ok := t.(*types.Named)
	return ok && n.Obj().Pkg() == pkg && n.Obj().Name() == name
}
