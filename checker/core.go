package main

import (
	"crypto/sha1"
	"encoding/hex"
	"encoding/json"
	"fmt"
	"os"
	"path/filepath"
	"sort"
	"strings"
)

type Verdict string

const (
	OK        Verdict = "ok"
	Violation Verdict = "violation"
	Note      Verdict = "note" // informational, never fails a check
)

// Obligation is one thing a rule had to decide: a call site, an access, a
// path, a field, a table row.
type Obligation struct {
	Rule    string   `json:"rule"`
	Key     string   `json:"key"` // rule + construct, never a line number
	Pos     string   `json:"pos"`
	Func    string   `json:"func,omitempty"`
	Verdict Verdict  `json:"verdict"`
	Reason  string   `json:"reason"`
	Witness []string `json:"witness,omitempty"`
}

// Rule is a named rule of one property.
type Rule struct {
	ID    string // e.g. "C08.R1"
	Title string
	Floor int // minimum number of obligations confirmed by hand on the pinned tree
	Run   func(c *Ctx)
}

type Property struct {
	ID          string
	Explanation string // what is decided, and what is not
	Assumptions []string
	Rules       []Rule
}

// Ctx collects obligations while a rule runs.
type Ctx struct {
	P    *Program
	rule string
	Obs  []Obligation
	seen map[string]int
	Info map[string]any // extra coverage numbers
}

func (c *Ctx) key(construct string) string {
	k := c.rule + "/" + construct
	if c.seen == nil {
		c.seen = map[string]int{}
	}
	n := c.seen[k]
	c.seen[k] = n + 1
	return fmt.Sprintf("%s#%d", k, n)
}

func (c *Ctx) add(v Verdict, construct, pos, fn, reason string, witness ...string) {
	c.Obs = append(c.Obs, Obligation{
		Rule: c.rule, Key: c.key(construct), Pos: pos, Func: fn,
		Verdict: v, Reason: reason, Witness: witness,
	})
}

func (c *Ctx) ok(construct, pos, fn, reason string) { c.add(OK, construct, pos, fn, reason) }
func (c *Ctx) bad(construct, pos, fn, reason string, witness ...string) {
	c.add(Violation, construct, pos, fn, reason, witness...)
}
func (c *Ctx) note(construct, pos, fn, reason string) { c.add(Note, construct, pos, fn, reason) }

// check records ok or violation depending on cond.
func (c *Ctx) check(cond bool, construct, pos, fn, okReason, badReason string, witness ...string) bool {
	if cond {
		c.ok(construct, pos, fn, okReason)
	} else {
		c.bad(construct, pos, fn, badReason, witness...)
	}
	return cond
}

func (c *Ctx) info(k string, v any) {
	if c.Info == nil {
		c.Info = map[string]any{}
	}
	c.Info[c.rule+"."+k] = v
}

// --- known findings -------------------------------------------------------

type KnownFinding struct {
	Property string `json:"property"`
	Rule     string `json:"rule"`
	Key      string `json:"key"`
	What     string `json:"what"`
}

type FixedFinding struct {
	Property string `json:"property"`
	Commit   string `json:"commit"`
	What     string `json:"what"`
}

type KnownFile struct {
	Comment string         `json:"comment,omitempty"`
	Known   []KnownFinding `json:"known"`
	Fixed   []FixedFinding `json:"fixed"`
}

func loadKnown(path string) KnownFile {
	var k KnownFile
	b, err := os.ReadFile(path)
	if err != nil {
		return k
	}
	if err := json.Unmarshal(b, &k); err != nil {
		broken("known findings file %s: %v", path, err)
	}
	return k
}

// --- running ----------------------------------------------------------------

type RuleResult struct {
	ID          string `json:"rule"`
	Title       string `json:"title"`
	Obligations int    `json:"obligations"`
	Discharged  int    `json:"discharged"`
	Violations  int    `json:"violations"`
	Notes       int    `json:"notes"`
	Floor       int    `json:"floor"`
}

type RunResult struct {
	Property   string
	Rules      []RuleResult
	Obs        []Obligation
	Violations []Obligation // not covered by known findings
	Known      []Obligation
	Broken     []string
	Info       map[string]any
}

func runProperty(P *Program, prop *Property, known KnownFile) (res RunResult) {
	res.Property = prop.ID
	res.Info = map[string]any{}
	for _, r := range prop.Rules {
		c := &Ctx{P: P, rule: r.ID}
		func() {
			defer func() {
				if e := recover(); e != nil {
					if sh, ok := e.(ShapeError); ok {
						// the code no longer has the shape the rule reads the property off: that
						// is something the rule cannot establish about THIS tree — a violation to
						// report — not a failure of the machinery
						c.bad("shape", "module", "servitor", sh.Msg+": what this rule decides cannot be established on this tree")
						return
					}
					if b, ok := e.(BrokenError); ok {
						res.Broken = append(res.Broken, r.ID+": "+b.Msg)
						return
					}
					res.Broken = append(res.Broken, fmt.Sprintf("%s: analyser panic: %v", r.ID, e))
					if os.Getenv("SERVCHECK_DEBUG") != "" {
						panic(e)
					}
				}
			}()
			r.Run(c)
		}()
		rr := RuleResult{ID: r.ID, Title: r.Title, Floor: r.Floor}
		for _, o := range c.Obs {
			switch o.Verdict {
			case OK:
				rr.Obligations++
				rr.Discharged++
			case Violation:
				rr.Obligations++
				rr.Violations++
			case Note:
				rr.Notes++
			}
		}
		if rr.Obligations < r.Floor && rr.Violations == 0 { // a rule that reports a violation does not pass vacuously
			// fewer instances than were confirmed by hand on the pinned tree: the
			// constructs the rule speaks about are (partly) gone from this tree, so
			// what it decides is not established here — reported, not passed
			c.bad("floor", "module", "servitor", fmt.Sprintf("the rule matched %d sites, below the floor of %d confirmed on the pinned tree: it would pass vacuously, so what it decides cannot be established on this tree", rr.Obligations, r.Floor))
			rr.Obligations++
			rr.Violations++
		}
		res.Rules = append(res.Rules, rr)
		res.Obs = append(res.Obs, c.Obs...)
		for k, v := range c.Info {
			res.Info[k] = v
		}
	}
	knownKeys := map[string]KnownFinding{}
	for _, k := range known.Known {
		if k.Property == prop.ID {
			knownKeys[k.Key] = k
		}
	}
	for _, o := range res.Obs {
		if o.Verdict != Violation {
			continue
		}
		if _, ok := knownKeys[o.Key]; ok {
			res.Known = append(res.Known, o)
		} else {
			res.Violations = append(res.Violations, o)
		}
	}
	return res
}

func hashKey(k string) string {
	h := sha1.Sum([]byte(k))
	return hex.EncodeToString(h[:])[:12]
}

// report prints the result, writes violations and the evidence file; returns
// the process exit code.
func report(verif string, prop *Property, res RunResult, known KnownFile, tier string, seed int64, wall float64, extra map[string]any) int {
	exit := 0
	knownWhat := map[string]string{}
	for _, k := range known.Known {
		knownWhat[k.Key] = k.What
	}
	for _, o := range res.Known {
		fmt.Printf("KNOWN-FINDING: property=%s %s [%s at %s]\n", prop.ID, knownWhat[o.Key], o.Key, o.Pos)
	}
	vdir := filepath.Join(verif, "violations", prop.ID)
	os.RemoveAll(vdir)
	for _, o := range res.Violations {
		os.MkdirAll(vdir, 0o755)
		path := filepath.Join(vdir, hashKey(o.Key)+".json")
		b, _ := json.MarshalIndent(o, "", " ")
		os.WriteFile(path, b, 0o644)
		fmt.Printf("VIOLATION property=%s replay=%s\n", prop.ID, path)
		fmt.Printf("  rule %s  %s\n  at %s in %s\n  %s\n", o.Rule, o.Key, o.Pos, o.Func, o.Reason)
		for _, w := range o.Witness {
			fmt.Printf("    %s\n", w)
		}
		exit = 1
	}
	for _, b := range res.Broken {
		fmt.Printf("CHECK-BROKEN property=%s %s\n", prop.ID, b)
		if exit == 0 {
			exit = 2
		}
	}
	// evidence
	total, discharged := 0, 0
	for _, r := range res.Rules {
		total += r.Obligations
		discharged += r.Discharged
	}
	var samples []any
	perRule := map[string]int{}
	for _, o := range res.Obs {
		if o.Verdict == Note {
			continue
		}
		if perRule[o.Rule] < 3 {
			perRule[o.Rule]++
			samples = append(samples, o)
		}
	}
	var notes []Obligation
	for _, o := range res.Obs {
		if o.Verdict == Note {
			notes = append(notes, o)
		}
	}
	funcs := map[string]bool{}
	for _, o := range res.Obs {
		if o.Func != "" {
			funcs[o.Func] = true
		}
	}
	cov := map[string]any{
		"explanation":                prop.Explanation,
		"obligations":                total,
		"discharged":                 discharged,
		"evaluations":                total,
		"distinct_nontrivial":        countDistinct(res.Obs),
		"rule":                       "one obligation per call site / access / path / field / table row the rule instances had to decide on the current tree; distinct = distinct obligation keys (rule + construct)",
		"samples":                    samples,
		"rules":                      res.Rules,
		"functions_with_obligations": len(funcs),
		"known_findings":             len(res.Known),
		"notes":                      notes,
		"exhaustive":                 true,
		"checker_cmd":                "bin/servcheck -property " + prop.ID + " -tier " + tier,
		"trusted_base":               prop.Assumptions,
		"broken":                     res.Broken,
	}
	for k, v := range res.Info {
		cov[k] = v
	}
	for k, v := range extra {
		cov[k] = v
	}
	ev := map[string]any{
		"property_id": prop.ID,
		"tier":        tier,
		"seed":        seed,
		"level":       "other",
		"coverage":    cov,
		"assumptions": prop.Assumptions,
		"wall_s":      wall,
		"violations":  len(res.Violations),
	}
	b, _ := json.MarshalIndent(ev, "", " ")
	os.MkdirAll(filepath.Join(verif, "evidence"), 0o755)
	if err := os.WriteFile(filepath.Join(verif, "evidence", prop.ID+".json"), b, 0o644); err != nil {
		fmt.Printf("CHECK-BROKEN property=%s cannot write evidence: %v\n", prop.ID, err)
		if exit == 0 {
			exit = 2
		}
	}
	fmt.Printf("%s %s: %d obligations, %d discharged, %d known findings, %d violations, %d broken (%.1fs)\n",
		prop.ID, tier, total, discharged, len(res.Known), len(res.Violations), len(res.Broken), wall)
	for _, r := range res.Rules {
		fmt.Printf("  %-8s %3d/%-3d floor %-3d %s\n", r.ID, r.Discharged, r.Obligations, r.Floor, r.Title)
	}
	return exit
}

func countDistinct(obs []Obligation) int {
	m := map[string]bool{}
	for _, o := range obs {
		if o.Verdict != Note {
			m[o.Key] = true
		}
	}
	return len(m)
}

func sortedKeys[V any](m map[string]V) []string {
	var ks []string
	for k := range m {
		ks = append(ks, k)
	}
	sort.Strings(ks)
	return ks
}

func shortList(xs []string, n int) string {
	if len(xs) > n {
		return strings.Join(xs[:n], ", ") + fmt.Sprintf(", … (%d more)", len(xs)-n)
	}
	return strings.Join(xs, ", ")
}
