package main

import (
	"go/token"
	"sort"
	"strings"

	"golang.org/x/tools/go/ssa"
)

func init() { registry["C15"] = propC15 }

func propC15() *Property {
	return &Property{
		ID:          "C15",
		Explanation: "Structural clauses of the rendering property. Decided: (R1) in every markup implementation the text returned by the function that Render(width) calls is, up to trimming, the result of ansi.Wrap / ansi.DumbWrap with exactly the requested width — the three implementations of one interface must agree on this final wrap; (R2) the render cache is consulted only for an equal width and is overwritten together with its width: Render returns the cached text only on the cachedWidth == width edge, every other return stores the freshly rendered text and the width it was rendered at, constructors initialise the pair consistently, nothing else writes the pair; (R3) rendering is a function of content and width: the render functions (transitively) write no field, no package-level variable and nothing reachable from their inputs, and read no package-level state other than the immutable configuration and compiled regexps. (R4) the wrap functions honour their width: by inference of an inductive loop invariant (engine E9, the instances of C13.R1 and C13.R2) no line completed by ansi.Wrap or ansi.DumbWrap has more visible characters than the width, for every text and width >= 1 — so with R1 every rendering fits the width it was asked for. (R2, addition) the source kept by NewMarkup for later renderings is the value the initial rendering was made from. NOT decided: the content of the rendering.",
		Assumptions: []string{"config.Parsed is immutable after start-up (C08.R6)"},
		Rules: []Rule{
			{ID: "C15.R1", Title: "final wrap with the requested width in every renderer", Floor: 3, Run: c15R1},
			{ID: "C15.R2", Title: "cache keyed by and stored with the width", Floor: 5, Run: c15R2},
			{ID: "C15.R3", Title: "rendering has no side effects and no hidden inputs", Floor: 3, Run: c15R3},
			{ID: "C15.R4", Title: "the final wrap honours its width: no line completed by ansi.Wrap / ansi.DumbWrap is wider than the width (instances of C13.R1 and C13.R2)", Floor: 8, Run: func(c *Ctx) { c13Width(c, "Wrap"); c13Width(c, "DumbWrap") }},
		},
	}
}

type markupImpl struct {
	pkg     string
	render  *ssa.Function // (*Markup).Render
	inner   *ssa.Function // the function Render delegates to
	newFn   *ssa.Function // NewMarkup
	cached  string
	cachedW string
	self    bool // Render wraps and caches the text itself
}

// markupImpls: the four renderers. A renderer whose Render does not hand the
// work to a function of its package is not a broken check but a shape that the
// rules cannot follow: it is reported as a violation of each of them.
func markupImpls(c *Ctx) []*markupImpl {
	P := c.P
	var out []*markupImpl
	for _, pk := range markupPkgs {
		m := &markupImpl{pkg: pk}
		m.render = P.Method(pk, "Markup", "Render")
		m.newFn = P.Func(pk, "NewMarkup")
		eachInstr(m.render, func(_ *ssa.BasicBlock, _ int, in ssa.Instruction) {
			if call, ok := in.(*ssa.Call); ok {
				if sc := call.Call.StaticCallee(); sc != nil && P.PkgOf(sc) == pk && m.inner == nil {
					m.inner = sc
				}
			}
		})
		if m.inner == nil {
			// a renderer without a delegate: decided on the cache pair (c15self.go)
			m.self = true
		}
		out = append(out, m)
	}
	return out
}

// stripTrims peels strings.Trim* / TrimSpace / TrimSuffix / TrimRight calls.
func stripTrims(v ssa.Value) ssa.Value {
	for d := 0; d < 6; d++ {
		call, ok := v.(*ssa.Call)
		if !ok {
			return v
		}
		f := calleeObj(&call.Call)
		if f == nil || f.Pkg() == nil || f.Pkg().Path() != "strings" || !strings.HasPrefix(f.Name(), "Trim") {
			return v
		}
		v = call.Call.Args[0]
	}
	return v
}

func c15R1(c *Ctx) {
	P := c.P
	wrap := P.Func("servitor/ansi", "Wrap")
	dumb := P.Func("servitor/ansi", "DumbWrap")
	for _, m := range markupImpls(c) {
		if m.self {
			c15SelfR1(c, m)
			continue
		}
		fn := m.inner
		fname := FuncName(fn)
		var width *ssa.Parameter
		for _, p := range fn.Params {
			if isInteger(p.Type()) {
				width = p
			}
		}
		if width == nil {
			c.bad(fname+"/width", P.Pos(fn.Pos()), fname, "the render function has no width parameter")
			continue
		}
		for _, b := range fn.Blocks {
			ret, ok := b.Instrs[len(b.Instrs)-1].(*ssa.Return)
			if !ok {
				continue
			}
			v := stripTrims(ret.Results[0])
			okW := false
			why := "the returned text is not the result of ansi.Wrap / ansi.DumbWrap: lines can be longer than the requested width"
			if call, ok := v.(*ssa.Call); ok {
				if sc := call.Call.StaticCallee(); sc == wrap || sc == dumb {
					if unwrapLoad(call.Call.Args[1]) == ssa.Value(width) {
						okW = true
					} else {
						why = "the final wrap uses " + lin(call.Call.Args[1]).String() + " instead of the requested width"
					}
				}
			}
			c.check(okW, fname+"/final-wrap", P.InstrPos(ret), fname, "returns (trimmed) ansi.Wrap/DumbWrap(text, width) with the requested width", why)
		}
		// Render passes its own width on
		r := m.render
		eachInstr(r, func(_ *ssa.BasicBlock, _ int, in ssa.Instruction) {
			if call, ok := in.(*ssa.Call); ok && call.Call.StaticCallee() == fn {
				last := call.Call.Args[len(call.Call.Args)-1]
				c.check(unwrapLoad(last) == ssa.Value(r.Params[1]), FuncName(r)+"/passes-width", P.InstrPos(in), FuncName(r), "renders at the requested width", "Render renders at a width other than the one requested")
			}
		})
	}
}

func c15R2(c *Ctx) {
	P := c.P
	for _, m := range markupImpls(c) {
		if m.self {
			c15SelfR2(c, m)
			continue
		}
		r := m.render
		rname := FuncName(r)
		recv, width := r.Params[0], r.Params[1]
		isField := func(v ssa.Value, name string) bool {
			u, ok := v.(*ssa.UnOp)
			if !ok || u.Op != token.MUL {
				return false
			}
			fa, ok := u.X.(*ssa.FieldAddr)
			return ok && unwrapLoad(fa.X) == ssa.Value(recv) && fieldOf(fa).Name() == name
		}
		for _, b := range r.Blocks {
			ret, ok := b.Instrs[len(b.Instrs)-1].(*ssa.Return)
			if !ok {
				continue
			}
			v := ret.Results[0]
			if isField(v, "cached") {
				okEq := false
				for _, f := range factsOf(r).At(b) {
					cmp, ok := f.Cmp()
					if !ok || cmp.Op != token.EQL {
						continue
					}
					if (isField(cmp.X, "cachedWidth") && unwrapLoad(cmp.Y) == ssa.Value(width)) || (isField(cmp.Y, "cachedWidth") && unwrapLoad(cmp.X) == ssa.Value(width)) {
						okEq = true
					}
				}
				if !okEq {
					// … or the cache was just filled for the requested width on the way here
					pairs, lone := cachePairsVia(P, r, m.pkg, m.inner)
					good, storing := map[*ssa.BasicBlock]bool{}, map[*ssa.BasicBlock]bool{}
					for _, p := range pairs {
						storing[p.text.Block()] = true
						if p.wrapOK && p.same && unwrapLoad(p.w) == ssa.Value(width) {
							good[p.text.Block()] = true
						}
					}
					for _, st := range lone {
						storing[st.Block()] = true
					}
					okEq, _ = cachedReturnOnPaths(P, r, b, isField, width, storing, good)
				}
				// no store to cached between the test and the load in this block path
				c.check(okEq, rname+"/return:cached", P.InstrPos(ret), rname, "the cached text is returned only when cachedWidth == width", "the cached rendering is returned for a width it was not rendered at")
				continue
			}
			// fresh rendering: result #0 of inner(…, width); stored with its width
			okFresh := false
			why := "Render returns something that is neither the cache nor a fresh rendering at the requested width"
			if ex, ok := v.(*ssa.Extract); ok && ex.Index == 0 {
				if call, ok := ex.Tuple.(*ssa.Call); ok && call.Call.StaticCallee() == m.inner && unwrapLoad(call.Call.Args[len(call.Call.Args)-1]) == ssa.Value(width) {
					var stText, stWidth bool
					eachInstr(r, func(_ *ssa.BasicBlock, _ int, in ssa.Instruction) {
						st, ok := in.(*ssa.Store)
						if !ok || !dominatesInstr(st, ret) {
							return
						}
						fa, ok := st.Addr.(*ssa.FieldAddr)
						if !ok || unwrapLoad(fa.X) != ssa.Value(recv) {
							return
						}
						switch fieldOf(fa).Name() {
						case "cached":
							stText = st.Val == v
						case "cachedWidth":
							stWidth = unwrapLoad(st.Val) == ssa.Value(width)
						}
					})
					switch {
					case !stText:
						why = "the fresh rendering is returned but not stored in the cache (the cached width would describe another text), or another text is stored"
					case !stWidth:
						why = "the cache text is replaced without recording the width it was rendered at: a later Render at the old width returns the new text"
					default:
						okFresh = true
					}
				}
			}
			c.check(okFresh, rname+"/return:fresh", P.InstrPos(ret), rname, "fresh rendering at the requested width, stored together with that width", why)
		}
		// constructor: cached/cachedWidth initialised from one rendering at one constant width
		n := m.newFn
		nname := FuncName(n)
		var initText ssa.Value
		var initWidth ssa.Value
		eachInstr(n, func(_ *ssa.BasicBlock, _ int, in ssa.Instruction) {
			st, ok := in.(*ssa.Store)
			if !ok {
				return
			}
			fa, ok := st.Addr.(*ssa.FieldAddr)
			if !ok || namedOf(fa.X.Type()) == nil || namedOf(fa.X.Type()).Obj().Name() != "Markup" {
				return
			}
			switch fieldOf(fa).Name() {
			case "cached":
				initText = st.Val
			case "cachedWidth":
				initWidth = st.Val
			}
		})
		okInit := false
		whyInit := "NewMarkup does not initialise cached/cachedWidth from one rendering"
		if initText == nil && initWidth == nil {
			okInit = false
			whyInit = "NewMarkup leaves the cache pair unset while Render trusts it"
			// zero pair (\"\", 0) would make Render(0) return the empty string; flag
		} else if ex, ok := initText.(*ssa.Extract); ok && ex.Index == 0 {
			if call, ok := ex.Tuple.(*ssa.Call); ok && call.Call.StaticCallee() == m.inner {
				w := call.Call.Args[len(call.Call.Args)-1]
				k1, c1 := constInt(w)
				k2, c2 := constInt(initWidth)
				if c1 && c2 && k1 == k2 {
					okInit = true
				} else {
					whyInit = "the initial cache text is rendered at a width different from the recorded cachedWidth"
				}
			}
		}
		c.check(okInit, nname+"/initial-cache", P.Pos(n.Pos()), nname, "initial cache = rendering at the recorded width", whyInit)
		// … and of the source that is kept: what Render hands to the render function later (a field of the
		// markup) must be the very value the initial rendering was made from
		srcField := ""
		eachInstr(r, func(_ *ssa.BasicBlock, _ int, in ssa.Instruction) {
			call, ok := in.(*ssa.Call)
			if !ok || call.Call.StaticCallee() != m.inner || len(call.Call.Args) == 0 {
				return
			}
			if f := loadedField(call.Call.Args[0]); f != nil {
				srcField = f.Name()
			}
		})
		if ex, ok := initText.(*ssa.Extract); ok && srcField != "" {
			if call, ok := ex.Tuple.(*ssa.Call); ok && call.Call.StaticCallee() == m.inner && len(call.Call.Args) > 0 {
				var kept ssa.Value
				eachInstr(n, func(_ *ssa.BasicBlock, _ int, in ssa.Instruction) {
					if st, ok := in.(*ssa.Store); ok {
						if fa, ok := st.Addr.(*ssa.FieldAddr); ok && fieldOf(fa).Name() == srcField && namedOf(fa.X.Type()) != nil && namedOf(fa.X.Type()).Obj().Name() == "Markup" {
							kept = st.Val
						}
					}
				})
				same := kept != nil && unwrapLoad(kept) == unwrapLoad(call.Call.Args[0])
				if f := loadedField(call.Call.Args[0]); !same && f != nil && f.Name() == srcField && kept != nil {
					same = true // rendered from the field itself, after it was filled
				}
				c.check(same, nname+"/initial-source", P.Pos(n.Pos()), nname, "the source kept in "+srcField+" is the one the initial rendering was made from",
					"NewMarkup renders one text for the initial cache and keeps another in "+srcField+" for later renderings (trimmed, normalised or converted differently): at the initial width the markup shows something else than after a resize and back")
			}
		}
		// no other writer
		for _, fn := range P.Funcs {
			if fn == r || fn == n {
				continue
			}
			eachInstr(fn, func(_ *ssa.BasicBlock, _ int, in ssa.Instruction) {
				st, ok := in.(*ssa.Store)
				if !ok {
					return
				}
				fa, ok := st.Addr.(*ssa.FieldAddr)
				if !ok {
					return
				}
				o := structOwner(fa)
				if o == nil || o.Obj().Pkg() == nil || o.Obj().Pkg().Path() != m.pkg || o.Obj().Name() != "Markup" {
					return
				}
				if fieldOf(fa).Name() == "cached" || fieldOf(fa).Name() == "cachedWidth" {
					c.bad(FuncName(fn)+"/cache-writer", P.InstrPos(in), FuncName(fn), "the render cache is written outside Render and NewMarkup")
				}
			})
		}
	}
}

func c15R3(c *Ctx) {
	P := c.P
	E := NewEffects(P)
	for _, m := range markupImpls(c) {
		if m.self {
			c15SelfR3(c, m, E)
		}
		fn := m.inner
		if m.self {
			fn = m.render
		}
		fname := FuncName(fn)
		var bad []string
		for r, pos := range E.Writes(fn) {
			if r == "unknown" || m.self {
				continue // self-contained: the writes were judged above, the cache pair set aside
			}
			bad = append(bad, r+" (at "+pos+")")
		}
		sort.Strings(bad)
		if !m.self {
			c.check(len(bad) == 0, fname+"/pure", P.Pos(fn.Pos()), fname,
				"writes only memory it allocated itself (locals and the per-call link list)",
				"rendering has side effects: it writes "+strings.Join(bad, "; ")+" — the text would depend on earlier renderings")
		}
		// globals read transitively
		reach := map[*ssa.Function]bool{fn: true}
		work := []*ssa.Function{fn}
		for len(work) > 0 {
			f := work[0]
			work = work[1:]
			eachInstr(f, func(_ *ssa.BasicBlock, _ int, in ssa.Instruction) {
				if ci, ok := in.(ssa.CallInstruction); ok {
					for _, callee := range P.Callees(ci) {
						if P.IsServitorFunc(callee) && !reach[callee] {
							reach[callee] = true
							work = append(work, callee)
						}
					}
				}
				if mc, ok := in.(*ssa.MakeClosure); ok {
					if cf := mc.Fn.(*ssa.Function); !reach[cf] {
						reach[cf] = true
						work = append(work, cf)
					}
				}
			})
		}
		var hidden []string
		for f := range reach {
			// the clock, the environment and random numbers are inputs too
			eachInstr(f, func(_ *ssa.BasicBlock, _ int, in ssa.Instruction) {
				cc := callOf(in)
				if cc == nil {
					return
				}
				fo := calleeObj(cc)
				if fo == nil || fo.Pkg() == nil {
					return
				}
				switch fo.Pkg().Path() {
				case "time":
					if fo.Name() == "Now" || fo.Name() == "Since" || fo.Name() == "Until" {
						hidden = append(hidden, "the clock (time."+fo.Name()+") at "+P.InstrPos(in))
					}
				case "math/rand", "math/rand/v2", "crypto/rand":
					hidden = append(hidden, "a random source ("+fo.Pkg().Name()+"."+fo.Name()+") at "+P.InstrPos(in))
				case "os":
					switch fo.Name() {
					case "Getenv", "LookupEnv", "Environ", "Hostname", "Getwd", "ReadFile", "Open", "Stat":
						hidden = append(hidden, "the environment (os."+fo.Name()+") at "+P.InstrPos(in))
					}
				}
			})
			eachInstr(f, func(_ *ssa.BasicBlock, _ int, in ssa.Instruction) {
				u, ok := in.(*ssa.UnOp)
				if !ok || u.Op != token.MUL {
					return
				}
				g, ok := u.X.(*ssa.Global)
				if !ok {
					return
				}
				if g.Pkg != nil && g.Pkg.Pkg.Path() == "servitor/config" && g.Name() == "Parsed" {
					return
				}
				if isNamed(g.Type(), "regexp", "Regexp") || strings.Contains(g.Type().String(), "regexp.Regexp") {
					return
				}
				if !isServitorPath(g.Pkg.Pkg.Path()) {
					return
				}
				if effectivelyConstGlobal(P, g) {
					return // a table that only the package initialiser writes
				}
				hidden = append(hidden, g.String()+" at "+P.InstrPos(in))
			})
		}
		sort.Strings(hidden)
		c.check(len(hidden) == 0, fname+"/no-hidden-input", P.Pos(fn.Pos()), fname,
			"reads no package-level state besides the immutable configuration and compiled regexps",
			"rendering has inputs besides the document and the width: "+strings.Join(hidden, "; "))
	}
}
