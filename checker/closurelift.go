package main

import (
	"fmt"
	"go/ast"
	"go/token"
	"go/types"
	"sort"
	"strings"

	"golang.org/x/tools/go/packages"
)

// liftClosureRound: a local closure that captures nothing — `convert :=
// func(color *string, name string) error { … }` using only its parameters and
// package-level names — and that is only ever called is a function of the
// package written in an odd place. It is moved to the top level under a fresh
// name, where the helper inliner treats it like any other new helper (all its
// statement forms: `if err := convert(…); err != nil`, assignments, returns).
func liftClosureRound(pkgs []*packages.Package, overlay map[string][]byte) (map[string][]byte, []string) {
	out := map[string][]byte{}
	var log []string
	for _, pkg := range pkgs {
		if !isServitorPath(pkg.PkgPath) || len(pkg.Errors) > 0 {
			continue
		}
		for _, f := range pkg.Syntax {
			fname := pkg.Fset.File(f.Pos()).Name()
			if strings.HasSuffix(fname, "_test.go") {
				continue
			}
			src := readSource(fname, overlay)
			off := func(p token.Pos) int { return pkg.Fset.Position(p).Offset }
			type edit struct {
				lo, hi int
				text   string
			}
			var edits []edit
			var lifted []string
			for _, d := range f.Decls {
				fd, ok := d.(*ast.FuncDecl)
				if !ok || fd.Body == nil {
					continue
				}
				type def struct {
					obj  *types.Var
					lit  *ast.FuncLit
					stmt ast.Stmt
				}
				var defs []def
				ast.Inspect(fd.Body, func(n ast.Node) bool {
					switch s := n.(type) {
					case *ast.AssignStmt:
						if s.Tok == token.DEFINE && len(s.Lhs) == 1 && len(s.Rhs) == 1 {
							if lit, ok := s.Rhs[0].(*ast.FuncLit); ok {
								if id, ok := s.Lhs[0].(*ast.Ident); ok {
									if v, ok := pkg.TypesInfo.Defs[id].(*types.Var); ok {
										defs = append(defs, def{v, lit, s})
									}
								}
							}
						}
					case *ast.DeclStmt:
						if gd, ok := s.Decl.(*ast.GenDecl); ok && gd.Tok == token.VAR && len(gd.Specs) == 1 {
							if vs, ok := gd.Specs[0].(*ast.ValueSpec); ok && len(vs.Names) == 1 && len(vs.Values) == 1 && vs.Type == nil {
								if lit, ok := vs.Values[0].(*ast.FuncLit); ok {
									if v, ok := pkg.TypesInfo.Defs[vs.Names[0]].(*types.Var); ok {
										defs = append(defs, def{v, lit, s})
									}
								}
							}
						}
					}
					return true
				})
				for _, df := range defs {
					// captures nothing: every name used in the literal is its own, the package's or the universe's
					free := false
					ast.Inspect(df.lit, func(n ast.Node) bool {
						id, ok := n.(*ast.Ident)
						if !ok {
							return true
						}
						o := pkg.TypesInfo.Uses[id]
						if o == nil {
							return true
						}
						if _, isPkg := o.(*types.PkgName); isPkg {
							return true
						}
						if v, isVar := o.(*types.Var); isVar && v.IsField() {
							return true
						}
						if o.Parent() == types.Universe || o.Parent() == pkg.Types.Scope() || o.Pkg() != pkg.Types {
							return true
						}
						if _, isFunc := o.(*types.Func); isFunc {
							return true // a method
						}
						if o.Pos() < df.lit.Pos() || o.Pos() >= df.lit.End() {
							free = true
						}
						return true
					})
					if free {
						continue
					}
					// only ever the callee of a call
					okUses := true
					var calls []*ast.Ident
					var stack []ast.Node
					ast.Inspect(fd.Body, func(n ast.Node) bool {
						if n == nil {
							stack = stack[:len(stack)-1]
							return true
						}
						stack = append(stack, n)
						id, ok := n.(*ast.Ident)
						if !ok || pkg.TypesInfo.Uses[id] != types.Object(df.obj) {
							return true
						}
						if call, ok := stack[len(stack)-2].(*ast.CallExpr); ok && call.Fun == ast.Expr(id) {
							calls = append(calls, id)
							return true
						}
						okUses = false
						return true
					})
					if !okUses || len(calls) == 0 {
						continue
					}
					name := fd.Name.Name + "_" + df.obj.Name() + "_lft"
					if pkg.Types.Scope().Lookup(name) != nil {
						continue
					}
					sig := string(src[off(df.lit.Type.Pos()):off(df.lit.Type.End())])
					if !strings.HasPrefix(sig, "func") {
						continue
					}
					lifted = append(lifted, "\nfunc "+name+sig[len("func"):]+" "+string(src[off(df.lit.Body.Pos()):off(df.lit.Body.End())])+"\n")
					edits = append(edits, edit{off(df.stmt.Pos()), off(df.stmt.End()), ""})
					for _, c := range calls {
						edits = append(edits, edit{off(c.Pos()), off(c.End()), name})
					}
					log = append(log, fmt.Sprintf("closure without captures lifted: %s in %s.%s", df.obj.Name(), pkg.PkgPath, fd.Name.Name))
				}
			}
			if len(edits) == 0 {
				continue
			}
			sort.Slice(edits, func(i, j int) bool { return edits[i].lo > edits[j].lo })
			okFile := true
			for i := 1; i < len(edits); i++ {
				if edits[i].hi > edits[i-1].lo {
					okFile = false
				}
			}
			if !okFile {
				continue
			}
			buf := append([]byte{}, src...)
			for _, e := range edits {
				buf = append(buf[:e.lo], append([]byte(e.text), buf[e.hi:]...)...)
			}
			buf = append(buf, []byte(strings.Join(lifted, ""))...)
			out[fname] = buf
		}
	}
	return out, log
}
