package main

import (
	"fmt"
	"go/token"
	"go/types"

	"golang.org/x/tools/go/ssa"
)

func init() { registry["C08"] = propC08 }

func propC08() *Property {
	var la *LockAnalysis
	get := func(P *Program) *LockAnalysis {
		if la == nil {
			la = NewLockAnalysis(P)
		}
		return la
	}
	return &Property{
		ID:          "C08",
		Explanation: "Static lock-state, effect and call-graph analysis of the whole program. Decided: (R1) every access to ui.State / ui.Page fields, every call of the output callback and every write of a markup render cache happens with State.m held on every path (lock-state must-dataflow with caller-inherited states resolved over the VTA call graph; go targets and exported entry points start unlocked); (R2) the unlocked reads in the loader goroutines are covered by the in-flight flag protocol; (R3) every Lock is released on every return path except error returns of Subcommand; (R4) no synchronous path re-acquires the non-reentrant mutex; (R5) fan-out goroutines joined by a WaitGroup have pairwise disjoint write sets, Add/Done/Wait are balanced, captured variables of closures made elsewhere and handed over (callbacks stored in fields) counting as cells shared by all invocations; (R6) shared documents, configuration and package-level state are read-only after initialisation; (R7) every go statement is inventoried. (R8) every store into a field of a pub item type (Post, Actor, Activity, Collection, Link, Failure) targets the object that the enclosing constructor has just allocated: items are shared by pages, loader goroutines (outside State.m) and the renderer, which is safe only because nothing writes them after construction. (R9) the in-flight flags of ui.Page pair up: every flag is set right before the goroutine that clears it is started, and that goroutine clears the flag of, and writes fields and feed of, the very page value it was started for (SSA identity through the closure binding), never the page that is current when the load completes. (R1, addition) calls of feed.Feed methods from package ui are accesses to UI state: with State.m held. Not decided: liveness under real schedulers, races inside dependencies (lru, singleflight are trusted as internally synchronised), the deliberate lock hold on a failing sub-command.",
		Assumptions: []string{
			"go/types, go/ssa and the VTA call graph of x/tools v0.29.0 are sound for the call edges used (no reflection/unsafe in servitor)",
			"sync.Mutex, sync.WaitGroup, lru.Cache and singleflight.Group behave as documented",
			"callbacks passed to library functions run synchronously in the caller's goroutine unless listed as asynchronous (time.AfterFunc)",
		},
		Rules: []Rule{
			{ID: "C08.R1", Title: "guarded-by: UI state, output callback and render caches only with State.m held", Floor: 153, Run: func(c *Ctx) { c08R1(c, get(c.P)) }},
			{ID: "C08.R2", Title: "in-flight flag protocol covers the loaders' unlocked reads", Floor: 0 /* its instances are reads that need an excuse: none is the best case; the loaders themselves are pinned by R9's floor */, Run: func(c *Ctx) { c08R2(c, get(c.P)) }},
			{ID: "C08.R3", Title: "lock pairing on every return path", Floor: 19, Run: func(c *Ctx) { c08R3(c, get(c.P)) }},
			{ID: "C08.R4", Title: "no re-acquisition of the non-reentrant mutex", Floor: 62, Run: func(c *Ctx) { c08R4(c, get(c.P)) }},
			{ID: "C08.R5", Title: "fan-out goroutines: disjoint write sets, balanced WaitGroup", Floor: 40, Run: c08R5},
			{ID: "C08.R6", Title: "shared documents, configuration and package state are read-only", Floor: 28, Run: c08R6},
			{ID: "C08.R7", Title: "goroutine inventory", Floor: 12, Run: func(c *Ctx) { c08R7(c, get(c.P)) }},
			{ID: "C08.R8", Title: "pub items are written only while they are being constructed", Floor: 20, Run: c08R8},
			{ID: "C08.R9", Title: "a background load is delivered to the page it was started for (in-flight flag pairing)", Floor: 8, Run: c08R9},
			{ID: "C08.R10", Title: "no slot of a bounded channel is held while code that needs another slot of the same channel runs", Floor: 0, Run: c08R10},
		},
	}
}

// flagProtocol describes a loader closure G started under an in-flight flag.
type flagProtocol struct {
	closure  *ssa.Function
	flag     *types.Var
	pagePath string
	problem  string
}

// protocolFor validates the in-flight flag protocol for go-closure g and
// returns the flag that serialises it.
func (la *LockAnalysis) protocolFor(g *ssa.Function) *flagProtocol {
	P := la.P
	parent := g.Parent()
	if parent == nil {
		return nil
	}
	fp := &flagProtocol{closure: g}
	// the unique go statement starting g
	var goI *ssa.Go
	n := 0
	eachInstr(parent, func(_ *ssa.BasicBlock, _ int, in ssa.Instruction) {
		if gi, ok := in.(*ssa.Go); ok {
			for _, callee := range P.Callees(gi) {
				if callee == g {
					goI = gi
					n++
				}
			}
		}
	})
	if goI == nil || n != 1 {
		fp.problem = "closure is not started by exactly one go statement"
		return fp
	}
	// flag: a bool field of Page stored false inside g with the lock held
	gi := la.info[g]
	eachInstr(g, func(_ *ssa.BasicBlock, _ int, in ssa.Instruction) {
		st, ok := in.(*ssa.Store)
		if !ok {
			return
		}
		fa, ok := st.Addr.(*ssa.FieldAddr)
		if !ok {
			return
		}
		f := fieldOf(fa)
		if _, isGuarded := la.guarded[f]; !isGuarded {
			return
		}
		if b, ok := f.Type().Underlying().(*types.Basic); !ok || b.Kind() != types.Bool {
			return
		}
		if c, ok := st.Val.(*ssa.Const); ok && c.Value != nil && c.Value.String() == "false" {
			if gi.before[in].lock == held && fp.flag == nil {
				fp.flag = f
				fp.pagePath = path(fa.X)
			}
		}
	})
	if fp.flag == nil {
		fp.problem = "closure never clears an in-flight flag with the lock held"
		return fp
	}
	// in the parent: the go statement is dominated by `flag = true` on the same
	// page, itself under the fact !flag
	pi := la.info[parent]
	ft := computeFacts(parent)
	var setTrue *ssa.Store
	eachInstr(parent, func(_ *ssa.BasicBlock, _ int, in ssa.Instruction) {
		st, ok := in.(*ssa.Store)
		if !ok {
			return
		}
		fa, ok := st.Addr.(*ssa.FieldAddr)
		if !ok || fieldOf(fa) != fp.flag || path(fa.X) != fp.pagePath {
			return
		}
		if c, ok := st.Val.(*ssa.Const); ok && c.Value != nil && c.Value.String() == "true" && dominatesInstr(st, goI) {
			setTrue = st
		}
	})
	if setTrue == nil {
		fp.problem = "no store " + fp.flag.Name() + " = true dominating the go statement"
		return fp
	}
	if la.effective(parent, pi.before[setTrue].lock) == notHeld {
		fp.problem = "the flag is set without the lock"
		return fp
	}
	checked := false
	for _, f := range ft.At(setTrue.Block()) {
		if f.Truth {
			continue
		}
		u, ok := f.Cond.(*ssa.UnOp)
		if !ok || u.Op != token.MUL {
			continue
		}
		fa, ok := u.X.(*ssa.FieldAddr)
		if ok && fieldOf(fa) == fp.flag && path(fa.X) == fp.pagePath {
			checked = true
		}
	}
	if !checked {
		fp.problem = "the go statement is not guarded by !" + fp.flag.Name()
		return fp
	}
	// nobody else clears or sets the flag
	for _, fn := range P.Funcs {
		eachInstr(fn, func(_ *ssa.BasicBlock, _ int, in ssa.Instruction) {
			st, ok := in.(*ssa.Store)
			if !ok {
				return
			}
			fa, ok := st.Addr.(*ssa.FieldAddr)
			if !ok || fieldOf(fa) != fp.flag || freshBase(fa.X) {
				return
			}
			if in == ssa.Instruction(setTrue) || fn == g {
				return
			}
			fp.problem = "flag " + fp.flag.Name() + " is also written at " + P.InstrPos(in)
		})
	}
	return fp
}

// protectedRead decides whether an unlocked read of Page field f inside
// go-closure g is covered by g's in-flight flag.
func (la *LockAnalysis) protectedRead(g *ssa.Function, ga guardedAccess) (bool, string) {
	P := la.P
	if ga.write {
		return false, "writes are never covered by the flag protocol"
	}
	if _, isGo := la.origin[g]; !isGo || g.Parent() == nil {
		return false, "not a goroutine closure"
	}
	fp := la.protocolFor(g)
	if fp == nil || fp.problem != "" {
		if fp != nil {
			return false, fp.problem
		}
		return false, "no protocol"
	}
	if path(ga.base) != fp.pagePath {
		return false, "read is on a different page object than the flag"
	}
	// every writer of this field is a closure serialised by the same flag, with the lock held
	problem := ""
	for _, fn := range P.Funcs {
		for _, w := range la.info[fn].accesses {
			if w.field != ga.field || !w.write {
				continue
			}
			if la.effective(fn, w.state) != held && !(w.state == inherit) {
				problem = fmt.Sprintf("field written without the lock at %s", P.InstrPos(w.in))
			}
			if fn == g {
				continue
			}
			ofp := la.protocolFor(fn)
			if ofp == nil || ofp.problem != "" || ofp.flag != fp.flag {
				problem = fmt.Sprintf("field %s is also written outside the %s protocol at %s", ga.field.Name(), fp.flag.Name(), P.InstrPos(w.in))
			}
		}
	}
	if problem != "" {
		return false, problem
	}
	return true, "covered by in-flight flag " + fp.flag.Name()
}

func c08R1(c *Ctx, la *LockAnalysis) {
	P := c.P
	nAccess := 0
	for _, fn := range P.Funcs {
		fi := la.info[fn]
		for _, ga := range fi.accesses {
			nAccess++
			st := la.effective(fn, ga.state)
			construct := FuncName(fn) + "/" + ga.what
			switch st {
			case held:
				c.ok(construct, P.InstrPos(ga.in), FuncName(fn), "State.m held on every path to this access")
			case inherit:
				c.ok(construct, P.InstrPos(ga.in), FuncName(fn), "caller's lock state; every call site is checked below")
			case notHeld:
				if ok, why := la.protectedRead(fn, ga); ok {
					c.ok(construct, P.InstrPos(ga.in), FuncName(fn), "unlocked read "+why+" (validated by C08.R2)")
					continue
				}
				why := la.origin[fn]
				if why == "" {
					why = "the function released the lock"
				}
				c.bad(construct, P.InstrPos(ga.in), FuncName(fn),
					fmt.Sprintf("%s with State.m not held: %s", ga.what, why))
			}
		}
		// call sites of functions that need the lock
		eachInstr(fn, func(_ *ssa.BasicBlock, _ int, in ssa.Instruction) {
			ci, ok := in.(ssa.CallInstruction)
			if !ok {
				return
			}
			st, seen := fi.before[in]
			if !seen {
				return
			}
			for _, callee := range P.Callees(ci) {
				why, needs := la.needs[callee]
				if !needs {
					continue
				}
				construct := FuncName(fn) + "/calls:" + FuncName(callee)
				eff := la.effective(fn, st.lock)
				if _, isGo := in.(*ssa.Go); isGo {
					continue // the callee is an origin and is checked on its own
				}
				if _, isDefer := in.(*ssa.Defer); isDefer {
					// runs at function exit: with the lock iff no Unlock is deferred after it
					if st.deferred {
						eff = notHeld
					}
				}
				switch eff {
				case held:
					c.ok(construct, P.InstrPos(in), FuncName(fn), "callee needs the lock ("+why+"); held here")
				case inherit:
					c.ok(construct, P.InstrPos(in), FuncName(fn), "callee needs the lock; requirement passed on to this function's callers")
				case notHeld:
					o := la.origin[fn]
					if o == "" {
						o = "the function released the lock"
					}
					c.bad(construct, P.InstrPos(in), FuncName(fn),
						fmt.Sprintf("calls %s without State.m held (%s); the callee needs it: %s", callee.String(), o, why))
				}
			}
		})
	}
	c.info("guarded_accesses", nAccess)
	c.info("functions_needing_lock", len(la.needs))
}

func c08R2(c *Ctx, la *LockAnalysis) {
	P := c.P
	for _, fn := range sortedFuncs(la.origin) {
		if fn.Parent() == nil || P.PkgOf(fn) != "servitor/ui" {
			continue
		}
		fi := la.info[fn]
		for _, ga := range fi.accesses {
			if la.effective(fn, ga.state) != notHeld || ga.write {
				continue
			}
			ok, why := la.protectedRead(fn, ga)
			c.check(ok, FuncName(fn)+"/"+ga.what, P.InstrPos(ga.in), FuncName(fn),
				"unlocked read is serialised: "+why, "unlocked read is not covered by an in-flight flag: "+why)
		}
	}
}

func c08R3(c *Ctx, la *LockAnalysis) {
	P := c.P
	for _, fn := range P.Funcs {
		fi := la.info[fn]
		if !fi.hasLock {
			continue
		}
		// unlock while not held
		eachInstr(fn, func(_ *ssa.BasicBlock, _ int, in ssa.Instruction) {
			call, ok := in.(*ssa.Call)
			if !ok {
				return
			}
			st, seen := fi.before[in]
			if !seen {
				return
			}
			switch la.lockCallKind(&call.Call) {
			case "unlock":
				c.check(st.lock == held && !st.deferred, FuncName(fn)+"/unlock", P.InstrPos(in), FuncName(fn),
					"Unlock with the mutex held", "Unlock on a path where the mutex is not (known to be) held, or is also released by defer")
			}
		})
		for _, r := range fi.returns {
			st := fi.before[r]
			construct := FuncName(fn) + "/return"
			if st.lock != held || st.deferred {
				if st.deferred && st.lock != held {
					c.bad(construct, P.InstrPos(r), FuncName(fn), "deferred Unlock runs on a path where the mutex is not held")
				} else {
					c.ok(construct, P.InstrPos(r), FuncName(fn), "mutex released (directly or by defer) before returning")
				}
				continue
			}
			// returning with the lock held: allowed only for a failing command
			// (the property's "while commands succeed")
			if errorReturnNonNil(fn, r) {
				c.ok(construct, P.InstrPos(r), FuncName(fn), "returns a non-nil error with the lock held: the documented hold on a failing sub-command")
				continue
			}
			c.bad(construct, P.InstrPos(r), FuncName(fn), "returns with State.m still held on a path that does not report an error: every later key, resize or load blocks forever")
		}
	}
}

// errorReturnNonNil: fn's last result is an error and this return provably
// returns a non-nil one.
func errorReturnNonNil(fn *ssa.Function, r *ssa.Return) bool {
	res := fn.Signature.Results()
	if res.Len() == 0 || !isErrorType(res.At(res.Len()-1).Type()) {
		return false
	}
	v := r.Results[len(r.Results)-1]
	return provablyNonNilError(v, r.Block())
}

func isErrorType(t types.Type) bool {
	return types.Identical(t, types.Universe.Lookup("error").Type())
}

// provablyNonNilError: v is the result of errors.New / fmt.Errorf / errors.Join
// of such, or facts at block b say v != nil.
func provablyNonNilError(v ssa.Value, b *ssa.BasicBlock) bool {
	if isNilConst(v) {
		return false
	}
	switch x := v.(type) {
	case *ssa.Call:
		if isLibCall(&x.Call, "errors", "", "New") || isLibCall(&x.Call, "fmt", "", "Errorf") {
			return true
		}
	case *ssa.MakeInterface:
		return true
	}
	ft := computeFacts(b.Parent())
	return nilnessOf(ft.At(b), path(v)) == 1
}

func c08R4(c *Ctx, la *LockAnalysis) {
	P := c.P
	for _, fn := range P.Funcs {
		fi := la.info[fn]
		eachInstr(fn, func(_ *ssa.BasicBlock, _ int, in ssa.Instruction) {
			ci, ok := in.(ssa.CallInstruction)
			if !ok {
				return
			}
			if _, isGo := in.(*ssa.Go); isGo {
				return
			}
			st, seen := fi.before[in]
			if !seen {
				return
			}
			if la.lockCallKind(ci.Common()) == "lock" {
				if _, isDefer := in.(*ssa.Defer); isDefer {
					return
				}
				c.check(la.effective(fn, st.lock) == notHeld || (st.lock == inherit && la.needs[fn] == ""),
					FuncName(fn)+"/lock", P.InstrPos(in), FuncName(fn),
					"Lock acquired where the mutex is not already held",
					"Lock while the mutex is already held (or required from the caller): sync.Mutex is not reentrant, this deadlocks")
				return
			}
			if st.lock != held {
				return
			}
			for _, callee := range P.Callees(ci) {
				if !P.IsServitorFunc(callee) {
					continue
				}
				c.check(!la.mayLock[callee], FuncName(fn)+"/calls-under-lock:"+FuncName(callee), P.InstrPos(in), FuncName(fn),
					"callee never acquires State.m", "called with State.m held, but the callee (transitively) acquires State.m: self-deadlock")
			}
		})
	}
}

func c08R7(c *Ctx, la *LockAnalysis) {
	P := c.P
	for _, fn := range P.Funcs {
		eachInstr(fn, func(_ *ssa.BasicBlock, _ int, in ssa.Instruction) {
			g, ok := in.(*ssa.Go)
			if !ok {
				return
			}
			pk := P.PkgOf(fn)
			construct := FuncName(fn) + "/go"
			switch {
			case pk == "servitor/ui":
				c.ok(construct, P.InstrPos(in), FuncName(fn), "UI completion goroutine: starts unlocked, checked by R1/R2")
			case pk == "servitor":
				c.ok(construct, P.InstrPos(in), FuncName(fn), "main loop goroutine: calls exported ui methods only (R1 origin)")
			default:
				if wg := waitGroupJoining(g); wg != "" {
					c.ok(construct, P.InstrPos(in), FuncName(fn), "fan-out goroutine joined by WaitGroup "+wg+", checked by R5")
				} else {
					c.bad(construct, P.InstrPos(in), FuncName(fn), "goroutine outside ui/main that is not joined by a sync.WaitGroup in the spawning function: not covered by any synchronisation discipline the checker knows")
				}
			}
		})
	}
}

// waitGroupJoining: the spawning function calls Wait on a WaitGroup after the
// go statement and the goroutine calls Done on the same WaitGroup.
func waitGroupJoining(g *ssa.Go) string {
	fn := g.Parent()
	var waited []string
	eachInstr(fn, func(_ *ssa.BasicBlock, _ int, in ssa.Instruction) {
		if call, ok := in.(*ssa.Call); ok && isLibCall(&call.Call, "sync", "WaitGroup", "Wait") {
			waited = append(waited, path(call.Call.Args[0]))
		}
	})
	callee, ok := g.Call.Value.(*ssa.MakeClosure)
	if !ok {
		return ""
	}
	found := ""
	eachInstr(callee.Fn.(*ssa.Function), func(_ *ssa.BasicBlock, _ int, in ssa.Instruction) {
		if c := callOf(in); c != nil && isLibCall(c, "sync", "WaitGroup", "Done") {
			p := path(c.Args[0])
			for _, w := range waited {
				if w == p {
					found = p
				}
			}
		}
	})
	return found
}
