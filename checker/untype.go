package main

import (
	"go/ast"
	"go/token"
	"go/types"
	"sort"
	"strings"

	"golang.org/x/tools/go/packages"
)

// untypeRound: a defined type that is new to the checker and whose underlying
// type is a slice, map, array, pointer, basic or function type (`type document
// []string` with `func (d document) renderWithLinks(width int) …`) is
// dissolved: its name is replaced by the underlying type wherever it is
// written, its methods become functions of the package that take the receiver
// first, and `x.m(a)` becomes `m(x, a)`. Conditions: the type is unexported or
// not used outside its package; its methods are only ever called (no method
// values, no method expressions); method names are free in the package scope;
// the type does not occur in a type assertion or type switch (where its
// identity, not its structure, is what is asked); it is not the type of a
// constant declaration. That the type satisfied no interface through its
// methods is decided by the type checker on the result: the underlying type
// has no methods, so any such use no longer compiles and the round is undone.
func untypeRound(pkgs []*packages.Package, overlay map[string][]byte) (map[string][]byte, []string) {
	var log []string
	edits := map[string][]srcEdit{}
	for _, pkg := range pkgs {
		if !isServitorPath(pkg.PkgPath) || len(pkg.Errors) > 0 {
			continue
		}
		info, fset := pkg.TypesInfo, pkg.Fset
		off := func(p token.Pos) int { return fset.Position(p).Offset }
		fileOf := func(p token.Pos) string { return fset.File(p).Name() }
		type tdecl struct {
			spec *ast.TypeSpec
			file *ast.File
		}
		decls := map[*types.TypeName]*tdecl{}
		for _, f := range pkg.Syntax {
			if strings.HasSuffix(fileOf(f.Pos()), "_test.go") {
				continue
			}
			for _, d := range f.Decls {
				gd, ok := d.(*ast.GenDecl)
				if !ok || gd.Tok != token.TYPE {
					continue
				}
				for _, sp := range gd.Specs {
					ts := sp.(*ast.TypeSpec)
					if ts.TypeParams != nil || ts.Assign.IsValid() {
						continue
					}
					switch tt := ts.Type.(type) {
					case *ast.ArrayType, *ast.MapType, *ast.StarExpr, *ast.FuncType:
					case *ast.StructType:
						// a wrapper around one value: `type response struct { reader *bufio.Reader }`
						if tt.Fields == nil || len(tt.Fields.List) != 1 || len(tt.Fields.List[0].Names) != 1 || tt.Fields.List[0].Tag != nil {
							continue
						}
					case *ast.Ident:
						if tv, ok := info.Types[ts.Type]; !ok || tv.Type == nil {
							continue
						} else if _, basic := tv.Type.(*types.Basic); !basic {
							continue
						}
					default:
						continue
					}
					if tn, ok := info.Defs[ts.Name].(*types.TypeName); ok && !anchorTypes[pkg.PkgPath+"."+ts.Name.Name] {
						decls[tn] = &tdecl{ts, f}
					}
				}
			}
		}
		if len(decls) == 0 {
			continue
		}
		parent := map[ast.Node]ast.Node{}
		for _, f := range pkg.Syntax {
			var stack []ast.Node
			ast.Inspect(f, func(n ast.Node) bool {
				if n == nil {
					stack = stack[:len(stack)-1]
					return true
				}
				if len(stack) > 0 {
					parent[n] = stack[len(stack)-1]
				}
				stack = append(stack, n)
				return true
			})
		}
		var names []*types.TypeName
		for tn := range decls {
			names = append(names, tn)
		}
		sort.Slice(names, func(i, j int) bool { return names[i].Name() < names[j].Name() })
	nextT:
		for _, tn := range names {
			d := decls[tn]
			named, _ := tn.Type().(*types.Named)
			if named == nil {
				continue
			}
			for _, other := range pkgs {
				if other == pkg || other.TypesInfo == nil {
					continue
				}
				for _, o := range other.TypesInfo.Uses {
					if o == types.Object(tn) {
						continue nextT
					}
				}
			}
			// the underlying type must read the same in every file of the package: predeclared names only, or qualifiers the file has
			dsrc := readSource(fileOf(d.file.Pos()), overlay)
			var underExpr ast.Expr = d.spec.Type
			var wrapField *types.Var
			if st, isStruct := d.spec.Type.(*ast.StructType); isStruct {
				underExpr = st.Fields.List[0].Type
				wrapField, _ = info.Defs[st.Fields.List[0].Names[0]].(*types.Var)
				if wrapField == nil {
					continue
				}
			}
			under := string(dsrc[off(underExpr.Pos()):off(underExpr.End())])
			selfRef, local := false, false
			needImports := map[string]string{} // path -> local name, of the qualified names in the underlying type
			ast.Inspect(underExpr, func(n ast.Node) bool {
				switch x := n.(type) {
				case *ast.StructType, *ast.InterfaceType:
					local = true
					return false
				case *ast.SelectorExpr:
					id, isId := x.X.(*ast.Ident)
					pn, isPkg := info.Uses[id].(*types.PkgName)
					if !isId || !isPkg {
						local = true
						return false
					}
					needImports[pn.Imported().Path()] = id.Name // every file that gets the text must import it under this name
					return false
				case *ast.Ident:
					o := info.Uses[x]
					if o == types.Object(tn) {
						selfRef = true
					} else if o != nil && o.Pkg() != nil {
						if _, isType := o.(*types.TypeName); !isType {
							local = true
						}
					}
				}
				return true
			})
			if selfRef || local {
				continue
			}
			methods := map[*types.Func]*ast.FuncDecl{}
			for _, f := range pkg.Syntax {
				for _, dd := range f.Decls {
					fd, ok := dd.(*ast.FuncDecl)
					if !ok || fd.Recv == nil || len(fd.Recv.List) != 1 {
						continue
					}
					rt := fd.Recv.List[0].Type
					if st, ok := rt.(*ast.StarExpr); ok {
						rt = st.X
					}
					if id, ok := rt.(*ast.Ident); ok && info.Uses[id] == types.Object(tn) {
						if fn, ok := info.Defs[fd.Name].(*types.Func); ok {
							methods[fn] = fd
						}
					}
				}
			}
			for fn := range methods {
				if pkg.Types.Scope().Lookup(fn.Name()) != nil || fn.Name() == "String" || fn.Name() == "Error" {
					continue nextT
				}
			}
			var mine []srcEdit
			var mineFiles []string
			add := func(pos, end token.Pos, text string) {
				mine = append(mine, srcEdit{off(pos), off(end), text})
				mineFiles = append(mineFiles, fileOf(pos))
			}
			why := ""
			importsAll := func(f *ast.File) bool {
				for path, name := range needImports {
					found := false
					for _, im := range f.Imports {
						if strings.Trim(im.Path.Value, "\"") != path {
							continue
						}
						local := ""
						if im.Name != nil {
							local = im.Name.Name
						} else if ip := pkg.Imports[path]; ip != nil {
							local = ip.Name
						}
						found = local == name
					}
					if !found {
						return false
					}
				}
				return true
			}
			for _, f := range pkg.Syntax {
				if strings.HasSuffix(fileOf(f.Pos()), "_test.go") {
					continue
				}
				src := readSource(fileOf(f.Pos()), overlay)
				text := func(n ast.Node) string { return string(src[off(n.Pos()):off(n.End())]) }
				ast.Inspect(f, func(n ast.Node) bool {
					if why != "" {
						return false
					}
					switch x := n.(type) {
					case *ast.TypeAssertExpr:
						if x.Type != nil && mentions(info, x.Type, tn) {
							why = "type assertion"
						}
					case *ast.TypeSwitchStmt:
						for _, c := range x.Body.List {
							for _, e := range c.(*ast.CaseClause).List {
								if mentions(info, e, tn) {
									why = "type switch"
								}
							}
						}
					case *ast.ValueSpec:
						if gd, ok := parent[x].(*ast.GenDecl); ok && gd.Tok == token.CONST && x.Type != nil && mentions(info, x.Type, tn) {
							why = "typed constant"
						}
					case *ast.FuncDecl:
						fn, _ := info.Defs[x.Name].(*types.Func)
						if fn == nil || methods[fn] == nil {
							return true
						}
						// `func (d T) m(a A) R` -> `func m(d T, a A) R`; the type name inside is replaced by the ident case below
						rf := x.Recv.List[0]
						rname := "_"
						if len(rf.Names) == 1 {
							rname = rf.Names[0].Name
						}
						param := rname + " " + strings.Replace(text(rf.Type), tn.Name(), under, 1)
						if len(x.Type.Params.List) > 0 {
							param += ", "
						}
						add(x.Recv.Pos(), x.Recv.End(), "")
						add(x.Type.Params.Opening+1, x.Type.Params.Opening+1, param)
						// the receiver's own type ident is inside the removed text
						ast.Inspect(rf.Type, func(m ast.Node) bool {
							if id, ok := m.(*ast.Ident); ok {
								parent[id] = x.Recv // marks it as handled
							}
							return true
						})
					case *ast.CompositeLit:
						id, isId := x.Type.(*ast.Ident)
						if wrapField == nil || !isId || info.Uses[id] != types.Object(tn) {
							return true
						}
						if u, ok := parent[x].(*ast.UnaryExpr); ok && u.Op == token.AND {
							why = "address of a literal"
							return false
						}
						for _, el := range x.Elts {
							if usesAny(info, el, tn, wrapField, methods) {
								why = "nested use in a literal"
								return false
							}
						}
						switch len(x.Elts) {
						case 0:
							add(x.Pos(), x.End(), "*new("+under+")")
						case 1:
							v := x.Elts[0]
							if kv, ok := v.(*ast.KeyValueExpr); ok {
								v = kv.Value
							}
							add(x.Pos(), x.End(), "("+under+")("+text(v)+")")
						}
						return false
					case *ast.SelectorExpr:
						if wrapField != nil && info.Uses[x.Sel] == types.Object(wrapField) {
							if usesAny(info, x.X, tn, wrapField, methods) {
								why = "nested use under a field selection"
								return false
							}
							if _, isPtr := info.TypeOf(x.X).Underlying().(*types.Pointer); isPtr {
								add(x.Pos(), x.End(), "(*"+text(x.X)+")")
							} else {
								add(x.Pos(), x.End(), "("+text(x.X)+")")
							}
							return false
						}
						fn, _ := info.Uses[x.Sel].(*types.Func)
						if fn == nil || methods[fn] == nil {
							return true
						}
						call, ok := parent[x].(*ast.CallExpr)
						if !ok || call.Fun != ast.Expr(x) {
							why = "method " + fn.Name() + " used as a value"
							return false
						}
						sel := info.Selections[x]
						if sel == nil || sel.Kind() != types.MethodVal || len(sel.Index()) != 1 {
							why = "method " + fn.Name() + " reached indirectly"
							return false
						}
						_, wantPtr := fn.Type().(*types.Signature).Recv().Type().(*types.Pointer)
						_, havePtr := info.TypeOf(x.X).Underlying().(*types.Pointer)
						recv := "(" + text(x.X) + ")"
						if wantPtr && !havePtr {
							recv = "&" + recv
						} else if !wantPtr && havePtr {
							recv = "*" + recv
						}
						// m(recv, args…): the receiver expression is evaluated first, as before
						add(x.Pos(), x.End(), fn.Name())
						sep := ""
						if len(call.Args) > 0 {
							sep = ", "
						}
						add(call.Lparen+1, call.Lparen+1, recv+sep)
						// the receiver expression may itself contain uses to rewrite: nested edits would overlap
						if usesAny(info, x.X, tn, wrapField, methods) {
							why = "nested use in a receiver expression"
						}
						return false
					case *ast.Ident:
						if info.Uses[x] != types.Object(tn) {
							return true
						}
						if _, handled := parent[x].(*ast.FieldList); handled {
							return true
						}
						if se, ok := parent[x].(*ast.SelectorExpr); ok && se.Sel != x {
							why = "method expression"
							return false
						}
						repl := under
						switch p := parent[x].(type) {
						case *ast.CallExpr:
							if p.Fun == ast.Expr(x) {
								repl = "(" + under + ")" // conversion
							}
						}
						add(x.Pos(), x.End(), repl)
					}
					return true
				})
			}
			if why == "" && len(needImports) > 0 {
				touched := map[string]bool{}
				for _, fn := range mineFiles {
					touched[fn] = true
				}
				for _, f := range pkg.Syntax {
					if touched[fileOf(f.Pos())] && !importsAll(f) {
						why = "a file that uses it does not import what its underlying type names"
					}
				}
			}
			if why != "" {
				log = append(log, "defined type "+pkg.PkgPath+"."+tn.Name()+" kept ("+why+")")
				continue
			}
			if len(mine) == 0 {
				continue // only its declaration is left
			}
			for i, ed := range mine {
				edits[mineFiles[i]] = append(edits[mineFiles[i]], ed)
			}
			log = append(log, "defined type "+pkg.PkgPath+"."+tn.Name()+" dissolved into "+under)
			break
		}
	}
	if len(edits) == 0 {
		return nil, log
	}
	out, ok := applyEdits(edits, overlay)
	if !ok {
		return nil, append(log, "defined types kept (overlapping edits)")
	}
	return out, log
}

func mentions(info *types.Info, e ast.Expr, tn *types.TypeName) bool {
	found := false
	ast.Inspect(e, func(n ast.Node) bool {
		if id, ok := n.(*ast.Ident); ok && info.Uses[id] == types.Object(tn) {
			found = true
		}
		return true
	})
	return found
}

// usesAny: e mentions the type, selects the wrapped field or calls one of the methods (an edit inside e would overlap the one around it).
func usesAny(info *types.Info, e ast.Node, tn *types.TypeName, field *types.Var, methods map[*types.Func]*ast.FuncDecl) bool {
	found := false
	ast.Inspect(e, func(n ast.Node) bool {
		if id, ok := n.(*ast.Ident); ok {
			switch o := info.Uses[id].(type) {
			case *types.TypeName:
				found = found || o == tn
			case *types.Var:
				found = found || (field != nil && o == field)
			case *types.Func:
				found = found || methods[o] != nil
			}
		}
		return true
	})
	return found
}
