package main

import (
	"fmt"
	"go/ast"
	"go/token"
	"go/types"
	"sort"
	"strings"

	"golang.org/x/tools/go/packages"
)

// unrollRound: `for _, v := range xs { body }` where xs is a local that is
// declared with a slice literal of at most eight elements and is used nowhere
// else — what binding the variadic parameter of an inlined helper leaves behind
// — becomes one copy of the body per element, each with v bound to that
// element. The body must not contain break, continue, goto, labels, defer or
// function literals, and must not assign to v's... (v is a fresh variable per
// copy, so assigning to it is fine).
func unrollRound(pkgs []*packages.Package, overlay map[string][]byte) (map[string][]byte, []string) {
	out := map[string][]byte{}
	var log []string
	for _, pkg := range pkgs {
		if !isServitorPath(pkg.PkgPath) || len(pkg.Errors) > 0 {
			continue
		}
		for _, f := range pkg.Syntax {
			fname := pkg.Fset.File(f.Pos()).Name()
			if strings.HasSuffix(fname, "_test.go") {
				continue
			}
			src := readSource(fname, overlay)
			off := func(p token.Pos) int { return pkg.Fset.Position(p).Offset }
			text := func(n ast.Node) string { return string(src[off(n.Pos()):off(n.End())]) }
			type edit struct {
				lo, hi int
				text   string
			}
			var edits []edit
			for _, d := range f.Decls {
				fd, ok := d.(*ast.FuncDecl)
				if !ok || fd.Body == nil {
					continue
				}
				// slice variables declared `var xs T = T{a, b}` / `xs := T{a, b}` and their uses
				type slot struct {
					decl  ast.Stmt
					elems []ast.Expr
					uses  int
					loop  *ast.RangeStmt
					blank ast.Stmt
				}
				slots := map[*types.Var]*slot{}
				ast.Inspect(fd.Body, func(n ast.Node) bool {
					switch s := n.(type) {
					case *ast.DeclStmt:
						gd, ok := s.Decl.(*ast.GenDecl)
						if !ok || gd.Tok != token.VAR || len(gd.Specs) != 1 {
							return true
						}
						vs, ok := gd.Specs[0].(*ast.ValueSpec)
						if !ok || len(vs.Names) != 1 || len(vs.Values) != 1 {
							return true
						}
						cl, ok := vs.Values[0].(*ast.CompositeLit)
						if !ok || len(cl.Elts) == 0 || len(cl.Elts) > 8 {
							return true
						}
						if _, isSlice := pkg.TypesInfo.TypeOf(cl).Underlying().(*types.Slice); !isSlice {
							return true
						}
						for _, e := range cl.Elts {
							if _, keyed := e.(*ast.KeyValueExpr); keyed {
								return true
							}
						}
						if v, ok := pkg.TypesInfo.Defs[vs.Names[0]].(*types.Var); ok {
							slots[v] = &slot{decl: s, elems: cl.Elts}
						}
					}
					return true
				})
				if len(slots) == 0 {
					continue
				}
				var stack []ast.Node
				ast.Inspect(fd.Body, func(n ast.Node) bool {
					if n == nil {
						stack = stack[:len(stack)-1]
						return true
					}
					stack = append(stack, n)
					id, ok := n.(*ast.Ident)
					if !ok {
						return true
					}
					v, ok := pkg.TypesInfo.Uses[id].(*types.Var)
					if !ok || slots[v] == nil {
						return true
					}
					sl := slots[v]
					parent := stack[len(stack)-2]
					if rs, ok := parent.(*ast.RangeStmt); ok && rs.X == ast.Expr(id) && sl.loop == nil {
						sl.loop = rs
						return true
					}
					if as, ok := parent.(*ast.AssignStmt); ok && as.Tok == token.ASSIGN && len(as.Lhs) == 1 && len(as.Rhs) == 1 && as.Rhs[0] == ast.Expr(id) {
						if b, ok := as.Lhs[0].(*ast.Ident); ok && b.Name == "_" && sl.blank == nil {
							sl.blank = as
							return true
						}
					}
					sl.uses++
					return true
				})
				for v, sl := range slots {
					if sl.loop == nil || sl.uses != 0 {
						continue
					}
					rs := sl.loop
					if rs.Tok != token.DEFINE || rs.Value == nil {
						continue
					}
					if k, ok := rs.Key.(*ast.Ident); !ok || k.Name != "_" {
						continue
					}
					val, ok := rs.Value.(*ast.Ident)
					if !ok {
						continue
					}
					okBody := true
					ast.Inspect(rs.Body, func(n ast.Node) bool {
						switch n.(type) {
						case *ast.BranchStmt, *ast.LabeledStmt, *ast.DeferStmt, *ast.FuncLit, *ast.GoStmt:
							okBody = false
						}
						return okBody
					})
					if !okBody {
						continue
					}
					body := text(rs.Body)
					var b strings.Builder
					for _, e := range sl.elems {
						if val.Name == "_" {
							fmt.Fprintf(&b, "%s\n", body)
						} else {
							fmt.Fprintf(&b, "{\n%s := %s\n_ = %s\n%s\n}\n", val.Name, text(e), val.Name, body)
						}
					}
					edits = append(edits, edit{off(rs.Pos()), off(rs.End()), b.String()})
					edits = append(edits, edit{off(sl.decl.Pos()), off(sl.decl.End()), ""})
					if sl.blank != nil {
						edits = append(edits, edit{off(sl.blank.Pos()), off(sl.blank.End()), ""})
					}
					log = append(log, fmt.Sprintf("loop over the %d-element literal %s unrolled in %s.%s", len(sl.elems), v.Name(), pkg.PkgPath, fd.Name.Name))
				}
			}
			if len(edits) == 0 {
				continue
			}
			sort.Slice(edits, func(i, j int) bool { return edits[i].lo > edits[j].lo })
			okFile := true
			for i := 1; i < len(edits); i++ {
				if edits[i].hi > edits[i-1].lo {
					okFile = false
				}
			}
			if !okFile {
				continue
			}
			buf := append([]byte{}, src...)
			for _, e := range edits {
				buf = append(buf[:e.lo], append([]byte(e.text), buf[e.hi:]...)...)
			}
			out[fname] = buf
		}
	}
	return out, log
}
