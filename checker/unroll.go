package main

import (
	"fmt"
	"go/ast"
	"go/constant"
	"go/token"
	"go/types"
	"sort"
	"strings"

	"golang.org/x/tools/go/packages"
)

// unrollRound: `for _, v := range xs { body }` where xs is a local that is
// declared with a slice literal of at most eight elements and is used nowhere
// else — what binding the variadic parameter of an inlined helper leaves behind
// — becomes one copy of the body per element, each with v bound to that
// element. The body must not contain break, continue, goto, labels, defer or
// function literals, and must not assign to v's... (v is a fresh variable per
// copy, so assigning to it is fine).
func unrollRound(pkgs []*packages.Package, overlay map[string][]byte) (map[string][]byte, []string) {
	out := map[string][]byte{}
	var log []string
	for _, pkg := range pkgs {
		if !isServitorPath(pkg.PkgPath) || len(pkg.Errors) > 0 {
			continue
		}
		for _, f := range pkg.Syntax {
			fname := pkg.Fset.File(f.Pos()).Name()
			if strings.HasSuffix(fname, "_test.go") {
				continue
			}
			src := readSource(fname, overlay)
			off := func(p token.Pos) int { return pkg.Fset.Position(p).Offset }
			text := func(n ast.Node) string { return string(src[off(n.Pos()):off(n.End())]) }
			type edit struct {
				lo, hi int
				text   string
			}
			var edits []edit
			for _, d := range f.Decls {
				fd, ok := d.(*ast.FuncDecl)
				if !ok || fd.Body == nil {
					continue
				}
				// slice variables declared `var xs T = T{a, b}` / `xs := T{a, b}` and their uses
				type slot struct {
					decl  ast.Stmt
					elems []ast.Expr
					uses  int
					loop  *ast.RangeStmt
					blank ast.Stmt
				}
				slots := map[*types.Var]*slot{}
				elemType := map[*types.Var]string{}
				ast.Inspect(fd.Body, func(n ast.Node) bool {
					switch s := n.(type) {
					case *ast.AssignStmt:
						// xs := []T{a, b}
						if s.Tok != token.DEFINE || len(s.Lhs) != 1 || len(s.Rhs) != 1 {
							return true
						}
						id, ok := s.Lhs[0].(*ast.Ident)
						cl, ok2 := s.Rhs[0].(*ast.CompositeLit)
						if !ok || !ok2 || len(cl.Elts) == 0 || len(cl.Elts) > 8 {
							return true
						}
						if _, isSlice := pkg.TypesInfo.TypeOf(cl).Underlying().(*types.Slice); !isSlice {
							return true
						}
						for _, e := range cl.Elts {
							if _, keyed := e.(*ast.KeyValueExpr); keyed {
								return true
							}
						}
						// only tables of records of a struct type that is new to the checker: those are
						// what a chain of similar statements is turned into, and scalar replacement takes
						// the records apart again; tables the pinned code itself walks are left as they are
						st, _ := pkg.TypesInfo.TypeOf(cl).Underlying().(*types.Slice)
						named, isNamed := st.Elem().(*types.Named)
						if !isNamed || named.Obj().Pkg() != pkg.Types || anchorTypes[pkg.PkgPath+"."+named.Obj().Name()] {
							return true
						}
						if _, isStruct := named.Underlying().(*types.Struct); !isStruct {
							return true
						}
						if v, ok := pkg.TypesInfo.Defs[id].(*types.Var); ok {
							slots[v] = &slot{decl: s, elems: cl.Elts}
							if at, ok := cl.Type.(*ast.ArrayType); ok && at.Len == nil {
								elemType[v] = text(at.Elt)
							}
						}
					case *ast.DeclStmt:
						gd, ok := s.Decl.(*ast.GenDecl)
						if !ok || gd.Tok != token.VAR || len(gd.Specs) != 1 {
							return true
						}
						vs, ok := gd.Specs[0].(*ast.ValueSpec)
						if !ok || len(vs.Names) != 1 || len(vs.Values) != 1 {
							return true
						}
						cl, ok := vs.Values[0].(*ast.CompositeLit)
						if !ok || len(cl.Elts) == 0 || len(cl.Elts) > 8 {
							return true
						}
						if _, isSlice := pkg.TypesInfo.TypeOf(cl).Underlying().(*types.Slice); !isSlice {
							return true
						}
						for _, e := range cl.Elts {
							if _, keyed := e.(*ast.KeyValueExpr); keyed {
								return true
							}
						}
						if v, ok := pkg.TypesInfo.Defs[vs.Names[0]].(*types.Var); ok {
							slots[v] = &slot{decl: s, elems: cl.Elts}
							if at, ok := cl.Type.(*ast.ArrayType); ok && at.Len == nil {
								elemType[v] = text(at.Elt)
							}
						}
					}
					return true
				})
				if len(slots) == 0 {
					continue
				}
				var stack []ast.Node
				ast.Inspect(fd.Body, func(n ast.Node) bool {
					if n == nil {
						stack = stack[:len(stack)-1]
						return true
					}
					stack = append(stack, n)
					id, ok := n.(*ast.Ident)
					if !ok {
						return true
					}
					v, ok := pkg.TypesInfo.Uses[id].(*types.Var)
					if !ok || slots[v] == nil {
						return true
					}
					sl := slots[v]
					parent := stack[len(stack)-2]
					if rs, ok := parent.(*ast.RangeStmt); ok && rs.X == ast.Expr(id) && sl.loop == nil {
						sl.loop = rs
						return true
					}
					if as, ok := parent.(*ast.AssignStmt); ok && as.Tok == token.ASSIGN && len(as.Lhs) == 1 && len(as.Rhs) == 1 && as.Rhs[0] == ast.Expr(id) {
						if b, ok := as.Lhs[0].(*ast.Ident); ok && b.Name == "_" && sl.blank == nil {
							sl.blank = as
							return true
						}
					}
					sl.uses++
					return true
				})
				for v, sl := range slots {
					if sl.loop == nil || sl.uses != 0 {
						continue
					}
					rs := sl.loop
					if rs.Tok != token.DEFINE || rs.Value == nil {
						continue
					}
					if k, ok := rs.Key.(*ast.Ident); !ok || k.Name != "_" {
						continue
					}
					val, ok := rs.Value.(*ast.Ident)
					if !ok {
						continue
					}
					okBody := true
					// a `continue` of this very loop ends the copy of the body it is in
					var continues []*ast.BranchStmt
					labelDefs := map[string]bool{}
					var labelUses []*ast.Ident
					var scan func(n ast.Node, nested bool)
					scan = func(n ast.Node, nested bool) {
						ast.Inspect(n, func(m ast.Node) bool {
							if m == nil || !okBody {
								return false
							}
							switch x := m.(type) {
							case *ast.ForStmt:
								if x != n {
									scan(x.Body, true)
									return false
								}
							case *ast.RangeStmt:
								if x != n {
									scan(x.Body, true)
									return false
								}
							case *ast.BranchStmt:
								if x.Tok == token.CONTINUE && x.Label == nil && !nested {
									continues = append(continues, x)
								} else if x.Tok == token.GOTO && x.Label != nil {
									labelUses = append(labelUses, x.Label)
								} else if !(nested && x.Label == nil && (x.Tok == token.CONTINUE || x.Tok == token.BREAK)) {
									okBody = false
								}
							case *ast.SwitchStmt, *ast.TypeSwitchStmt, *ast.SelectStmt:
								// a break inside belongs to it; a continue inside still belongs to the loop
							case *ast.LabeledStmt:
								// labels of the body (what inlining leaves behind) get a name of their own in every copy
								labelDefs[x.Label.Name] = true
								labelUses = append(labelUses, x.Label)
							case *ast.DeferStmt, *ast.FuncLit, *ast.GoStmt:
								okBody = false
							}
							return okBody
						})
					}
					scan(rs.Body, false)
					if okBody {
						// break statements directly in the body (not inside a switch or select) would leave the loop
						ast.Inspect(rs.Body, func(m ast.Node) bool {
							switch x := m.(type) {
							case *ast.ForStmt, *ast.RangeStmt, *ast.SwitchStmt, *ast.TypeSwitchStmt, *ast.SelectStmt:
								return false
							case *ast.BranchStmt:
								if x.Tok == token.BREAK {
									okBody = false
								}
							}
							return true
						})
					}
					if !okBody {
						continue
					}
					bsrc := []byte(text(rs.Body))
					base := off(rs.Body.Pos())
					var b strings.Builder
					for k, e := range sl.elems {
						body := string(bsrc)
						label := ""
						if len(continues) > 0 || len(labelUses) > 0 {
							if len(continues) > 0 {
								label = fmt.Sprintf("_next_%s_%d_%d", v.Name(), off(rs.Pos()), k)
							}
							type rep struct {
								lo, hi int
								text   string
							}
							var reps []rep
							for _, cs := range continues {
								reps = append(reps, rep{off(cs.Pos()) - base, off(cs.End()) - base, "goto " + label})
							}
							for _, id := range labelUses {
								if labelDefs[id.Name] {
									reps = append(reps, rep{off(id.Pos()) - base, off(id.End()) - base, fmt.Sprintf("%s_u%d", id.Name, k)})
								}
							}
							sort.Slice(reps, func(i, j int) bool { return reps[i].lo > reps[j].lo })
							buf := append([]byte{}, bsrc...)
							for _, r := range reps {
								buf = append(buf[:r.lo], append([]byte(r.text), buf[r.hi:]...)...)
							}
							body = string(buf)
						}
						et := text(e)
						if cl, isLit := e.(*ast.CompositeLit); isLit && cl.Type == nil && elemType[v] != "" {
							et = elemType[v] + et
						}
						if u, isAddr := e.(*ast.UnaryExpr); isAddr && u.Op == token.AND {
							if cl, isLit := u.X.(*ast.CompositeLit); isLit && cl.Type == nil {
								okBody = false
							}
						}
						tail := ""
						if label != "" {
							tail = label + ":\n;\n"
						}
						if val.Name == "_" {
							fmt.Fprintf(&b, "{\n%s\n%s}\n", body, tail)
						} else {
							fmt.Fprintf(&b, "{\n%s := %s\n_ = %s\n%s\n%s}\n", val.Name, et, val.Name, body, tail)
						}
					}
					if !okBody {
						continue
					}
					edits = append(edits, edit{off(rs.Pos()), off(rs.End()), b.String()})
					edits = append(edits, edit{off(sl.decl.Pos()), off(sl.decl.End()), ""})
					if sl.blank != nil {
						edits = append(edits, edit{off(sl.blank.Pos()), off(sl.blank.End()), ""})
					}
					log = append(log, fmt.Sprintf("loop over the %d-element literal %s unrolled in %s.%s", len(sl.elems), v.Name(), pkg.PkgPath, fd.Name.Name))
				}
			}
			if len(edits) == 0 {
				continue
			}
			sort.Slice(edits, func(i, j int) bool { return edits[i].lo > edits[j].lo })
			okFile := true
			for i := 1; i < len(edits); i++ {
				if edits[i].hi > edits[i-1].lo {
					okFile = false
				}
			}
			if !okFile {
				continue
			}
			buf := append([]byte{}, src...)
			for _, e := range edits {
				buf = append(buf[:e.lo], append([]byte(e.text), buf[e.hi:]...)...)
			}
			out[fname] = buf
		}
	}
	return out, log
}

// unrollCountedRound: `for i := c0; i < c1; i += c2 { body }` with constant c0,
// c1, c2 and at most eight trips, a body that neither assigns to i nor takes
// its address and has no break, continue, goto, label, defer or function
// literal, becomes one copy of the body per trip with i a constant of that
// trip — a loop over the three colour channels of a hex code reads again as
// three parses of text[1:3], text[3:5] and text[5:7].
func unrollCountedRound(pkgs []*packages.Package, overlay map[string][]byte) (map[string][]byte, []string) {
	var log []string
	edits := map[string][]srcEdit{}
	for _, pkg := range pkgs {
		if !isServitorPath(pkg.PkgPath) || len(pkg.Errors) > 0 {
			continue
		}
		info := pkg.TypesInfo
		constOf := func(e ast.Expr) (int64, bool) {
			tv, ok := info.Types[e]
			if !ok || tv.Value == nil || tv.Value.Kind() != constant.Int {
				return 0, false
			}
			return constant.Int64Val(tv.Value)
		}
		for _, f := range pkg.Syntax {
			fname := pkg.Fset.File(f.Pos()).Name()
			if strings.HasSuffix(fname, "_test.go") {
				continue
			}
			src := readSource(fname, overlay)
			off := func(p token.Pos) int { return pkg.Fset.Position(p).Offset }
			done := false
			ast.Inspect(f, func(n ast.Node) bool {
				// `for i := range a` over an array of at most eight elements (or `range N` with a constant N)
				if rs, isRange := n.(*ast.RangeStmt); isRange && !done && rs.Tok == token.DEFINE && rs.Value == nil && rs.Key != nil {
					key, isId := rs.Key.(*ast.Ident)
					trips := int64(-1)
					if tv, has := info.Types[rs.X]; has && tv.Type != nil {
						t := tv.Type
						if pt, isPtr := t.Underlying().(*types.Pointer); isPtr {
							t = pt.Elem()
						}
						if at, isArr := t.Underlying().(*types.Array); isArr {
							trips = at.Len()
						} else if tv.Value != nil && tv.Value.Kind() == constant.Int {
							trips, _ = constant.Int64Val(tv.Value)
						}
					}
					if isId && key.Name != "_" && trips >= 1 && trips <= 8 {
						obj := info.Defs[key]
						okBody := obj != nil
						ast.Inspect(rs.Body, func(m ast.Node) bool {
							switch x := m.(type) {
							case *ast.BranchStmt, *ast.LabeledStmt, *ast.DeferStmt, *ast.FuncLit, *ast.GoStmt:
								okBody = false
							case *ast.AssignStmt:
								for _, l := range x.Lhs {
									if id, ok := l.(*ast.Ident); ok && info.Uses[id] == obj {
										okBody = false
									}
								}
							case *ast.IncDecStmt:
								if id, ok := x.X.(*ast.Ident); ok && info.Uses[id] == obj {
									okBody = false
								}
							case *ast.UnaryExpr:
								if id, ok := x.X.(*ast.Ident); ok && x.Op == token.AND && info.Uses[id] == obj {
									okBody = false
								}
							}
							return okBody
						})
						// the ranged expression must be free of effects (it is no longer evaluated)
						if _, plain := rs.X.(*ast.Ident); !plain {
							if _, lit := rs.X.(*ast.BasicLit); !lit {
								okBody = false
							}
						}
						if okBody {
							body := string(src[off(rs.Body.Pos()):off(rs.Body.End())])
							var b strings.Builder
							for t := int64(0); t < trips; t++ {
								fmt.Fprintf(&b, "{\nconst %s = %d\n%s\n}\n", key.Name, t, body)
							}
							edits[fname] = append(edits[fname], srcEdit{off(rs.Pos()), off(rs.End()), b.String()})
							log = append(log, fmt.Sprintf("range over %d indices (%s) unrolled in %s", trips, key.Name, fname[strings.LastIndex(fname, "/")+1:]))
							done = true
							return false
						}
					}
				}
				fs, ok := n.(*ast.ForStmt)
				if !ok || done {
					return !done
				}
				init, ok1 := fs.Init.(*ast.AssignStmt)
				cond, ok2 := fs.Cond.(*ast.BinaryExpr)
				if !ok1 || !ok2 || fs.Post == nil || init.Tok != token.DEFINE || len(init.Lhs) != 1 || len(init.Rhs) != 1 {
					return true
				}
				iv, ok := init.Lhs[0].(*ast.Ident)
				if !ok {
					return true
				}
				obj := info.Defs[iv]
				c0, ok := constOf(init.Rhs[0])
				if !ok || obj == nil {
					return true
				}
				cid, ok := cond.X.(*ast.Ident)
				c1, ok2 := constOf(cond.Y)
				if !ok || !ok2 || info.Uses[cid] != obj {
					return true
				}
				var step int64
				switch p := fs.Post.(type) {
				case *ast.IncDecStmt:
					if id, ok := p.X.(*ast.Ident); !ok || info.Uses[id] != obj {
						return true
					}
					step = 1
					if p.Tok == token.DEC {
						step = -1
					}
				case *ast.AssignStmt:
					if len(p.Lhs) != 1 || len(p.Rhs) != 1 {
						return true
					}
					id, ok := p.Lhs[0].(*ast.Ident)
					k, ok2 := constOf(p.Rhs[0])
					if !ok || !ok2 || info.Uses[id] != obj {
						return true
					}
					switch p.Tok {
					case token.ADD_ASSIGN:
						step = k
					case token.SUB_ASSIGN:
						step = -k
					default:
						return true
					}
				default:
					return true
				}
				holds := func(i int64) bool {
					switch cond.Op {
					case token.LSS:
						return i < c1
					case token.LEQ:
						return i <= c1
					case token.GTR:
						return i > c1
					case token.GEQ:
						return i >= c1
					case token.NEQ:
						return i != c1
					}
					return false
				}
				var trips []int64
				for i := c0; holds(i) && len(trips) <= 8; i += step {
					trips = append(trips, i)
					if step == 0 {
						return true
					}
				}
				if len(trips) == 0 || len(trips) > 8 {
					return true
				}
				okBody := true
				ast.Inspect(fs.Body, func(m ast.Node) bool {
					switch x := m.(type) {
					case *ast.BranchStmt, *ast.LabeledStmt, *ast.DeferStmt, *ast.FuncLit, *ast.GoStmt:
						okBody = false
					case *ast.AssignStmt:
						for _, l := range x.Lhs {
							if id, ok := l.(*ast.Ident); ok && info.Uses[id] == obj {
								okBody = false
							}
						}
					case *ast.IncDecStmt:
						if id, ok := x.X.(*ast.Ident); ok && info.Uses[id] == obj {
							okBody = false
						}
					case *ast.UnaryExpr:
						if id, ok := x.X.(*ast.Ident); ok && x.Op == token.AND && info.Uses[id] == obj {
							okBody = false
						}
					}
					return okBody
				})
				if !okBody {
					return true
				}
				body := string(src[off(fs.Body.Pos()):off(fs.Body.End())])
				var b strings.Builder
				for _, t := range trips {
					fmt.Fprintf(&b, "{\nconst %s = %d\n%s\n}\n", iv.Name, t, body)
				}
				edits[fname] = append(edits[fname], srcEdit{off(fs.Pos()), off(fs.End()), b.String()})
				log = append(log, fmt.Sprintf("counted loop over %s (%d trips) unrolled in %s", iv.Name, len(trips), fname[strings.LastIndex(fname, "/")+1:]))
				done = true // one per file and round: nested loops would overlap
				return false
			})
		}
	}
	if len(edits) == 0 {
		return nil, log
	}
	out, ok := applyEdits(edits, overlay)
	if !ok {
		return nil, log
	}
	return out, log
}
