package main

// thorough tier: filled in selftest_impl (mutation self-test, tag/arch
// variants, CHA cross-check).

func thorough(repo, verif string, prop *Property, res *RunResult, known KnownFile) map[string]any {
	return thoroughImpl(repo, verif, prop, res, known)
}

func runMutantChild(repo, verif, spec string) int {
	return runMutantChildImpl(repo, verif, spec)
}
