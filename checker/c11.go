package main

import (
	"fmt"
	"go/token"
	"go/types"
	"os"
	"sort"
	"strings"

	"golang.org/x/tools/go/ssa"
)

func init() { registry["C11"] = propC11 }

func propC11() *Property {
	return &Property{
		ID:          "C11",
		Explanation: "Structural clauses of the feed property only. Decided: (R1) the feed simply ends — no pointer that may be nil is ever converted into a pub.Container or pub.Tangible interface anywhere in the module (a typed nil passes every `!= nil` test of the UI and crashes on the next Harvest); (R2) splicer.NewSplicer's type switch covers every dynamic type pub.FetchUserInput can return, so its panic is unreachable; (R3) the parallel replenish/NewSplicer fan-out is race-free (decided by C08.R5); (R4) Splicer.Harvest never writes through its receiver — it works on a clone — which is necessary for the same feed position to give the same answer twice; (R5) because clone() copies the per-source buffers shallowly, a feed value and all its clones / continuations share the arrays behind `elements`: those arrays are only re-sliced or re-allocated by append, never written in place (no indexed store, no copy into them other than clone's own self-copy); (R6) replenish visits every source on every call — no return skips the fan-out loop — and refills a source exactly when its own buffer is shorter than the requested depth and it still has a page, asking that page for exactly the missing number of items from its own base point (a necessary condition for choosing among the true heads of all sources). (R5) buffered items are shared with clones and never written in place; (R6) replenish visits every source and refills exactly those whose own buffer is shorter than the requested depth, by the difference, from the source's own base point; (R7) every trip round microharvest's selection loop is classified: the best is kept only for an empty source / nil head or when the best exists and the head's timestamp is not After it, it is replaced by the head only when there was none or the head is strictly After (ties stay with the first source); nil is returned only where the best is nil; the popped source is the one recorded with the best. (R8) NewSplicer stores the page fetched for inputs[k] at s[k].page, k the induction variable of the loop over the inputs, in a Splicer made with len(inputs) slots. (R9) nothing moves an element of a Splicer to another index and nothing sorts or shuffles one: ties stay with the source listed first. (R10 = C10.R4) a page names itself as continuation only when it delivered the full amount: a source that answers short is exhausted, which replenish relies on. (R12) Harvest replenishes the sources to exactly quantity + startingPoint. NOT decided: that the output is the newest-first merge, exactly-once delivery, tie-breaking and idempotence as values (they quantify over timestamps and slices; no static argument in reach decides them).",
		Assumptions: []string{"VTA call graph / MakeInterface sites over-approximate the dynamic types of interface values"},
		Rules: []Rule{
			{ID: "C11.R1", Title: "no typed-nil pointer is converted to Container / Tangible", Floor: 30, Run: c11R1},
			{ID: "C11.R2", Title: "NewSplicer's type switch covers every type FetchUserInput returns", Floor: 3, Run: c11R2},
			{ID: "C11.R4", Title: "Harvest works on a clone: the receiver is never written", Floor: 1, Run: c11R4},
			{ID: "C11.R5", Title: "buffered items are shared with clones: never written in place", Floor: 1, Run: c11R5},
			{ID: "C11.R6", Title: "every source is replenished to the requested depth", Floor: 1, Run: c11R6},
			{ID: "C11.R8", Title: "source k of the feed is input k (ties go to the source listed first)", Floor: 1, Run: c11R8},
			{ID: "C11.R9", Title: "the order of the sources is never permuted", Floor: 1, Run: c11R9},
			{ID: "C11.R10", Title: "a source that answers short is exhausted: a page names itself as continuation only when it delivered the full amount (same instances as C10.R4)", Floor: 3, Run: c10R4},
			{ID: "C11.R12", Title: "every source is asked to hold what the request can take from it: Harvest replenishes to quantity + startingPoint, nothing subtracted", Floor: 1, Run: c11R12},
			{ID: "C11.R11", Title: "the feed ends only when a selection found every buffer empty", Floor: 1, Run: c11R11},
			{ID: "C11.R7", Title: "the selection loop: a head is passed over only if it is empty or not newer than the best so far", Floor: 3, Run: c11R7},
		},
	}
}

func c11R1(c *Ctx) {
	P := c.P
	nn := newNonNil(P)
	container := P.NamedType("servitor/pub", "Container")
	tangible := P.NamedType("servitor/pub", "Tangible")
	for _, fn := range P.Funcs {
		eachInstr(fn, func(b *ssa.BasicBlock, _ int, in ssa.Instruction) {
			mi, ok := in.(*ssa.MakeInterface)
			if !ok {
				return
			}
			if !types.Identical(mi.Type(), container) && !types.Identical(mi.Type(), tangible) && !(isEmptyInterface(mi.Type()) && isItemPointer(mi.X.Type())) {
				return
			}
			if _, isPtr := mi.X.Type().Underlying().(*types.Pointer); !isPtr {
				return
			}
			iface := "Tangible"
			if types.Identical(mi.Type(), container) {
				iface = "Container"
			} else if isEmptyInterface(mi.Type()) {
				iface = "Any"
			}
			construct := FuncName(fn) + "/to-" + iface + ":" + typeString(mi.X.Type())
			c.check(ifaceUsesNonNil(nn, mi, mi.X, map[ssa.Value]bool{}), construct, P.InstrPos(in), FuncName(fn),
				"the pointer is provably non-nil where it becomes a pub."+iface,
				"a "+typeString(mi.X.Type())+" that may be nil is converted to pub."+iface+": the result is a non-nil interface holding a nil pointer, passes every `!= nil` test (ui treats a nil continuation as the end of the page) and crashes when used")
		})
	}
}

func c11R2(c *Ctx) {
	P := c.P
	f := c01FlowCached(P)
	fui := P.Func("servitor/pub", "FetchUserInput")
	ns := P.Func("servitor/splicer", "NewSplicer")
	// dynamic types: MakeInterface sites that reach FetchUserInput's result
	_, visited := f.Backward(f.ret(fui, 0), nil)
	dyn := map[string]types.Type{}
	for n := range visited {
		k := f.keys[n]
		if k.kind != nValue {
			continue
		}
		if mi, ok := k.v.(*ssa.MakeInterface); ok {
			if _, isIface := mi.X.Type().Underlying().(*types.Interface); !isIface {
				// only conversions whose result type can be the returned interface
				if types.AssignableTo(mi.Type(), fui.Signature.Results().At(0).Type()) || isEmptyInterface(mi.Type()) || isNamed(mi.Type(), "servitor/pub", "Tangible") {
					dyn[typeString(mi.X.Type())] = mi.X.Type()
				}
			}
		}
	}
	// restrict to types that can actually flow: concrete item types
	var names []string
	for n, t := range dyn {
		if nt := namedOf(t); nt != nil && nt.Obj().Pkg() != nil && nt.Obj().Pkg().Path() == "servitor/pub" {
			names = append(names, n)
		}
	}
	sort.Strings(names)
	c.info("dynamic_types", names)
	if len(names) < 4 {
		broken("found only %v as dynamic types of FetchUserInput's result", names)
	}
	// the switch in NewSplicer's goroutine: asserted types
	var cases []types.Type
	var walk func(fn *ssa.Function)
	walk = func(fn *ssa.Function) {
		eachInstr(fn, func(_ *ssa.BasicBlock, _ int, in ssa.Instruction) {
			if ta, ok := in.(*ssa.TypeAssert); ok && ta.CommaOk {
				cases = append(cases, ta.AssertedType)
			}
		})
		for _, a := range fn.AnonFuncs {
			walk(a)
		}
	}
	walk(ns)
	// helpers of package splicer that NewSplicer (or its goroutines) call
	seenFn := map[*ssa.Function]bool{ns: true}
	work := append([]*ssa.Function{ns}, Closures(ns)...)
	for len(work) > 0 {
		fn := work[0]
		work = work[1:]
		eachInstr(fn, func(_ *ssa.BasicBlock, _ int, in ssa.Instruction) {
			if ci, ok := in.(ssa.CallInstruction); ok {
				if sc := ci.Common().StaticCallee(); sc != nil && P.PkgOf(sc) == "servitor/splicer" && !seenFn[sc] {
					seenFn[sc] = true
					walk(sc)
					work = append(work, sc)
				}
			}
		})
	}
	for _, n := range names {
		t := dyn[n]
		covered := false
		for _, ct := range cases {
			if iface, ok := ct.Underlying().(*types.Interface); ok {
				if types.Implements(t, iface) {
					covered = true
				}
			} else if types.Identical(ct, t) {
				covered = true
			}
		}
		c.check(covered, FuncName(ns)+"/switch-covers:"+n, P.Pos(ns.Pos()), FuncName(ns),
			"dynamic type "+n+" is handled by a case of the type switch", "pub.FetchUserInput can return a "+n+", which no case of NewSplicer's type switch handles: the default branch panics")
	}
}

func isEmptyInterface(t types.Type) bool {
	i, ok := t.Underlying().(*types.Interface)
	return ok && i.NumMethods() == 0
}

func c11R4(c *Ctx) {
	P := c.P
	E := NewEffects(P)
	h := P.Method("servitor/splicer", "Splicer", "Harvest")
	var bad []string
	for r, pos := range E.Writes(h) {
		if strings.HasPrefix(r, "param:0") || strings.HasPrefix(r, "global:") {
			bad = append(bad, r+" at "+pos)
		}
	}
	sort.Strings(bad)
	c.check(len(bad) == 0, FuncName(h)+"/receiver-readonly", P.Pos(h.Pos()), FuncName(h),
		"Harvest and its callees write only memory allocated for the clone", "Splicer.Harvest writes through its receiver ("+strings.Join(bad, "; ")+"): asking the same feed position twice no longer gives the same answer, and concurrent loaders race")
}

// isItemPointer: pointer to one of the item types that travel as Any /
// Tangible / Container.
func isItemPointer(t types.Type) bool {
	if _, ok := t.Underlying().(*types.Pointer); !ok {
		return false
	}
	n := namedOf(t)
	if n == nil || n.Obj().Pkg() == nil {
		return false
	}
	switch n.Obj().Pkg().Path() {
	case "servitor/pub", "servitor/splicer":
		switch n.Obj().Name() {
		case "Post", "Actor", "Activity", "Collection", "Failure", "Splicer":
			return true
		}
	}
	return false
}

// ifaceUsesNonNil: wherever the interface value v (made from pointer ptr)
// leaves local reasoning — returned, stored, passed on — ptr is provably
// non-nil at that point. Merges (phi) are judged on the incoming edge.
func ifaceUsesNonNil(nn *nonNil, v ssa.Value, ptr ssa.Value, seen map[ssa.Value]bool) bool {
	if seen[v] {
		return true
	}
	seen[v] = true
	for _, r := range refs(v) {
		switch x := r.(type) {
		case *ssa.Phi:
			for k, ed := range x.Edges {
				if ed != v {
					continue
				}
				pred := x.Block().Preds[k]
				ok := false
				withEdge(pred, x.Block(), func() { ok = nn.Value(ptr, pred, 0) })
				if !ok {
					// the merged value may still be guarded at each of its own uses
					if !ifaceUsesNonNil(nn, x, ptr, seen) {
						return false
					}
				}
			}
		case *ssa.BinOp, *ssa.TypeAssert, *ssa.DebugRef:
			// comparisons and assertions are safe on a typed nil
		case *ssa.ChangeInterface:
			if !ifaceUsesNonNil(nn, x, ptr, seen) {
				return false
			}
		case *ssa.Return:
			// handed out together with the error of the call that produced the
			// pointer: the (value, error) pair stays intact, and the function that
			// returns it is itself a producer whose callers are judged in turn
			if nn.Value(ptr, r.Block(), 0) {
				continue
			}
			paired := false
			if ex, ok := ptr.(*ssa.Extract); ok {
				if call, ok := ex.Tuple.(*ssa.Call); ok && len(x.Results) >= 2 {
					if eex, ok := x.Results[len(x.Results)-1].(*ssa.Extract); ok && eex.Tuple == ssa.Value(call) && isErrorType(eex.Type()) {
						sound := len(nn.P.Callees(call)) > 0
						for _, callee := range nn.P.Callees(call) {
							if !nn.P.IsServitorFunc(callee) || !nn.producerSound(callee, ex.Index) {
								sound = false
							}
						}
						paired = sound
					}
				}
			}
			if !paired {
				return false
			}
		default:
			if !nn.Value(ptr, r.Block(), 0) {
				return false
			}
		}
	}
	return true
}

// c11R5: no in-place write into the shared element buffers.
func c11R5(c *Ctx) {
	P := c.P
	isElements := func(v ssa.Value) (string, bool) {
		u, ok := v.(*ssa.UnOp)
		if !ok {
			return "", false
		}
		fa, ok := u.X.(*ssa.FieldAddr)
		if !ok || fieldOf(fa).Name() != "elements" {
			return "", false
		}
		return path(fa.X), true
	}
	n := 0
	for _, fn := range P.FuncsIn("servitor/splicer") {
		fname := FuncName(fn)
		eachInstr(fn, func(_ *ssa.BasicBlock, _ int, in ssa.Instruction) {
			switch x := in.(type) {
			case *ssa.Store:
				if ia, ok := x.Addr.(*ssa.IndexAddr); ok {
					if _, isEl := isElements(ia.X); isEl {
						n++
						c.bad(fname+"/in-place-store", P.InstrPos(in), fname, "an element of a source's buffer is overwritten in place; the buffer's array is shared with every clone and continuation of the feed, whose items change under them")
					}
				}
			case *ssa.Call:
				b, ok := x.Call.Value.(*ssa.Builtin)
				if !ok || b.Name() != "copy" {
					return
				}
				dst, src := x.Call.Args[0], x.Call.Args[1]
				// peel sub-slicing of the destination
				for {
					sl, ok := dst.(*ssa.Slice)
					if !ok {
						break
					}
					dst = sl.X
				}
				dp, isEl := isElements(dst)
				if !isEl {
					return
				}
				n++
				// clone()'s self-copy: same index of the freshly copied header array and of the receiver
				sp, srcEl := isElements(src)
				self := srcEl && fn.Name() == "clone" && indexSuffix(dp) == indexSuffix(sp) && indexSuffix(dp) != ""
				c.check(self, fname+"/in-place-copy", P.InstrPos(in), fname,
					"clone copies each buffer onto itself (the headers were copied with the structs): no visible change",
					"items are copied into a source's buffer in place; the buffer's array is shared with every clone and continuation of the feed, so earlier positions of the feed change their answer")
			}
		})
	}
	if n == 0 {
		c.ok("servitor/splicer/no-in-place-writes", "splicer/splicer.go", "servitor/splicer", "no indexed store or copy targets a source buffer")
	}
}

func indexSuffix(p string) string {
	i := strings.LastIndex(p, "[&")
	if i < 0 {
		return ""
	}
	return p[i:]
}

// c11R6: replenish considers every source, each by its own state.
func c11R6(c *Ctx) {
	P := c.P
	rp := P.Method("servitor/splicer", "Splicer", "replenish")
	name := FuncName(rp)
	// the fan-out: go statements inside a loop; no return is reachable without passing the loop's header
	var goI *ssa.Go
	eachInstr(rp, func(_ *ssa.BasicBlock, _ int, in ssa.Instruction) {
		if g, ok := in.(*ssa.Go); ok {
			goI = g
		}
	})
	if goI == nil || !inCycle(goI.Block()) {
		c.bad(name+"/fan-out", P.Pos(rp.Pos()), name, "replenish no longer refills the sources in a loop over all of them")
		return
	}
	var header *ssa.BasicBlock
	for b := goI.Block(); b != nil; b = b.Idom() {
		if blockReaches(goI.Block(), b) && b.Dominates(goI.Block()) {
			header = b
		}
	}
	okAll := header != nil
	for _, b := range rp.Blocks {
		if _, isRet := b.Instrs[len(b.Instrs)-1].(*ssa.Return); isRet && header != nil && !header.Dominates(b) {
			okAll = false
		}
	}
	c.check(okAll, name+"/visits-every-source", P.Pos(rp.Pos()), name, "every call reaches the loop over all sources (no early return)", "replenish can return without visiting the sources: a decision taken on aggregated state skips sources that individually need refilling, and older items of other sources are delivered first")
	// the loop ranges over the whole receiver
	amount := rp.Params[1]
	for _, cl := range Closures(rp) {
		cname := FuncName(cl)
		eachInstr(cl, func(b *ssa.BasicBlock, _ int, in ssa.Instruction) {
			call, ok := in.(*ssa.Call)
			if !ok || !call.Call.IsInvoke() || call.Call.Method.Name() != "Harvest" {
				return
			}
			// guards: len(source.elements) < amount, source.page != nil — and nothing else
			facts := factsOf(cl).At(b)
			okLen, okPage, extra := false, false, ""
			for _, f := range facts {
				cmp, isCmp := f.Cmp()
				if !isCmp {
					extra = "a condition that is not a comparison"
					continue
				}
				px, py := path(cmp.X), path(cmp.Y)
				switch {
				case cmp.Op == token.LSS && strings.HasPrefix(px, "builtin:len(") && strings.Contains(px, ".&elements.*") && unwrapLoad(cmp.Y) == ssa.Value(amount):
					okLen = true
				case cmp.Op == token.NEQ && isNilConst(cmp.Y) && strings.HasSuffix(px, ".&page.*"):
					okPage = true
				default:
					extra = "the refill also depends on " + shortSym(px) + " " + cmp.Op.String() + " " + shortSym(py)
				}
			}
			c.check(okLen && okPage && extra == "", cname+"/refill-guard", P.InstrPos(in), cname,
				"a source is refilled exactly when len(its buffer) < amount and it still has a page", "the refill of a source is not decided by that source's own buffer length and page alone: "+extra)
			// quantity = amount - len(buffer), from its own base point
			q := lin(call.Call.Args[0])
			okQ := q.c == 0 && len(q.coef) == 2
			for sym, k := range q.coef {
				if !((k == 1 && strings.Contains(sym, "amount")) || (k == -1 && strings.HasPrefix(sym, "len(") && strings.Contains(sym, ".&elements.*"))) {
					okQ = false
				}
			}
			okBase := strings.HasSuffix(path(call.Call.Args[1]), ".&basepoint.*")
			okRecv := strings.HasSuffix(path(call.Call.Value), ".&page.*")
			c.check(okQ && okBase && okRecv, cname+"/refill-request", P.InstrPos(in), cname,
				"asks the source's own page for amount-len(buffer) items from its own base point", "the refill request is not amount-len(buffer) items from the source's own page and base point: "+q.String())
		})
	}
}

// c11R7: the selection loop of microharvest. The best-so-far is a loop-carried
// value; every trip round the loop (every acyclic path from the loop header
// back to it) is classified:
//
//	kept      the best is unchanged: allowed only if the source has no head
//	          (empty buffer, or a nil head), or the best exists and the head's
//	          timestamp is not After the best's;
//	replaced  the best becomes this source's head: allowed only if there was no
//	          best yet, or the head's timestamp is After the best's (strictly:
//	          ties stay with the source listed first).
//
// The function returns nil only where the best is known to be nil, and the item
// popped is the head of the source whose index was recorded together with the
// best. A shortcut such as treating the zero time as "minus infinity" keeps an
// existing head out without a best to compare with, and is reported.
func c11R7(c *Ctx) {
	P := c.P
	fn := P.Method("servitor/splicer", "Splicer", "microharvest")
	name := FuncName(fn)
	pos := P.Pos(fn.Pos())
	// the best-so-far: the phi that the non-nil return hands out
	var best *ssa.Phi
	for _, b := range fn.Blocks {
		ret, ok := b.Instrs[len(b.Instrs)-1].(*ssa.Return)
		if !ok {
			continue
		}
		if isNilConst(ret.Results[0]) {
			continue
		}
		if ph, ok := unwrapLoad(ret.Results[0]).(*ssa.Phi); ok && inCycle(ph.Block()) {
			best = ph
		}
	}
	if best == nil {
		c.bad(name+"/selection", pos, name, "cannot identify the loop-carried best-so-far that microharvest returns")
		return
	}
	header := best.Block()
	// returns of nil happen only where the best is nil
	for _, b := range fn.Blocks {
		ret, ok := b.Instrs[len(b.Instrs)-1].(*ssa.Return)
		if !ok || !isNilConst(ret.Results[0]) {
			continue
		}
		c.check(knownNil(best, b), name+"/ends-only-when-empty", P.InstrPos(ret), name, "nil is returned only when no source had a head", "microharvest can return nil (\"all sources exhausted\") although a best head was found")
	}
	paths, complete := enumeratePathsFrom(fn, header, header, 4096)
	if !complete || len(paths) == 0 {
		c.bad(name+"/selection", pos, name, "cannot enumerate the paths of the selection loop")
		return
	}
	// resolve a value at the end of a path: header phis take the edge of the path's last block
	resolve := func(v ssa.Value, blocks []*ssa.BasicBlock) ssa.Value {
		for i := 0; i < 8; i++ {
			ph, ok := v.(*ssa.Phi)
			if !ok {
				return v
			}
			at := -1
			for j := len(blocks) - 1; j >= 1; j-- {
				if blocks[j] == ph.Block() {
					at = j
					break
				}
			}
			if at < 1 {
				return v
			}
			pred := blocks[at-1]
			found := false
			for k, p := range ph.Block().Preds {
				if p == pred {
					v = ph.Edges[k]
					found = true
					break
				}
			}
			if !found {
				return v
			}
			if v == ssa.Value(ph) {
				return v
			}
			// a header phi resolved at position 0 (the start) is the incoming value itself
			if at == 0 {
				return v
			}
			blocks = blocks[:at]
		}
		return v
	}
	isHeadLoad := func(v ssa.Value) (*ssa.UnOp, bool) {
		u, ok := v.(*ssa.UnOp)
		if !ok || u.Op != token.MUL {
			return nil, false
		}
		ia, ok := u.X.(*ssa.IndexAddr)
		if !ok {
			return nil, false
		}
		if k, isC := constInt(ia.Index); !isC || k != 0 {
			return nil, false
		}
		return u, strings.Contains(path(ia.X), ".&elements")
	}
	// timeOf(obj): obj.Timestamp(), or a header phi that is updated in step with the best
	timePhis := map[*ssa.Phi]bool{}
	isTimeOf := func(t ssa.Value, obj ssa.Value) bool {
		t = unwrapLoad(t)
		if call, ok := t.(*ssa.Call); ok && call.Call.IsInvoke() && call.Call.Method.Name() == "Timestamp" && unwrapLoad(call.Call.Value) == unwrapLoad(obj) {
			return true
		}
		if ph, ok := t.(*ssa.Phi); ok && ph.Block() == header && unwrapLoad(obj) == ssa.Value(best) {
			timePhis[ph] = true
			return true
		}
		return false
	}
	afterFact := func(facts []Fact, head ssa.Value, truth bool) bool {
		for _, f := range facts {
			call, ok := f.Cond.(*ssa.Call)
			if !ok || f.Truth != truth {
				continue
			}
			if sc := calleeObj(&call.Call); sc == nil || sc.Name() != "After" || sc.Pkg() == nil || sc.Pkg().Path() != "time" || len(call.Call.Args) != 2 {
				continue
			}
			if isTimeOf(call.Call.Args[0], head) && isTimeOf(call.Call.Args[1], best) {
				return true
			}
		}
		return false
	}
	nKept, nReplaced := 0, 0
	type trip struct {
		blocks   []*ssa.BasicBlock
		replaced bool
		head     ssa.Value
	}
	var trips []trip
	for _, pf0 := range paths {
		pf, feasible := resolvePathFacts(pf0)
		if !feasible {
			continue
		}
		out := unwrapLoad(resolve(best, pf.blocks))
		// the head this trip looks at, if any
		var head ssa.Value
		for _, b := range pf.blocks[:len(pf.blocks)-1] {
			for _, in := range b.Instrs {
				if v, ok := in.(ssa.Value); ok {
					if u, isHead := isHeadLoad(v); isHead {
						head = u
					}
				}
			}
		}
		lines := ""
		for _, b := range pf.blocks {
			if len(b.Instrs) > 0 {
				lines += fmt.Sprintf("%d,", P.Fset.Position(b.Instrs[0].Pos()).Line)
			}
		}
		switch {
		case out == ssa.Value(best):
			nKept++
			trips = append(trips, trip{pf.blocks, false, head})
			empty := false
			for _, f := range pf.facts {
				cmp, ok := f.Cmp()
				if !ok {
					continue
				}
				// len(elements) == 0
				if k, isC := constInt(cmp.Y); isC && k == 1 && cmp.Op == token.LSS && strings.HasPrefix(path(cmp.X), "builtin:len(") && strings.Contains(path(cmp.X), ".&elements") {
					empty = true // len < 1
				}
				if k, isC := constInt(cmp.Y); isC && k == 0 && strings.HasPrefix(path(cmp.X), "builtin:len(") && strings.Contains(path(cmp.X), ".&elements") {
					if cmp.Op == token.EQL || cmp.Op == token.LEQ {
						empty = true // len == 0, len <= 0
					}
				}
				// head == nil
				if head != nil && isNilConst(cmp.Y) && (unwrapLoad(cmp.X) == head || path(cmp.X) == path(head)) && cmp.Op == token.EQL {
					empty = true
				}
			}
			bestKnown := false
			for _, f := range pf.facts {
				cmp, ok := f.Cmp()
				if ok && isNilConst(cmp.Y) && unwrapLoad(cmp.X) == ssa.Value(best) && cmp.Op == token.NEQ {
					bestKnown = true
				}
			}
			if os.Getenv("SERVCHECK_DEBUG_C11") != "" {
				for _, f := range pf.facts {
					if cmp, ok := f.Cmp(); ok {
						fmt.Fprintf(os.Stderr, "path %s fact %v: %s %s %s\n", lines, f.Truth, path(cmp.X), cmp.Op, path(cmp.Y))
					}
				}
			}
			notNewer := head != nil && bestKnown && afterFact(pf.facts, head, false)
			okKeep := empty || notNewer
			c.check(okKeep, name+"/kept", pos, name, fmt.Sprintf("the best is kept because the source is empty (%v) or the best exists and the head is not newer (%v) — blocks at lines %s", empty, notNewer, lines),
				"a source with a head is passed over although there is no best yet, or without its head's timestamp being compared with the best's: heads with a missing (zero) timestamp are never delivered and the feed ends early — blocks at lines "+lines)
		case head != nil && out == head:
			nReplaced++
			trips = append(trips, trip{pf.blocks, true, head})
			first := false
			for _, f := range pf.facts {
				cmp, ok := f.Cmp()
				if ok && isNilConst(cmp.Y) && unwrapLoad(cmp.X) == ssa.Value(best) && cmp.Op == token.EQL {
					first = true
				}
			}
			okRep := first || afterFact(pf.facts, head, true)
			c.check(okRep, name+"/replaced", pos, name, "the head becomes the best because there was none or it is strictly newer",
				"a head replaces the best without being strictly newer: ties no longer go to the source listed first, or older items overtake newer ones — blocks at lines "+lines)
		default:
			c.bad(name+"/selection", pos, name, "the best-so-far becomes something other than the current source's head — blocks at lines "+lines)
		}
	}
	c.check(nKept > 0 && nReplaced > 0, name+"/selection-shape", pos, name, fmt.Sprintf("%d keeping and %d replacing trips classified", nKept, nReplaced), "the selection loop has no keeping or no replacing trip")
	// loop-carried companions (cached timestamp) move in step with the best
	for ph := range timePhis {
		okStep := true
		for _, t := range trips {
			out := unwrapLoad(resolve(ph, t.blocks))
			if !t.replaced && out != ssa.Value(ph) {
				okStep = false
			}
			if t.replaced {
				call, ok := out.(*ssa.Call)
				if !ok || !call.Call.IsInvoke() || call.Call.Method.Name() != "Timestamp" || unwrapLoad(call.Call.Value) != t.head {
					okStep = false
				}
			}
		}
		c.check(okStep, name+"/cached-time", pos, name, "the remembered timestamp is the best's timestamp on every trip", "the remembered timestamp is not updated in step with the best-so-far")
	}
	// the popped source is the one recorded with the best
	eachInstr(fn, func(b *ssa.BasicBlock, _ int, in ssa.Instruction) {
		st, ok := in.(*ssa.Store)
		if !ok || inCycle(b) {
			return
		}
		fa, ok := st.Addr.(*ssa.FieldAddr)
		if !ok || fieldOf(fa).Name() != "elements" {
			return
		}
		ia, ok := fa.X.(*ssa.IndexAddr)
		if !ok {
			return
		}
		idxPhi, ok := unwrapLoad(ia.Index).(*ssa.Phi)
		okIdx := ok && idxPhi.Block() == header
		if okIdx {
			for _, t := range trips {
				out := unwrapLoad(resolve(idxPhi, t.blocks))
				if !t.replaced && out != ssa.Value(idxPhi) {
					okIdx = false
				}
				if t.replaced {
					// the index of the source whose head was taken
					hu := t.head.(*ssa.UnOp)
					hia := hu.X.(*ssa.IndexAddr)
					src := ""
					if ld, ok := hia.X.(*ssa.UnOp); ok {
						if sfa, ok := ld.X.(*ssa.FieldAddr); ok {
							base := sfa.X
							if al, ok := base.(*ssa.Alloc); ok {
								// the range value: a copy of s[i]
								for _, r := range refs(al) {
									if st, ok := r.(*ssa.Store); ok && st.Addr == ssa.Value(al) {
										if cp, ok := st.Val.(*ssa.UnOp); ok && cp.Op == token.MUL {
											base = cp.X
										}
									}
								}
							}
							if sia, ok := base.(*ssa.IndexAddr); ok {
								src = path(sia.Index)
							}
						}
					}
					if src == "" || path(out) != src {
						okIdx = false
					}
				}
			}
		}
		c.check(okIdx, name+"/pop-index", P.InstrPos(in), name, "the item is popped from the source whose head was chosen", "the source that is popped is not the one whose head was chosen: an item is delivered twice and another is lost")
	})
}

// c11R8: "ties going to the source listed first" presupposes that the k-th
// source of the Splicer is the k-th input. In NewSplicer the page of a source
// must be stored at s[k].page where k is the index of the loop over the inputs
// and the page derives from FetchUserInput(inputs[k]) of that same iteration;
// the Splicer has one slot per input. Collecting the pages in the order in
// which the fetches finish (a channel, an append from the goroutines) makes the
// order of the sources depend on the network.
func c11R8(c *Ctx) {
	P := c.P
	fn := P.Func("servitor/splicer", "NewSplicer")
	name := FuncName(fn)
	fui := P.Func("servitor/pub", "FetchUserInput")
	inputs := fn.Params[0]
	nStores := 0
	for _, f := range append([]*ssa.Function{fn}, Closures(fn)...) {
		fname := FuncName(f)
		// the input fetched in this function: FetchUserInput(inputs[k])
		var fetchIdx ssa.Value
		eachInstr(f, func(_ *ssa.BasicBlock, _ int, in ssa.Instruction) {
			call, ok := in.(*ssa.Call)
			if !ok || call.Call.StaticCallee() != fui {
				return
			}
			if ld, ok := unwrapLoad(call.Call.Args[0]).(*ssa.UnOp); ok && ld.Op == token.MUL {
				if ia, ok := ld.X.(*ssa.IndexAddr); ok && unwrapLoad(ia.X) == ssa.Value(inputs) {
					fetchIdx = unwrapLoad(ia.Index)
				}
			}
		})
		eachInstr(f, func(_ *ssa.BasicBlock, _ int, in ssa.Instruction) {
			st, ok := in.(*ssa.Store)
			if !ok {
				return
			}
			var ia *ssa.IndexAddr
			if fa, ok := st.Addr.(*ssa.FieldAddr); ok && fieldOf(fa).Name() == "page" {
				ia, _ = fa.X.(*ssa.IndexAddr)
			} else if whole, ok := st.Addr.(*ssa.IndexAddr); ok {
				// s[k] = source{…}: the whole source is stored into its slot
				if _, isMk := unwrapLoad(whole.X).(*ssa.MakeSlice); isMk {
					if _, isStruct := st.Val.Type().Underlying().(*types.Struct); isStruct {
						ia = whole
					}
				}
			}
			if ia == nil {
				return
			}
			nStores++
			slot := unwrapLoad(ia.Index)
			okSlot := fetchIdx != nil && slot == fetchIdx && inductionValue(slot)
			// the slice indexed is the Splicer made with one slot per input
			okLen := false
			if mk, ok := unwrapLoad(ia.X).(*ssa.MakeSlice); ok {
				if lc, ok := unwrapLoad(mk.Len).(*ssa.Call); ok {
					if b, ok := lc.Call.Value.(*ssa.Builtin); ok && b.Name() == "len" && unwrapLoad(lc.Call.Args[0]) == ssa.Value(inputs) {
						okLen = true
					}
				}
			}
			c.check(okSlot && okLen, fname+"/source-slot", P.InstrPos(in), fname, "s[k].page is the page of inputs[k], in a Splicer of len(inputs) sources",
				"the page of a source is not stored at the index of the input it was fetched for (or the Splicer does not have one slot per input): the order of the sources, and with it every tie between equal timestamps, depends on which fetch finishes first")
		})
	}
	c.check(nStores >= 1, name+"/source-slots", P.Pos(fn.Pos()), name, fmt.Sprintf("%d stores of a source's page", nStores),
		"NewSplicer no longer stores the pages of its sources by input index: the order of the sources is not that of the inputs")
}

// c11R11: Splicer.Harvest hands back a nil continuation — "all sources are
// exhausted" — only on a path that has just seen microharvest return nil, i.e.
// after replenishing, no source had an item left in its buffer. Any other
// reason (every page pointer nil while buffers still hold items, a count, a
// flag) ends the feed before its sources are exhausted (seed C11-1r8).
func c11R11(c *Ctx) {
	P := c.P
	h := P.Method("servitor/splicer", "Splicer", "Harvest")
	mh := P.Method("servitor/splicer", "Splicer", "microharvest")
	hname := FuncName(h)
	n := 0
	for _, b := range h.Blocks {
		ret, ok := b.Instrs[len(b.Instrs)-1].(*ssa.Return)
		if !ok || len(ret.Results) < 2 || !isNilConst(ret.Results[1]) {
			continue
		}
		n++
		okEnd := false
		for _, f := range factsOf(h).At(b) {
			cmp, ok := f.Cmp()
			if !ok || cmp.Op != token.EQL || !isNilConst(cmp.Y) {
				continue
			}
			if call, ok := unwrapLoad(cmp.X).(*ssa.Call); ok && call.Call.StaticCallee() == mh {
				okEnd = true
			}
		}
		c.check(okEnd, hname+"/ends-on-empty-selection", P.InstrPos(ret), hname, "nil continuation only where microharvest has just returned nil", "Harvest reports the feed as finished (nil continuation) on a path where no selection has come back empty: items that are still buffered, or still to be fetched, are never delivered")
	}
	if n == 0 {
		c.note(hname+"/ends-on-empty-selection", P.Pos(h.Pos()), hname, "Harvest never returns a nil continuation")
	}
}

// c11R12: the refill rule of replenish (C11.R6) is about a source whose buffer
// is shorter than the amount it is given. What Harvest gives it must be all a
// single source may have to deliver for this request — startingPoint items to
// skip plus quantity items to return: with less, a source that won the last
// page and is empty now is not refilled and counts as exhausted, and older
// items of the others come out first (seed C11-1r12 subtracted what is
// buffered elsewhere).
func c11R12(c *Ctx) {
	P := c.P
	fn := P.Method("servitor/splicer", "Splicer", "Harvest")
	fname := FuncName(fn)
	n := 0
	eachInstr(fn, func(_ *ssa.BasicBlock, _ int, in ssa.Instruction) {
		call, ok := in.(*ssa.Call)
		if !ok {
			return
		}
		sc := call.Call.StaticCallee()
		if sc == nil || sc.Name() != "replenish" || len(call.Call.Args) < 2 {
			return
		}
		n++
		want := lin(fn.Params[1]).add(lin(fn.Params[2]), 1)
		got := lin(call.Call.Args[len(call.Call.Args)-1])
		d := got.add(want, -1)
		c.check(d.isConst() && d.c == 0, fname+"/replenish-amount", P.InstrPos(in), fname, "replenish(quantity + startingPoint)",
			"the sources are replenished to "+got.String()+" items, not to quantity + startingPoint: a source that should deliver the whole page is not refilled far enough and newer items of it come out after older ones of the others")
	})
	if n == 0 {
		c.bad(fname+"/replenish-amount", P.Pos(fn.Pos()), fname, "Harvest no longer replenishes the sources before it selects")
	}
}
