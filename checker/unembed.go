package main

import (
	"go/ast"
	"go/token"
	"go/types"
	"sort"
	"strings"

	"golang.org/x/tools/go/packages"
)

// unembedRound: a struct type E that is new to the checker and only exists as
// the embedded field of one struct type T of the same package (`type Feed
// struct { …; bounds; … }` with `type bounds struct { upperBound, lowerBound
// int }`) is dissolved into T: E's fields become fields of T, E's methods become
// methods of T, `T{E: E{a: x}}` becomes `T{a: x}` and `t.E.a` becomes `t.a`.
// Promoted selections (`t.a`, `t.m()`) keep their spelling and their meaning.
// Conditions: E is embedded by value, in exactly one struct type, which has no
// other embedded field; E itself embeds nothing; the names of E's fields and
// methods are not declared by T; E is used nowhere else (no variable, result,
// parameter, conversion or literal of type E outside T's literals, no use of
// the embedded field as a value), and inside E's methods the receiver is only
// the base of selections. Under these conditions the method sets of T and *T,
// the layout of every literal and the result of every selection are unchanged.
func unembedRound(pkgs []*packages.Package, overlay map[string][]byte) (map[string][]byte, []string) {
	var log []string
	edits := map[string][]srcEdit{}
	for _, pkg := range pkgs {
		if !isServitorPath(pkg.PkgPath) || len(pkg.Errors) > 0 {
			continue
		}
		info, fset := pkg.TypesInfo, pkg.Fset
		off := func(p token.Pos) int { return fset.Position(p).Offset }
		fileOf := func(p token.Pos) string { return fset.File(p).Name() }
		type sdecl struct {
			name string
			st   *ast.StructType
			file *ast.File
		}
		structs := map[*types.TypeName]*sdecl{}
		for _, f := range pkg.Syntax {
			if strings.HasSuffix(fileOf(f.Pos()), "_test.go") {
				continue
			}
			for _, d := range f.Decls {
				gd, ok := d.(*ast.GenDecl)
				if !ok || gd.Tok != token.TYPE {
					continue
				}
				for _, sp := range gd.Specs {
					ts := sp.(*ast.TypeSpec)
					if st, ok := ts.Type.(*ast.StructType); ok && ts.TypeParams == nil && !ts.Assign.IsValid() {
						if tn, ok := info.Defs[ts.Name].(*types.TypeName); ok {
							structs[tn] = &sdecl{ts.Name.Name, st, f}
						}
					}
				}
			}
		}
		// parents of every node, for classifying uses
		parent := map[ast.Node]ast.Node{}
		for _, f := range pkg.Syntax {
			var stack []ast.Node
			ast.Inspect(f, func(n ast.Node) bool {
				if n == nil {
					stack = stack[:len(stack)-1]
					return true
				}
				if len(stack) > 0 {
					parent[n] = stack[len(stack)-1]
				}
				stack = append(stack, n)
				return true
			})
		}
		var names []*types.TypeName
		for tn := range structs {
			names = append(names, tn)
		}
		sort.Slice(names, func(i, j int) bool { return names[i].Name() < names[j].Name() })
	nextE:
		for _, eTN := range names {
			e := structs[eTN]
			if anchorTypes[pkg.PkgPath+"."+e.name] || e.st.Fields == nil || len(e.st.Fields.List) == 0 {
				continue
			}
			for _, fl := range e.st.Fields.List {
				if len(fl.Names) == 0 {
					continue nextE
				}
			}
			// used in another package?
			for _, other := range pkgs {
				if other == pkg || other.TypesInfo == nil {
					continue
				}
				for _, o := range other.TypesInfo.Uses {
					if o == types.Object(eTN) {
						continue nextE
					}
				}
			}
			// the one place where E is embedded
			var host *sdecl
			var hostTN *types.TypeName
			var embedded *ast.Field
			var fieldVar *types.Var
			for tn, s := range structs {
				for _, fl := range s.st.Fields.List {
					id, ok := fl.Type.(*ast.Ident)
					if !ok || info.Uses[id] != types.Object(eTN) {
						continue
					}
					if host != nil || len(fl.Names) > 1 {
						continue nextE
					}
					host, hostTN, embedded = s, tn, fl
					if len(fl.Names) == 1 {
						fieldVar, _ = info.Defs[fl.Names[0]].(*types.Var) // a named field of type E: `cache rendering`
					} else {
						fieldVar, _ = info.Defs[id].(*types.Var)
					}
				}
			}
			if host == nil || fieldVar == nil || hostTN == eTN || embedded.Tag != nil {
				continue
			}
			for _, fl := range host.st.Fields.List {
				if len(fl.Names) == 0 && fl != embedded {
					continue nextE
				}
			}
			if !anchorTypes[pkg.PkgPath+"."+host.name] {
				continue // only structs the rules know are worth restoring
			}
			if !portableFieldTypes(pkg, e.st, e.file, host.file) {
				continue
			}
			// name clashes
			taken := map[string]bool{}
			for _, fl := range host.st.Fields.List {
				for _, nm := range fl.Names {
					if fl != embedded {
						taken[nm.Name] = true
					}
				}
			}
			hostNamed, _ := hostTN.Type().(*types.Named)
			eNamed, _ := eTN.Type().(*types.Named)
			if hostNamed == nil || eNamed == nil {
				continue
			}
			for i := 0; i < hostNamed.NumMethods(); i++ {
				taken[hostNamed.Method(i).Name()] = true
			}
			var fieldNames, fieldTypes []string
			{
				esrc := readSource(fileOf(e.file.Pos()), overlay)
				for _, fl := range e.st.Fields.List {
					for _, nm := range fl.Names {
						if taken[nm.Name] {
							continue nextE
						}
						fieldNames = append(fieldNames, nm.Name)
						fieldTypes = append(fieldTypes, string(esrc[off(fl.Type.Pos()):off(fl.Type.End())]))
					}
				}
			}
			for i := 0; i < eNamed.NumMethods(); i++ {
				if taken[eNamed.Method(i).Name()] {
					continue nextE
				}
			}
			var mine []srcEdit
			var mineFiles []string
			add := func(pos, end token.Pos, text string) {
				mine = append(mine, srcEdit{off(pos), off(end), text})
				mineFiles = append(mineFiles, fileOf(pos))
			}
			why := ""
			// every use of the type name and of the embedded field
			for _, f := range pkg.Syntax {
				if strings.HasSuffix(fileOf(f.Pos()), "_test.go") {
					continue
				}
				src := readSource(fileOf(f.Pos()), overlay)
				text := func(n ast.Node) string { return string(src[off(n.Pos()):off(n.End())]) }
				ast.Inspect(f, func(n ast.Node) bool {
					id, ok := n.(*ast.Ident)
					if !ok || why != "" {
						return why == ""
					}
					switch {
					case info.Uses[id] == types.Object(eTN):
						p := parent[id]
						if fl, ok := p.(*ast.Field); ok && fl == embedded {
							return true // replaced below
						}
						// receiver `(b E)` or `(b *E)`
						q := p
						if star, ok := p.(*ast.StarExpr); ok {
							q = parent[star]
						}
						if fl, ok := q.(*ast.Field); ok {
							if lst, ok := parent[fl].(*ast.FieldList); ok {
								if fd, ok := parent[lst].(*ast.FuncDecl); ok && fd.Recv == lst {
									add(id.Pos(), id.End(), host.name)
									return true
								}
							}
						}
						// `E: E{…}` in a literal of T
						if lit, ok := p.(*ast.CompositeLit); ok && lit.Type == id {
							if kv, ok := parent[lit].(*ast.KeyValueExpr); ok && kv.Value == lit {
								if k, ok := kv.Key.(*ast.Ident); ok && info.Uses[k] == types.Object(fieldVar) {
									if len(lit.Elts) == 0 {
										why = "empty literal of " + e.name
										return false
									}
									var parts []string
									for i, el := range lit.Elts {
										if ikv, ok := el.(*ast.KeyValueExpr); ok {
											parts = append(parts, text(ikv))
										} else if i < len(fieldNames) {
											parts = append(parts, fieldNames[i]+": "+text(el))
										}
									}
									add(kv.Pos(), kv.End(), strings.Join(parts, ", "))
									return false
								}
							}
						}
						// `x.field = E{…}`: rewritten with the store below
						if lit, ok := p.(*ast.CompositeLit); ok && lit.Type == id {
							if as, ok := parent[lit].(*ast.AssignStmt); ok && wholeStore(as, lit) != nil {
								return true
							}
						}
						why = "type " + e.name + " used at " + fset.Position(id.Pos()).String()
						return false
					case info.Defs[id] == types.Object(fieldVar):
						return true // the declaration, replaced below
					case info.Uses[id] == types.Object(fieldVar):
						p := parent[id]
						if kv, ok := p.(*ast.KeyValueExpr); ok && kv.Key == id {
							if lit, ok := kv.Value.(*ast.CompositeLit); ok {
								if tid, ok := lit.Type.(*ast.Ident); ok && info.Uses[tid] == types.Object(eTN) {
									return true // handled with the literal
								}
							}
						}
						// `x.E.sel`
						if sel, ok := p.(*ast.SelectorExpr); ok && sel.Sel == id {
							if outer, ok := parent[sel].(*ast.SelectorExpr); ok && outer.X == sel {
								add(sel.X.End(), id.End(), "")
								return true
							}
						}
						// `x.field = E{a: v, …}` becomes `x.a, … = v, …` (all operands evaluated first, as before)
						if sel, ok := p.(*ast.SelectorExpr); ok && sel.Sel == id {
							if as, ok := parent[sel].(*ast.AssignStmt); ok && len(as.Lhs) == 1 && as.Lhs[0] == ast.Expr(sel) {
								if lit, ok := as.Rhs[0].(*ast.CompositeLit); ok && wholeStore(as, lit) == sel && isSimpleOperand(sel.X) {
									if tid, ok := lit.Type.(*ast.Ident); ok && info.Uses[tid] == types.Object(eTN) {
										vals := map[string]string{}
										okLit := true
										for i, el := range lit.Elts {
											if ikv, ok := el.(*ast.KeyValueExpr); ok {
												if k, ok := ikv.Key.(*ast.Ident); ok {
													vals[k.Name] = text(ikv.Value)
												} else {
													okLit = false
												}
											} else if i < len(fieldNames) {
												vals[fieldNames[i]] = text(el)
											}
										}
										if okLit {
											var ls, rs []string
											for i, fnm := range fieldNames {
												ls = append(ls, text(sel.X)+"."+fnm)
												if v, has := vals[fnm]; has {
													rs = append(rs, v)
												} else {
													rs = append(rs, "*new("+fieldTypes[i]+")")
												}
											}
											add(as.Pos(), as.End(), strings.Join(ls, ", ")+" = "+strings.Join(rs, ", "))
											return false
										}
									}
								}
							}
						}
						why = "field of type " + e.name + " used as a value at " + fset.Position(id.Pos()).String()
						return false
					}
					return true
				})
				if why != "" {
					break
				}
				// receivers of E's methods: only the base of selections
				for _, d := range f.Decls {
					fd, ok := d.(*ast.FuncDecl)
					if !ok || fd.Recv == nil || len(fd.Recv.List) != 1 || fd.Body == nil {
						continue
					}
					rt := fd.Recv.List[0].Type
					if star, ok := rt.(*ast.StarExpr); ok {
						rt = star.X
					}
					rid, ok := rt.(*ast.Ident)
					if !ok || info.Uses[rid] != types.Object(eTN) || len(fd.Recv.List[0].Names) != 1 {
						continue
					}
					recv := info.Defs[fd.Recv.List[0].Names[0]]
					if recv == nil {
						continue
					}
					ast.Inspect(fd.Body, func(n ast.Node) bool {
						id, ok := n.(*ast.Ident)
						if !ok || info.Uses[id] != recv {
							return true
						}
						if sel, ok := parent[id].(*ast.SelectorExpr); !ok || sel.X != id {
							why = "receiver of " + e.name + "." + fd.Name.Name + " used as a value"
						}
						return true
					})
				}
			}
			if why != "" {
				log = append(log, "embedded struct "+pkg.PkgPath+"."+e.name+" kept ("+why+")")
				continue
			}
			// the embedded field becomes E's field list
			esrc := readSource(fileOf(e.file.Pos()), overlay)
			var lines []string
			for _, fl := range e.st.Fields.List {
				lines = append(lines, string(esrc[off(fl.Pos()):off(fl.End())]))
			}
			add(embedded.Pos(), embedded.End(), strings.Join(lines, "\n\t"))
			for i, ed := range mine {
				edits[mineFiles[i]] = append(edits[mineFiles[i]], ed)
			}
			log = append(log, "embedded struct "+pkg.PkgPath+"."+e.name+" dissolved into "+host.name)
			break // one per package and round: positions of later candidates may overlap
		}
	}
	if len(edits) == 0 {
		return nil, log
	}
	out, ok := applyEdits(edits, overlay)
	if !ok {
		return nil, append(log, "unembedding skipped (overlapping edits)")
	}
	return out, log
}

// wholeStore: as is `x.f = lit` (one plain assignment of a composite literal
// to a field selection); the selection, or nil.
func wholeStore(as *ast.AssignStmt, lit *ast.CompositeLit) *ast.SelectorExpr {
	if as.Tok != token.ASSIGN || len(as.Lhs) != 1 || len(as.Rhs) != 1 || as.Rhs[0] != ast.Expr(lit) {
		return nil
	}
	sel, _ := as.Lhs[0].(*ast.SelectorExpr)
	return sel
}
