package main

import (
	"fmt"
	"go/token"
	"go/types"
	"strings"

	"golang.org/x/tools/go/ssa"
)

func init() {
	registry["C16"] = func() *Property {
		return &Property{
			ID:          "C16",
			Explanation: "The frame-height clause, decided by abstract interpretation of the layout code in a line-count domain (engine E8, lines.go): every string value is abstracted to the number of its lines as a linear form over symbols, slices of lines to their length, evaluated along each acyclic path with the branch facts of the path as hypotheses; transfer functions are summaries of strings.Count/Split/Join/Repeat/LastIndex/Contains, concatenation, slicing, unsigned subtraction (no wrap-around must be provable) and division/remainder by a constant (k·q + r = x). Decided: (R0) ansi.Height(x) is the number of lines of x; (R1) on every path of ansi.CenterVertically the result has exactly `height` lines, every slice expression is within bounds and every repeat count non-negative, and the rows above the centred text are floor((height − lines(centred))/2) — the spare rows are split evenly, the odd one below; (R2) ansi.ReplaceLastLine returns, on every non-panicking path, a text with as many lines as the original (which has at least two), made of the original up to its last line feed, a line feed and the replacement; (R3) every return of ui.(*State).view is such a result for uint(s.height), with the status line put in by ReplaceLastLine only; (R4) everything handed to the terminal callback is the result of view() on the same state, with no call in between; (R5) State.height is stored only from a parameter (the reported size), and on every path of SetWidthHeight the reported height is stored before a frame is emitted, or equals the stored one, or is below 2. Assumed, from the property's own precondition: the terminal height is at least 2. Not decided: which item is the highlighted one and what the lines contain (values), behaviour for heights below 2, what the terminal does with the frame.",
			Assumptions: []string{"terminal height >= 2 (the property's precondition)", "semantics of strings.Count, Split, Join, Repeat, LastIndex, Contains as summarised in lines.go", "printRaw writes the frame unchanged apart from CR LF translation"},
			Rules: []Rule{
				{ID: "C16.R0", Title: "ansi.Height counts lines", Floor: 1, Run: c16R0},
				{ID: "C16.R1", Title: "CenterVertically returns exactly height lines, centred, on every path", Floor: 4, Run: c16R1},
				{ID: "C16.R2", Title: "ReplaceLastLine keeps the number of lines and replaces the last one", Floor: 1, Run: c16R2},
				{ID: "C16.R3", Title: "every frame built by view() has s.height lines", Floor: 2, Run: c16R3},
				{ID: "C16.R4", Title: "the terminal callback only receives view() results", Floor: 10, Run: c16R4},
				{ID: "C16.R5", Title: "the height the frames are built for is the height the terminal reported last", Floor: 2, Run: c16R5},
			},
		}
	}
}

// eachReturnPath enumerates the acyclic paths to every return of fn.
func eachReturnPath(fn *ssa.Function, visit func(ret *ssa.Return, pf pathFacts, k int)) (complete bool) {
	complete = true
	for _, b := range fn.Blocks {
		ret, ok := b.Instrs[len(b.Instrs)-1].(*ssa.Return)
		if !ok {
			continue
		}
		paths, ok2 := enumeratePaths(fn, b, 4096)
		if !ok2 {
			complete = false
		}
		if b == fn.Blocks[0] {
			paths = []pathFacts{{blocks: []*ssa.BasicBlock{b}}} // straight-line function
		}
		for k, pf := range paths {
			visit(ret, pf, k)
		}
	}
	return complete
}

func pathLines(P *Program, pf pathFacts) string {
	var ls []string
	last := -1
	for _, b := range pf.blocks {
		for _, in := range b.Instrs {
			if in.Pos().IsValid() {
				if l := P.Fset.Position(in.Pos()).Line; l != last {
					ls = append(ls, fmt.Sprint(l))
					last = l
				}
				break
			}
		}
	}
	return strings.Join(ls, ",")
}

// heightSummary: ansi.Height(x) = L(x), as established by R0.
func heightSummary(P *Program, c *lcPath) func(call *ssa.Call) (linForm, bool) {
	hf := P.Func("servitor/ansi", "Height")
	return func(call *ssa.Call) (linForm, bool) {
		if call.Call.StaticCallee() == hf && len(call.Call.Args) == 1 {
			return c.str(call.Call.Args[0]), true
		}
		return linForm{}, false
	}
}

func c16R0(c *Ctx) {
	P := c.P
	fn := P.Func("servitor/ansi", "Height")
	name := FuncName(fn)
	n := 0
	complete := eachReturnPath(fn, func(ret *ssa.Return, pf pathFacts, k int) {
		lc := newLcPath(P, fn, pf)
		lc.useFacts()
		got := lc.num(ret.Results[0])
		want := lc.str(fn.Params[0])
		n++
		ok := lc.proveEq(got.add(want, -1)) && len(lc.problems) == 0
		c.check(ok, name+"/counts-lines", P.InstrPos(ret), name, "returns the number of lines of its argument (line feeds + 1)",
			"Height does not return the number of lines of its argument: "+got.String()+" instead of "+want.String()+" "+strings.Join(lc.problems, "; "))
	})
	c.check(complete && n > 0, name+"/paths", P.Pos(fn.Pos()), name, fmt.Sprintf("%d paths", n), "cannot enumerate the paths of Height")
}

func c16R1(c *Ctx) {
	P := c.P
	fn := P.Func("servitor/ansi", "CenterVertically")
	name := FuncName(fn)
	if len(fn.Params) != 4 {
		c.bad(name+"/signature", P.Pos(fn.Pos()), name, "CenterVertically no longer takes (prefix, centered, suffix, height)")
		return
	}
	centered, height := fn.Params[1], fn.Params[3]
	n := 0
	complete := eachReturnPath(fn, func(ret *ssa.Return, pf pathFacts, k int) {
		lc := newLcPath(P, fn, pf)
		lc.summary = heightSummary(P, lc)
		h := lc.num(height)
		lc.assume(lcGE(h, 2)) // the property's precondition
		lc.useFacts()
		total := lc.str(ret.Results[0])
		if lc.infeasible() {
			return
		}
		n++
		lines := pathLines(P, pf)
		okH := lc.proveEq(total.add(h, -1)) && len(lc.problems) == 0
		why := fmt.Sprintf("on the path through lines %s the frame has %s lines, which is not provably height", lines, total.String())
		if len(lc.problems) > 0 {
			why += ": " + strings.Join(lc.problems, "; ")
		}
		c.check(okH, name+"/height", P.InstrPos(ret), name, "exactly height lines on the path through lines "+lines, why)
		// centring: rows above the centred text = floor(spare / 2)
		leaves := concatLeaves(lc, ret.Results[0])
		at := -1
		for i, l := range leaves {
			if lc.at(l) == ssa.Value(centered) {
				at = i
			}
		}
		if at < 0 {
			// the centred text fills the frame (cut to height): nothing to centre
			ch := lc.str(centered)
			c.check(lc.nonNeg(ch.add(h, -1)), name+"/centred", P.InstrPos(ret), name, "the centred text alone fills the frame on this path",
				"the result does not contain the centred text although it is shorter than the frame (path through lines "+lines+")")
			return
		}
		above := newLin()
		okShape := true
		if at > 0 {
			if s, isC := constString(lc.at(leaves[at-1])); !isC || s != "\n" {
				okShape = false
			}
			above.c = 1
			for _, l := range leaves[:at] {
				above = above.add(lc.str(l), 1)
				above.c--
			}
			above.c-- // the text before ends with the separating line feed
		}
		spare := h.add(lc.str(centered), -1)
		g1 := spare.add(above, -2) // spare - 2·above >= 0
		g2 := newLin().add(g1, -1) // 1 - (spare - 2·above) >= 0
		g2.c++
		okC := okShape && lc.nonNeg(g1) && lc.nonNeg(g2)
		c.check(okC, name+"/centred", P.InstrPos(ret), name, "rows above the centred text = floor(spare rows / 2) on the path through lines "+lines,
			fmt.Sprintf("the highlighted text is not vertically centred on the path through lines %s: %s rows above it with %s spare rows", lines, above.String(), spare.String()))
	})
	c.check(complete && n > 0, name+"/paths", P.Pos(fn.Pos()), name, fmt.Sprintf("%d feasible paths", n), "cannot enumerate the paths of CenterVertically")
}

// concatLeaves flattens a string concatenation into its operands, in order.
func concatLeaves(lc *lcPath, v ssa.Value) []ssa.Value {
	v = lc.at(v)
	if bo, ok := v.(*ssa.BinOp); ok && bo.Op == token.ADD && isStringType(bo.Type()) {
		return append(concatLeaves(lc, bo.X), concatLeaves(lc, bo.Y)...)
	}
	return []ssa.Value{v}
}

func c16R2(c *Ctx) {
	P := c.P
	fn := P.Func("servitor/ansi", "ReplaceLastLine")
	name := FuncName(fn)
	if len(fn.Params) != 2 {
		c.bad(name+"/signature", P.Pos(fn.Pos()), name, "ReplaceLastLine no longer takes (original, replacement)")
		return
	}
	original, replacement := fn.Params[0], fn.Params[1]
	n := 0
	complete := eachReturnPath(fn, func(ret *ssa.Return, pf pathFacts, k int) {
		lc := newLcPath(P, fn, pf)
		lo := lc.str(original)
		lc.assume(lcGE(lo, 2)) // a frame of at least two rows (height >= 2, R1, R3)
		lc.useFacts()
		total := lc.str(ret.Results[0])
		if lc.infeasible() {
			return
		}
		n++
		lines := pathLines(P, pf)
		ok := lc.proveEq(total.add(lo, -1)) && len(lc.problems) == 0
		why := fmt.Sprintf("on the path through lines %s the result has %s lines instead of those of the original (%s)", lines, total.String(), lo.String())
		if len(lc.problems) > 0 {
			why += ": " + strings.Join(lc.problems, "; ")
		}
		c.check(ok, name+"/keeps-height", P.InstrPos(ret), name, "as many lines as the original on the path through lines "+lines, why)
		// shape: original up to its last line feed, a line feed, the replacement
		leaves := concatLeaves(lc, ret.Results[0])
		okShape := len(leaves) == 3 && lc.at(leaves[2]) == ssa.Value(replacement)
		if okShape {
			s, isC := constString(lc.at(leaves[1]))
			sl, isSl := lc.at(leaves[0]).(*ssa.Slice)
			okShape = isC && s == "\n" && isSl && lc.at(sl.X) == ssa.Value(original) && sl.Low == nil
		}
		c.check(okShape, name+"/replaces-last", P.InstrPos(ret), name, "result = original up to its last line feed + line feed + replacement",
			"the result is not the original's lines but the last followed by the replacement")
	})
	c.check(complete && n > 0, name+"/paths", P.Pos(fn.Pos()), name, fmt.Sprintf("%d feasible paths", n), "cannot enumerate the paths of ReplaceLastLine")
}

func c16R3(c *Ctx) {
	P := c.P
	fn := P.Method("servitor/ui", "State", "view")
	name := FuncName(fn)
	cv := P.Func("servitor/ansi", "CenterVertically")
	rll := P.Func("servitor/ansi", "ReplaceLastLine")
	heightField := P.Field("servitor/ui", "State", "height")
	recv := fn.Params[0]
	isHeight := func(lc *lcPath, v ssa.Value) bool {
		v = lc.at(v)
		if cvt, ok := v.(*ssa.Convert); ok {
			v = lc.at(cvt.X)
		}
		u, ok := v.(*ssa.UnOp)
		if !ok || u.Op != token.MUL {
			return false
		}
		fa, ok := u.X.(*ssa.FieldAddr)
		if !ok || fieldOf(fa) != heightField {
			return false
		}
		// s.height, or s.<group>.height when the field sits in a small struct of its own
		base := fa.X
		if inner, isFA := base.(*ssa.FieldAddr); isFA {
			base = inner.X
		}
		return lc.at(base) == ssa.Value(recv)
	}
	n := 0
	// returns: resolve along every path; the number of distinct (return, shape) pairs is small
	seen := map[string]bool{}
	complete := eachReturnPath(fn, func(ret *ssa.Return, pf pathFacts, k int) {
		lc := newLcPath(P, fn, pf)
		v := lc.at(ret.Results[0])
		shape := ""
		okShape := false
		why := "the frame returned by view() is not a result of CenterVertically for s.height (optionally with the status line put in by ReplaceLastLine)"
		var frame *ssa.Call
		if call, ok := v.(*ssa.Call); ok && call.Call.StaticCallee() == rll {
			shape = "status:"
			if inner, ok := lc.at(call.Call.Args[0]).(*ssa.Call); ok {
				frame = inner
			}
		} else if call, ok := v.(*ssa.Call); ok {
			frame = call
		}
		if frame != nil && frame.Call.StaticCallee() == cv && len(frame.Call.Args) == 4 {
			if isHeight(lc, frame.Call.Args[3]) {
				okShape = true
				shape += "centred@" + P.InstrPos(frame)
			} else {
				why = "the height given to CenterVertically is not s.height of this state"
			}
		}
		key := P.InstrPos(ret) + "/" + shape + fmt.Sprint(okShape)
		if seen[key] {
			return
		}
		seen[key] = true
		n++
		c.check(okShape, name+"/frame", P.InstrPos(ret), name, "CenterVertically(…, uint(s.height))"+map[bool]string{true: " with the last line replaced by the status line", false: ""}[strings.HasPrefix(shape, "status:")], why)
	})
	c.check(complete && n > 0, name+"/paths", P.Pos(fn.Pos()), name, fmt.Sprintf("%d distinct frame shapes", n), "cannot enumerate the paths of view (too many); the frame shape is undecided")
}

func c16R4(c *Ctx) {
	P := c.P
	view := P.Method("servitor/ui", "State", "view")
	outField := P.Field("servitor/ui", "State", "output")
	n := 0
	for _, fn := range P.Funcs {
		fname := FuncName(fn)
		eachInstr(fn, func(_ *ssa.BasicBlock, _ int, in ssa.Instruction) {
			cc := callOf(in)
			if cc == nil || cc.IsInvoke() {
				return
			}
			u, ok := unwrapLoadKeep(cc.Value).(*ssa.UnOp)
			if !ok || u.Op != token.MUL {
				return
			}
			fa, ok := u.X.(*ssa.FieldAddr)
			if !ok || fieldOf(fa) != outField {
				return
			}
			n++
			okArg := false
			why := "something other than the frame built by view() is handed to the terminal: its height is not that of the terminal"
			if len(cc.Args) == 1 {
				if call, ok := unwrapLoad(cc.Args[0]).(*ssa.Call); ok && call.Call.StaticCallee() == view && len(call.Call.Args) == 1 {
					okArg = path(call.Call.Args[0]) == path(fa.X)
					// … and it is written at once: nothing is called between building the
					// frame and writing it (an Unlock in between lets a resize slip in, and
					// the stale frame of the old height is the one that stays on the screen)
					if okArg {
						if call.Block() != in.Block() {
							okArg, why = false, "the frame is built in one place and written in another: a resize in between leaves a frame of the old height on the screen"
						} else {
							for _, mid := range instrsBetween(call, in) {
								switch mid.(type) {
								case *ssa.Call, *ssa.Go, *ssa.Defer:
									okArg, why = false, "something is called between building the frame and writing it (at "+P.InstrPos(mid)+"): if that releases the state lock, a resize slips in and the stale frame of the old height is written last"
								}
							}
						}
					}
				}
			}
			c.check(okArg, fname+"/terminal-write", P.InstrPos(in), fname, "the terminal receives view() of the same state, written at once", why)
		})
	}
	c.info("terminal_writes", n)
}

// unwrapLoadKeep: the value itself (loads of fields are what R4 looks for).
func unwrapLoadKeep(v ssa.Value) ssa.Value { return v }

// c16R5: view() builds frames for s.height; that is the terminal's height only
// if every reported size is taken over. Every store into State.height stores a
// parameter of the enclosing function (NewState, SetWidthHeight); in
// SetWidthHeight every path to a return either stores the reported height and
// then emits a frame, or knows that the stored height already equals it, or
// knows the reported height to be below 2 (outside the property's
// precondition). A guard that ignores some valid heights leaves every later
// frame laid out for the old one.
func c16R5(c *Ctx) {
	P := c.P
	heightField := P.Field("servitor/ui", "State", "height")
	outField := P.Field("servitor/ui", "State", "output")
	n := 0
	for _, fn := range P.FuncsIn("servitor/ui") {
		fname := FuncName(fn)
		eachInstr(fn, func(_ *ssa.BasicBlock, _ int, in ssa.Instruction) {
			st, ok := in.(*ssa.Store)
			if !ok {
				return
			}
			fa, ok := st.Addr.(*ssa.FieldAddr)
			if !ok || fieldOf(fa) != heightField {
				return
			}
			n++
			_, isParam := unwrapLoad(st.Val).(*ssa.Parameter)
			c.check(isParam, fname+"/height-store", P.InstrPos(in), fname, "the height stored is the one reported by the caller", "State.height is set to something other than the height the terminal reported")
		})
	}
	c.info("height_stores", n)
	sw := P.Method("servitor/ui", "State", "SetWidthHeight")
	name := FuncName(sw)
	var hp *ssa.Parameter
	for _, p := range sw.Params {
		if p.Name() == "height" {
			hp = p
		}
	}
	if hp == nil && len(sw.Params) == 3 {
		hp = sw.Params[2]
	}
	if hp == nil {
		c.bad(name+"/signature", P.Pos(sw.Pos()), name, "SetWidthHeight no longer takes (width, height)")
		return
	}
	eachReturnPath(sw, func(ret *ssa.Return, pf0 pathFacts, k int) {
		pf, feasible := resolvePathFacts(pf0)
		if !feasible {
			return
		}
		lc := newLcPath(P, sw, pf)
		lc.useFacts()
		if lc.infeasible() {
			return
		}
		stored, emitted := false, false
		// a literal of the struct that groups the height with other fields, built from the reported height
		litWithReported := func(v ssa.Value) bool {
			ld, ok := v.(*ssa.UnOp)
			if !ok || ld.Op != token.MUL {
				return false
			}
			al, ok := ld.X.(*ssa.Alloc)
			if !ok {
				return false
			}
			for _, r := range refs(al) {
				if fa, ok := r.(*ssa.FieldAddr); ok && fieldOf(fa) == heightField {
					for _, rr := range refs(fa) {
						if st, ok := rr.(*ssa.Store); ok && st.Addr == ssa.Value(fa) && unwrapLoad(st.Val) == ssa.Value(hp) {
							return true
						}
					}
				}
			}
			return false
		}
		groupOfRecv := func(v ssa.Value) bool {
			ld, ok := v.(*ssa.UnOp)
			if !ok || ld.Op != token.MUL {
				return false
			}
			fa, ok := ld.X.(*ssa.FieldAddr)
			if !ok || unwrapLoad(fa.X) != ssa.Value(sw.Params[0]) {
				return false
			}
			st, ok := fieldOf(fa).Type().Underlying().(*types.Struct)
			if !ok {
				return false
			}
			for i := 0; i < st.NumFields(); i++ {
				if st.Field(i) == heightField {
					return true
				}
			}
			return false
		}
		for _, b := range pf.blocks {
			for _, in := range b.Instrs {
				if st, ok := in.(*ssa.Store); ok {
					if fa, ok := st.Addr.(*ssa.FieldAddr); ok && fieldOf(fa) == heightField && unwrapLoad(st.Val) == ssa.Value(hp) {
						if _, intoLiteral := fa.X.(*ssa.Alloc); !intoLiteral {
							stored = true
						}
					}
					// s.<group> = group{…, height: height}
					if fa, ok := st.Addr.(*ssa.FieldAddr); ok && unwrapLoad(fa.X) == ssa.Value(sw.Params[0]) && litWithReported(st.Val) {
						stored = true
					}
				}
				if cc := callOf(in); cc != nil && stored {
					if u, ok := cc.Value.(*ssa.UnOp); ok {
						if fa, ok := u.X.(*ssa.FieldAddr); ok && fieldOf(fa) == outField {
							emitted = true
						}
					}
				}
			}
		}
		h := lc.num(hp)
		cur := newLin()
		cur.coef["recv.&height.*"] = 1
		same := lc.proveEq(h.add(cur, -1))
		// … or the whole group is known to be equal to one built from the reported size
		for _, f := range pf.facts {
			if cmp, ok := f.Cmp(); ok && cmp.Op == token.EQL {
				if (groupOfRecv(cmp.X) && litWithReported(cmp.Y)) || (groupOfRecv(cmp.Y) && litWithReported(cmp.X)) {
					same = true
				}
			}
		}
		tooSmall := lc.nonNeg(linConst(1).add(h, -1)) // height <= 1
		where := "path through lines " + pathLines(P, pf)
		c.check((stored && emitted) || same || tooSmall, name+"/takes-over-height", P.InstrPos(ret), name,
			"the reported height is stored and a frame emitted, or it is unchanged, or below 2 ("+where+")",
			"a reported height of 2 or more can be ignored (or stored without a new frame) on the "+where+": every later frame is laid out for the old height")
	})
}
