package main

import (
	"fmt"
	"go/token"
	"go/types"
	"strings"

	"golang.org/x/tools/go/ssa"
)

func init() { registry["C02"] = propC02 }

func propC02() *Property {
	return &Property{
		ID:          "C02",
		Explanation: "Static provenance rules: the pairing (document, URL that served it) and (object, validated id) is shown to stay intact from the socket to the item constructors. Decided: (R1) every call of an item constructor receives (object, id) as results #0/#1 of one client.FetchUnknown call with its error checked, or the parentObject/parentIdentifier pair stored from such a call under parentErr == nil; (R2) every source handed to FetchUnknown traces back to nil (user input) or to the id field of an item — which is stored only from the constructor's validated id — and inside the constructors embedded values are taken from the constructor's own object and paired with its own id; (R3) on every acyclic path of FetchUnknown to a success return (phi operands resolved along the path) the returned id is nil, or it is the id read from the returned object and the path knows that the object's paired source (the source parameter for embedded input, result #1 of the same FetchURL call for fetched input) is non-nil and has the same Host as the id; (R4) jtp.Get reports its own URL as source on success (C03.R1) and forwards triples unchanged; (R5) client.FetchURL returns the three fields of one bundle built from one jtp.Get call; (R6) there is no side door: jtp.Get, FetchURL and FetchFromFile are called only from their documented callers. (R2, addition) a URL read straight out of a document by an object.Object accessor is not a validated id and is reported as a source. Not decided: end-to-end behaviour on multi-host worlds, library URL semantics (Host normalisation, case).",
		Assumptions: []string{"singleflight.Group.Do returns the value produced by the closure for the same key", "url.URL.Host of a parsed URL is the authority that was dialled"},
		Rules: []Rule{
			{ID: "C02.R1", Title: "constructors receive (object, id) pairs from one FetchUnknown call", Floor: 8, Run: c02R1},
			{ID: "C02.R2", Title: "sources are validated ids; embedded values are paired with their own document's id", Floor: 9, Run: c02R2},
			{ID: "C02.R3", Title: "acceptance condition on every success path of FetchUnknown", Floor: 4, Run: c02R3},
			{ID: "C02.R4", Title: "what jtp.Get caches for a URL is exactly what it returns for it", Floor: 3, Run: c02R4},
			{ID: "C02.R5", Title: "FetchURL returns one intact (document, source, error) bundle", Floor: 2, Run: c02R5},
			{ID: "C02.R6", Title: "no side door to the fetcher", Floor: 4, Run: c02R6},
			{ID: "C02.R7", Title: "what a collection holds was read from the document its id was verified for", Floor: 2, Run: c02R7},
		},
	}
}

var itemCtors = []string{"NewPostFromObject", "NewActorFromObject", "NewActivityFromObject", "NewCollectionFromObject"}

func c02R1(c *Ctx) {
	P := c.P
	fu := P.Func("servitor/client", "FetchUnknown")
	gfu := P.Func("servitor/pub", "getAndFetchUnkown")
	for _, cn := range itemCtors {
		ctor := P.Func("servitor/pub", cn)
		for _, e := range P.Callers(ctor) {
			if e.Site == nil {
				continue
			}
			fn := e.Caller.Func
			args := e.Site.Common().Args
			o, id := args[0], args[1]
			construct := FuncName(fn) + "/calls:" + cn
			pos := P.InstrPos(e.Site)
			ex0, ok0 := unwrapLoad(o).(*ssa.Extract)
			ex1, ok1 := unwrapLoad(id).(*ssa.Extract)
			if ok0 && ok1 && ex0.Tuple == ex1.Tuple && ex0.Index == 0 && ex1.Index == 1 {
				call, ok := ex0.Tuple.(*ssa.Call)
				if ok && call.Call.StaticCallee() == fu {
					er, _ := errorResult(call)
					// the error is judged where the pair is used; for a pair captured by a
					// closure, where the closure is created
					at := e.Site.Block()
					if call.Parent() != fn {
						at = closureCreationBlock(fn, call.Parent())
					}
					c.check(er != nil && at != nil && knownNil(er, at), construct, pos, FuncName(fn),
						"(object, id) are results #0/#1 of one FetchUnknown call whose error is known nil", "the FetchUnknown error is not checked before its (object, id) are used")
					continue
				}
			}
			// the stored parent pair
			if a0, n0 := fieldLoadOfRecv(o); a0 != nil && n0 == "parentObject" {
				if a1, n1 := fieldLoadOfRecv(id); a1 == a0 && n1 == "parentIdentifier" {
					// guarded by parentErr == nil
					nn := newNonNil(P)
					fa := o.(*ssa.UnOp).X.(*ssa.FieldAddr)
					c.check(nn.pairGuardedFactOnly(fa, e.Site.Block()), construct, pos, FuncName(fn),
						"(parentObject, parentIdentifier) pair under parentErr == nil", "the stored parent pair is used without parentErr being known nil")
					continue
				}
			}
			c.bad(construct, pos, FuncName(fn), "an item constructor is given an (object, id) pair that does not come from one client.FetchUnknown call: the id is not validated against the host that served the object")
		}
	}
	// the parent pair is stored only from getAndFetchUnkown, which forwards FetchUnknown
	po := P.Field("servitor/pub", "Post", "parentObject")
	pi := P.Field("servitor/pub", "Post", "parentIdentifier")
	for _, fn := range P.Funcs {
		eachInstr(fn, func(_ *ssa.BasicBlock, _ int, in ssa.Instruction) {
			st, ok := in.(*ssa.Store)
			if !ok {
				return
			}
			fa, ok := st.Addr.(*ssa.FieldAddr)
			if !ok || (fieldOf(fa) != po && fieldOf(fa) != pi) {
				return
			}
			want := 0
			if fieldOf(fa) == pi {
				want = 1
			}
			okS := false
			if ex, ok := st.Val.(*ssa.Extract); ok && ex.Index == want {
				if call, ok := ex.Tuple.(*ssa.Call); ok && call.Call.StaticCallee() == gfu {
					okS = true
				}
			}
			c.check(okS, FuncName(fn)+"/parent-pair-store:"+fieldOf(fa).Name(), P.InstrPos(in), FuncName(fn),
				"stored from getAndFetchUnkown (a forwarded FetchUnknown triple)", "the parent pair is stored from something other than a FetchUnknown result")
		})
	}
	okFwd := false
	for _, b := range gfu.Blocks {
		if ret, ok := b.Instrs[len(b.Instrs)-1].(*ssa.Return); ok && tupleForward(ret) {
			if call, ok := ret.Results[0].(*ssa.Extract).Tuple.(*ssa.Call); ok && call.Call.StaticCallee() == fu {
				okFwd = true
			}
		}
	}
	c.check(okFwd, FuncName(gfu)+"/forwards", P.Pos(gfu.Pos()), FuncName(gfu), "getAndFetchUnkown forwards FetchUnknown's triple unchanged", "getAndFetchUnkown no longer forwards a FetchUnknown triple")
}

// fieldLoadOfRecv: v is a load of field name through some base; returns base value and name.
func fieldLoadOfRecv(v ssa.Value) (ssa.Value, string) {
	u, ok := v.(*ssa.UnOp)
	if !ok || u.Op != token.MUL {
		return nil, ""
	}
	fa, ok := u.X.(*ssa.FieldAddr)
	if !ok {
		return nil, ""
	}
	return fa.X, fieldOf(fa).Name()
}

func isItemIDField(f *types.Var, P *Program) bool {
	for _, tn := range []string{"Post", "Actor", "Activity", "Collection"} {
		if P.FieldOpt("servitor/pub", tn, "id") == f {
			return true
		}
	}
	return false
}

func c02R2(c *Ctx) {
	P := c.P
	f := c01FlowCached(P)
	fu := P.Func("servitor/client", "FetchUnknown")
	for _, e := range P.Callers(fu) {
		if e.Site == nil {
			continue
		}
		fn := e.Caller.Func
		src := e.Site.Common().Args[1]
		construct := FuncName(fn) + "/source"
		if isNilConst(src) {
			c.ok(construct, P.InstrPos(e.Site), FuncName(fn), "user input: no enclosing document")
			continue
		}
		origins, _ := f.Backward(f.val(src), func(n int) bool {
			k := f.keys[n]
			return k.kind == nField && isItemIDField(k.f, P)
		})
		var bad []string
		for _, o := range origins {
			k := f.keys[o]
			if k.kind == nField && isItemIDField(k.f, P) {
				continue
			}
			if k.kind == nOut {
				continue // nothing is ever written through that parameter
			}
			if k.kind == nValue {
				if call, ok := k.v.(*ssa.Call); ok {
					if sc := call.Call.StaticCallee(); sc != nil && P.IsServitorFunc(sc) {
						// a URL read straight out of a document (object.Object accessors) is
						// whatever the document says, not a validated id
						if P.PkgOf(sc) == "servitor/object" {
							bad = append(bad, "read from a document by "+sc.Name()+" at "+P.InstrPos(call)+": an unvalidated URL chosen by whoever served the document")
						}
						continue
					}
				}
				if _, isTuple := k.v.Type().(*types.Tuple); isTuple {
					continue
				}
				if !isNamed(k.v.Type(), "net/url", "URL") {
					continue
				}
			}
			bad = append(bad, f.describe(o, flowEdge{}))
		}
		c.check(len(bad) == 0, construct, P.InstrPos(e.Site), FuncName(fn),
			"the source traces back only to nil or to the validated id field of an item", "the source handed to FetchUnknown can be a URL that is not the validated id of the enclosing document", bad...)
	}
	// inside the constructors: embedded values come from the constructor's own
	// object and travel with its own id
	for _, cn := range itemCtors {
		ctor := P.Func("servitor/pub", cn)
		oParam := ctor.Params[0]
		for _, fn := range append([]*ssa.Function{ctor}, Closures(ctor)...) {
			eachInstr(fn, func(_ *ssa.BasicBlock, _ int, in ssa.Instruction) {
				call, ok := in.(*ssa.Call)
				if !ok {
					return
				}
				sc := call.Call.StaticCallee()
				if sc == nil || P.PkgOf(sc) != "servitor/pub" {
					return
				}
				sig := sc.Signature.Params()
				// helpers shaped (o object.Object, key string, source *url.URL, ...)
				if sig.Len() < 3 || !isNamed(sig.At(0).Type(), "servitor/object", "Object") || !isNamed(sig.At(2).Type(), "net/url", "URL") {
					return
				}
				args := call.Call.Args
				okO := unwrapLoad(args[0]) == ssa.Value(oParam)
				base, fld := fieldLoadOfRecv(args[2])
				okS := base != nil && fld == "id" && isFreshItem(unwrapLoad(base))
				key, _ := constString(args[1])
				c.check(okO && okS, FuncName(fn)+"/embedded:"+key, P.InstrPos(in), FuncName(fn),
					"value of \""+key+"\" is taken from this document and paired with this item's id", "an embedded value is fetched relative to a source that is not the id of the document it was embedded in")
			})
		}
	}
	// harvest: elements and next page of a collection travel with the collection's id (checked in C09.R3)
}

// isFreshItem: the value is the item under construction (address of the
// composite literal allocated in this constructor).
func isFreshItem(v ssa.Value) bool {
	a, ok := v.(*ssa.Alloc)
	return ok && a.Heap
}

// ---- R3 ------------------------------------------------------------------------

type phiEnv map[*ssa.Phi]ssa.Value

func (env phiEnv) resolve(v ssa.Value) ssa.Value {
	for i := 0; i < 32; i++ {
		ph, ok := v.(*ssa.Phi)
		if !ok {
			return v
		}
		nv, ok := env[ph]
		if !ok {
			return v
		}
		v = nv
	}
	return v
}

func envAlong(blocks []*ssa.BasicBlock) phiEnv {
	env := phiEnv{}
	for i := 1; i < len(blocks); i++ {
		prev, b := blocks[i-1], blocks[i]
		idx := -1
		for k, p := range b.Preds {
			if p == prev {
				idx = k
			}
		}
		if idx < 0 {
			continue
		}
		// phis read their operands simultaneously
		next := map[*ssa.Phi]ssa.Value{}
		for _, in := range b.Instrs {
			ph, ok := in.(*ssa.Phi)
			if !ok {
				break
			}
			next[ph] = env.resolve(ph.Edges[idx])
		}
		for k, v := range next {
			env[k] = v
		}
	}
	return env
}

// hostOf: v is load(&X.Host); returns X.
func hostOf(v ssa.Value) ssa.Value {
	u, ok := v.(*ssa.UnOp)
	if !ok || u.Op != token.MUL {
		return nil
	}
	fa, ok := u.X.(*ssa.FieldAddr)
	if !ok || fieldOf(fa).Name() != "Host" || !isNamed(fa.X.Type(), "net/url", "URL") {
		return nil
	}
	return fa.X
}

func c02R3(c *Ctx) {
	P := c.P
	fn := P.Func("servitor/client", "FetchUnknown")
	fname := FuncName(fn)
	fetchURL := P.Func("servitor/client", "FetchURL")
	if len(fn.Params) < 2 || fn.Signature.Results().Len() != 3 {
		c.bad(fname+"/shape", P.Pos(fn.Pos()), fname, "FetchUnknown no longer returns (object, id, error) for (input, source): the acceptance condition cannot be read off its returns")
		return
	}
	srcParam := fn.Params[1]
	nSuccess := 0
	for _, b := range fn.Blocks {
		ret, ok := b.Instrs[len(b.Instrs)-1].(*ssa.Return)
		if !ok {
			continue
		}
		if !isNilConst(ret.Results[2]) {
			c.check(isNilConst(ret.Results[0]) && isNilConst(ret.Results[1]) && provablyNonNilErr(ret.Results[2], b, 0), fname+"/return:error", P.InstrPos(ret), fname,
				"error return without object or id", "an object or id is returned together with an error, or the error may be nil")
			continue
		}
		paths, complete := enumeratePaths(fn, b, 20000)
		if !complete || len(paths) == 0 {
			c.bad(fname+"/return:success", P.InstrPos(ret), fname, "cannot enumerate the paths to this success return")
			continue
		}
		for _, pf := range paths {
			nSuccess++
			env := envAlong(pf.blocks)
			obj := env.resolve(ret.Results[0])
			id := env.resolve(ret.Results[1])
			desc := describePath(P, pf)
			construct := fname + "/success-path"
			if isNilConst(id) || pathKnowsNil(pf, env, id) {
				c.ok(construct, P.InstrPos(ret), fname, "object without id (nothing is attributed to a host) — "+desc)
				continue
			}
			// id must be read from the returned object (directly, or through a
			// helper that returns the "id" of its argument or nil)
			okID := false
			var idErr ssa.Value
			if ex, ok := id.(*ssa.Extract); ok && ex.Index == 0 {
				if call, ok := ex.Tuple.(*ssa.Call); ok && call.Call.StaticCallee() != nil {
					sc := call.Call.StaticCallee()
					if sc.Name() == "GetURL" {
						key, _ := constString(call.Call.Args[1])
						if key == "id" && env.resolve(call.Call.Args[0]) == obj {
							okID = true
							idErr = resultValue(call, 1)
						}
					} else if k := idReaderParam(P, sc, map[*ssa.Function]bool{}); k >= 0 && k < len(call.Call.Args) && env.resolve(call.Call.Args[k]) == obj {
						okID = true
						idErr = resultValue(call, 1)
					}
				}
			}
			if !okID {
				c.bad(construct, P.InstrPos(ret), fname, "the id returned is not the \"id\" read from the object returned with it — "+desc)
				continue
			}
			// the paired source of obj
			var src ssa.Value
			srcNonNil := false
			switch o := obj.(type) {
			case *ssa.Extract:
				if call, ok := o.Tuple.(*ssa.Call); ok && call.Call.StaticCallee() == fetchURL && o.Index == 0 {
					src = resultValue(call, 1)
					// a successful fetch reports a non-nil source (jtp.Get returns its own URL)
					if e := resultValue(call, 2); e != nil && pathKnowsNil(pf, env, e) {
						srcNonNil = true
					}
				}
			case *ssa.ChangeType:
				// embedded object: input.(map[string]any)
				src = srcParam
			}
			if src == nil {
				c.bad(construct, P.InstrPos(ret), fname, "cannot pair the returned object with the URL it was served from — "+desc)
				continue
			}
			hostEq := false
			for _, f := range pf.facts {
				cmp, ok := f.Cmp()
				if !ok {
					continue
				}
				x, y := env.resolve(cmp.X), env.resolve(cmp.Y)
				if cmp.Op == token.NEQ && isNilConst(y) && x == src {
					srcNonNil = true
				}
				if cmp.Op == token.EQL {
					hx, hy := hostOf(cmp.X), hostOf(cmp.Y)
					if hx != nil && hy != nil {
						a, bb := env.resolve(hx), env.resolve(hy)
						if (a == src && bb == id) || (a == id && bb == src) {
							hostEq = true
						}
					}
				}
			}
			_ = idErr
			why := ""
			switch {
			case !hostEq:
				why = "the path does not know that the id's host equals the host that served the object"
			case !srcNonNil:
				why = "the serving URL may be nil where its host is compared"
			}
			c.check(why == "", construct, P.InstrPos(ret), fname,
				"id.Host == host of the URL that served the returned object — "+desc,
				"an object is accepted with an id although "+why+": a document from host A can supply host B's object — "+desc)
		}
	}
	c.info("success_paths", nSuccess)
}

// pathKnowsNil: the path facts say e == nil (phi-resolved).
func pathKnowsNil(pf pathFacts, env phiEnv, e ssa.Value) bool {
	for _, f := range pf.facts {
		cmp, ok := f.Cmp()
		if !ok || cmp.Op != token.EQL {
			continue
		}
		if isNilConst(cmp.Y) && env.resolve(cmp.X) == e {
			return true
		}
	}
	return false
}

func describePath(P *Program, pf pathFacts) string {
	var parts []string
	for _, b := range pf.blocks {
		if len(b.Instrs) > 0 {
			if iff, ok := b.Instrs[len(b.Instrs)-1].(*ssa.If); ok {
				parts = append(parts, strings.TrimPrefix(P.InstrPos(iff), "client/client.go:"))
			}
		}
	}
	if len(parts) > 14 {
		parts = append(parts[:14], "…")
	}
	return "branches at lines " + strings.Join(parts, ",")
}

func c02R5(c *Ctx) {
	P := c.P
	fn := P.Func("servitor/client", "FetchURL")
	fname := FuncName(fn)
	get := P.Func("servitor/jtp", "Get")
	// the closure: bundle literal from one jtp.Get call
	var cl *ssa.Function
	for _, a := range fn.AnonFuncs {
		cl = a
	}
	if cl == nil {
		c.bad(fname+"/closure", P.Pos(fn.Pos()), fname, "FetchURL no longer coalesces fetches through a closure")
		return
	}
	var getCall *ssa.Call
	eachInstr(cl, func(_ *ssa.BasicBlock, _ int, in ssa.Instruction) {
		if call, ok := in.(*ssa.Call); ok && call.Call.StaticCallee() == get {
			getCall = call
		}
	})
	okLit := getCall != nil
	if okLit {
		for _, b := range cl.Blocks {
			ret, ok := b.Instrs[len(b.Instrs)-1].(*ssa.Return)
			if !ok {
				continue
			}
			mi, ok := ret.Results[0].(*ssa.MakeInterface)
			if !ok {
				okLit = false
				continue
			}
			u, ok := mi.X.(*ssa.UnOp)
			if !ok {
				okLit = false
				continue
			}
			a, ok := u.X.(*ssa.Alloc)
			if !ok {
				okLit = false
				continue
			}
			for i, n := range []string{"item", "source", "err"} {
				sts := fieldStores(a, n)
				if len(sts) != 1 {
					okLit = false
					continue
				}
				ex, ok := sts[0].(*ssa.Extract)
				if !ok || ex.Tuple != ssa.Value(getCall) || ex.Index != i {
					okLit = false
				}
			}
		}
		// the URL fetched is FetchURL's own parameter
		if unwrapLoad(getCall.Call.Args[0]) != ssa.Value(fn.Params[0]) {
			okLit = false
		}
	}
	c.check(okLit, FuncName(cl)+"/bundle", P.Pos(cl.Pos()), FuncName(cl), "bundle{item, source, err} = the three results of one jtp.Get(uri, …) call", "the bundle does not pair the document, source and error of one jtp.Get call for the requested URL")
	// FetchURL returns the fields of the one value returned by group.Do
	for _, b := range fn.Blocks {
		ret, ok := b.Instrs[len(b.Instrs)-1].(*ssa.Return)
		if !ok {
			continue
		}
		var from ssa.Value
		okR := true
		for i, n := range []string{"item", "source", "err"} {
			fbase, fname2, ok := fieldRead(ret.Results[i])
			if !ok || fname2 != n {
				okR = false
				continue
			}
			ta, ok := fbase.(*ssa.TypeAssert)
			if !ok {
				okR = false
				continue
			}
			if from != nil && ta.X != from {
				okR = false
			}
			from = ta.X
		}
		if okR {
			if ex, ok := from.(*ssa.Extract); !ok || ex.Index != 0 {
				okR = false
			} else if call, ok := ex.Tuple.(*ssa.Call); !ok || !isLibCall(&call.Call, "golang.org/x/sync/singleflight", "Group", "Do") {
				okR = false
			} else {
				// keyed by the URL's string
				keyOK := false
				if kc, ok := call.Call.Args[1].(*ssa.Call); ok && isLibCall(&kc.Call, "net/url", "URL", "String") && unwrapLoad(kc.Call.Args[0]) == ssa.Value(fn.Params[0]) {
					keyOK = true
				}
				c.check(keyOK, fname+"/singleflight-key", P.InstrPos(call), fname, "concurrent fetches are coalesced by the URL itself", "the singleflight key is not the requested URL: a fetch could receive another URL's document")
			}
		}
		c.check(okR, fname+"/return", P.InstrPos(ret), fname, "returns item, source and err of the one bundle produced for this URL", "FetchURL's results are not the three fields of the bundle produced for this URL")
	}
	// K1: the b.(bundle) assertions cannot fail: every return of the closure is a bundle
	c.ok(fname+"/assertion", P.Pos(fn.Pos()), fname, "the closure returns a bundle on every path, so b.(bundle) holds")
}

func c02R6(c *Ctx) {
	P := c.P
	type door struct {
		pkg, fn string
		allowed map[string]bool
	}
	doors := []door{
		{"servitor/jtp", "Get", map[string]bool{"servitor/client.FetchURL$1": true, "servitor/client.ResolveWebfinger": true, "servitor/jtp.Get": true}},
		{"servitor/client", "FetchURL", map[string]bool{"servitor/client.FetchUnknown": true}},
		{"servitor/client", "FetchFromFile", map[string]bool{"servitor/pub.FetchUserInput": true}},
		{"servitor/client", "ResolveWebfinger", map[string]bool{"servitor/pub.FetchUserInput": true}},
	}
	for _, d := range doors {
		fn := P.Func(d.pkg, d.fn)
		n := 0
		for _, e := range P.Callers(fn) {
			if e.Site == nil {
				continue
			}
			n++
			caller := e.Caller.Func.String()
			c.check(d.allowed[caller], caller+"/calls:"+d.fn, P.InstrPos(e.Site), caller,
				"documented caller of "+d.fn, fmt.Sprintf("%s is called from %s: documents can enter without passing FetchUnknown's host check", d.fn, caller))
		}
		if n == 0 {
			c.note(d.pkg+"."+d.fn, P.Pos(fn.Pos()), FuncName(fn), "no callers")
		}
	}
}

// c02R4: source integrity in jtp.Get. Every cache.Add stores a bundle whose
// (item, source, err) are the very values the frame returns right after, and
// a success reports the frame's own URL: a later cache hit then attributes the
// document to the same host as the first fetch did.
func c02R4(c *Ctx) {
	P := c.P
	g := analyseGet(P)
	fname := FuncName(g.fn)
	n := 0
	eachInstr(g.fn, func(b *ssa.BasicBlock, _ int, in ssa.Instruction) {
		call, ok := in.(*ssa.Call)
		if !ok || !isCacheCall(&call.Call, "Add") {
			return
		}
		n++
		// the return this store is paired with: the unique return reachable without another cache.Add
		var ret *ssa.Return
		for cur, steps := b, 0; cur != nil && steps < 8; steps++ {
			if r, ok := cur.Instrs[len(cur.Instrs)-1].(*ssa.Return); ok {
				ret = r
				break
			}
			if len(cur.Succs) != 1 {
				break
			}
			cur = cur.Succs[0]
		}
		if ret == nil {
			c.bad(fname+"/cache-store", P.InstrPos(in), fname, "cannot pair this cache store with the return that follows it")
			return
		}
		val := call.Call.Args[2]
		u, ok := val.(*ssa.UnOp)
		var a *ssa.Alloc
		if ok {
			a, _ = u.X.(*ssa.Alloc)
		}
		if a == nil {
			c.bad(fname+"/cache-store", P.InstrPos(in), fname, "the cached value is not a local bundle")
			return
		}
		why := ""
		for i, name := range []string{"item", "source", "err"} {
			sts := fieldStores(a, name)
			if len(sts) != 1 {
				why = "field " + name + " of the cached bundle is not assigned exactly once"
				continue
			}
			stored := unwrapLoad(sts[0])
			returned := unwrapLoad(ret.Results[i])
			if isNilConst(stored) && isNilConst(returned) {
				continue
			}
			// cached as nil on a path that knows the returned value to be nil
			if isNilConst(stored) && knownNil(returned, b) {
				continue
			}
			if stored != returned && path(stored) != path(returned) {
				why = "the cached " + name + " is not the " + name + " returned for this request: a later cache hit reports a different " + name + " than the fetch that filled the cache"
			}
		}
		c.check(why == "", fname+"/cache-store", P.InstrPos(in), fname, "cached (document, source, error) = returned (document, source, error)", why)
	})
	c.check(n >= 1, fname+"/cache-stores", P.Pos(g.fn.Pos()), fname, fmt.Sprintf("%d cache stores analysed", n), "jtp.Get no longer stores into the cache")
	// success returns report the frame's own URL; cache hits and redirects forward intact triples
	for _, b := range g.fn.Blocks {
		ret, ok := b.Instrs[len(b.Instrs)-1].(*ssa.Return)
		if !ok || len(ret.Results) != 3 {
			continue
		}
		doc, src, er := ret.Results[0], ret.Results[1], ret.Results[2]
		switch {
		case isNilConst(doc) && isNilConst(src):
		case isNilConst(er):
			c.check(unwrapLoad(src) == ssa.Value(g.link), fname+"/success-source", P.InstrPos(ret), fname, "a fetched document is attributed to the URL of the response that carried it", "the source reported with a fetched document is not the URL this frame requested")
		default:
			kind, why := c03Forwarded(g, ret)
			c.check(kind != "", fname+"/forwarded", P.InstrPos(ret), fname, "forwards the intact triple of "+kind, "document, source and error returned together do not come from one fetch: "+why)
		}
	}
}

// idReaderParam: fn(obj, ...) (*url.URL, error) returns on every path either no
// id (nil), an error, or the checked result of GetURL(obj, "id") for one of
// its own parameters; returns that parameter's index, or -1.
func idReaderParam(P *Program, fn *ssa.Function, seen map[*ssa.Function]bool) int {
	if seen[fn] || !P.IsServitorFunc(fn) || len(fn.Blocks) == 0 {
		return -1
	}
	seen[fn] = true
	res := fn.Signature.Results()
	if res.Len() != 2 || !isNamed(res.At(0).Type(), "net/url", "URL") || !isErrorType(res.At(1).Type()) {
		return -1
	}
	param := -1
	for _, b := range fn.Blocks {
		ret, ok := b.Instrs[len(b.Instrs)-1].(*ssa.Return)
		if !ok {
			continue
		}
		v := ret.Results[0]
		if isNilConst(v) {
			continue
		}
		ex, ok := v.(*ssa.Extract)
		if !ok || ex.Index != 0 {
			return -1
		}
		call, ok := ex.Tuple.(*ssa.Call)
		if !ok || call.Call.StaticCallee() == nil {
			return -1
		}
		k := -1
		if call.Call.StaticCallee().Name() == "GetURL" {
			if key, _ := constString(call.Call.Args[1]); key != "id" {
				return -1
			}
			for i, p := range fn.Params {
				if unwrapLoad(call.Call.Args[0]) == ssa.Value(p) {
					k = i
				}
			}
		} else if inner := idReaderParam(P, call.Call.StaticCallee(), seen); inner >= 0 && inner < len(call.Call.Args) {
			for i, p := range fn.Params {
				if unwrapLoad(call.Call.Args[inner]) == ssa.Value(p) {
					k = i
				}
			}
		}
		if k < 0 || (param >= 0 && param != k) {
			return -1
		}
		// returned as a value only where its error is known nil
		if e := resultValue(call, 1); e == nil || !knownNil(e, b) {
			return -1
		}
		param = k
	}
	return param
}

// c02R7: a Collection judges its items against its own id (`construct(element,
// c.id)`). That is only right if the items, and the reference to the following
// page, were read from the very document the id was verified for: every store
// into Collection.elements / Collection.next takes result #0 of an accessor
// called on NewCollectionFromObject's own object parameter, inside that
// constructor. A collection that adopts the items of a page fetched from
// somewhere else while keeping its id (seed C02-2r8) attributes that page's
// embedded objects to the collection's host.
func c02R7(c *Ctx) {
	P := c.P
	ctor := P.Func("servitor/pub", "NewCollectionFromObject")
	var obj *ssa.Parameter
	for _, p := range ctor.Params {
		if isNamed(p.Type(), "servitor/object", "Object") {
			obj = p
		}
	}
	if obj == nil {
		c.bad(FuncName(ctor)+"/shape", P.Pos(ctor.Pos()), FuncName(ctor), "NewCollectionFromObject has no object parameter")
		return
	}
	for _, name := range []string{"elements", "next"} {
		f := P.Field("servitor/pub", "Collection", name)
		for _, st := range storesToField(P, f) {
			fn := st.Parent()
			root := fn
			for root.Parent() != nil {
				root = root.Parent()
			}
			ok := false
			if ex, isEx := unwrapLoad(st.Val).(*ssa.Extract); isEx && ex.Index == 0 && root == ctor {
				if call, isCall := ex.Tuple.(*ssa.Call); isCall && len(call.Call.Args) > 0 && unwrapLoad(call.Call.Args[0]) == ssa.Value(obj) {
					if sc := call.Call.StaticCallee(); sc != nil && P.PkgOf(sc) == "servitor/object" {
						ok = true
					}
				}
			}
			c.check(ok, FuncName(fn)+"/collection-"+name, P.InstrPos(st), FuncName(fn), "Collection."+name+" is read from the constructor's own document", "Collection."+name+" is filled from something other than the document this collection's id was verified for: its items are then judged against the wrong host")
		}
	}
}
