package main

import (
	"fmt"
	"go/constant"
	"go/token"
	"go/types"
	"os"
	"strings"

	"golang.org/x/tools/go/ssa"
)

func init() { registry["C04"] = propC04 }

func propC04() *Property {
	return &Property{
		ID:          "C04",
		Explanation: "Static call-graph, template and provenance rules. Decided: (R1) the only code in the module that touches the network is jtp.Get — one TLS dial, one Write, the reads through one bufio.Reader, Close and deadline calls; no servitor package imports net/http or another client library; (R2) the bytes written are exactly \"GET \" + link.RequestURI() + \" HTTP/1.0\\r\\nHost: \" + link.Host + \"\\r\\nAccept: \" + accept + \"\\r\\n\\r\\n\" for the frame's own URL and Accept value, and every caller passes a constant Accept value without CR/LF; (R3) the dial uses TLS with the library's default verification (nil config or one that never disables verification), to JoinHostPort(link.Hostname(), link.Port() or 443) of the same URL, and only under link.Scheme == \"https\"; (R4) every URL that can reach jtp.Get is produced by url.Parse / ResolveReference or is a literal whose path, query and fragment parts are constants or url.Values.Encode output; (R5) the webfinger query is url.Values.Encode output. (R4, addition) the provenance walk continues through both operands of ResolveReference / JoinPath, which copy query and fragment of their argument verbatim. (R3, addition) a non-nil tls.Config is accepted only if no field outside NextProtos, ClientSessionCache, SessionTicketsDisabled, Time, Rand, KeyLogWriter is ever stored into one: ServerName, Certificates, InsecureSkipVerify and the like change whom the certificate is checked against or what the client reveals. Not decided: net/url's own escaping guarantees and what the TLS library sends (trusted).",
		Assumptions: []string{
			"url.Parse/ResolveReference reject raw control characters and re-escape paths; a host containing CR/LF/space cannot be dialled, so nothing is written for it",
			"crypto/tls with a nil config verifies the peer against the system roots",
		},
		Rules: []Rule{
			{ID: "C04.R1", Title: "single network writer (jtp.Get), no other client library", Floor: 81, Run: c04R1},
			{ID: "C04.R2", Title: "request template and constant Accept values", Floor: 1, Run: c04R2},
			{ID: "C04.R3", Title: "TLS with default verification to the URL's own host and port, https only", Floor: 2, Run: c04R3},
			{ID: "C04.R4", Title: "URL constructor discipline for everything that reaches jtp.Get", Floor: 3, Run: c04R4},
		},
	}
}

var networkPkgs = map[string]bool{
	"net": true, "crypto/tls": true, "net/http": true, "net/rpc": true, "net/smtp": true,
	"net/textproto": true, "net/http/httputil": true, "net/http/cookiejar": true, "net/mail": false,
	"golang.org/x/net/http2": true, "golang.org/x/net/websocket": true, "golang.org/x/net/proxy": true,
	"syscall": true, "golang.org/x/sys/unix": true,
}

// pureNetFunc: functions of package net that only manipulate strings / addresses.
var pureNetFunc = map[string]bool{
	"net.JoinHostPort": true, "net.SplitHostPort": true, "net.ParseIP": true, "net.ParseCIDR": true,
	"(net.IP).String": true, "(*net.IPNet).String": true, "(net.IP).Equal": true,
}

func c04R1(c *Ctx) {
	P := c.P
	g := analyseGet(P)
	// imports
	for _, pkg := range P.Pkgs {
		for imp := range pkg.Imports {
			bad := imp == "net/http" || strings.HasPrefix(imp, "net/http/") || imp == "net/rpc" || imp == "net/smtp" ||
				strings.HasPrefix(imp, "golang.org/x/net/http2") || imp == "golang.org/x/net/websocket"
			allowedNet := (imp == "net" || imp == "crypto/tls") && pkg.PkgPath != "servitor/jtp"
			c.check(!bad && !allowedNet, pkg.PkgPath+"/import:"+imp, pkg.PkgPath, pkg.PkgPath,
				"import is not a network client library outside jtp", "package "+pkg.PkgPath+" imports "+imp+": a second way onto the network besides jtp.Get")
		}
	}
	// call sites into network packages
	allowed := map[string]bool{
		"crypto/tls.DialWithDialer": true, "net.JoinHostPort": true,
		"(*crypto/tls.Conn).Write": true, "(*crypto/tls.Conn).Close": true,
		"(*crypto/tls.Conn).SetDeadline": true, "(*crypto/tls.Conn).SetReadDeadline": true, "(*crypto/tls.Conn).SetWriteDeadline": true,
	}
	for _, fn := range P.Funcs {
		eachInstr(fn, func(_ *ssa.BasicBlock, _ int, in ssa.Instruction) {
			ci, ok := in.(ssa.CallInstruction)
			if !ok {
				return
			}
			var names []string
			if f := calleeObj(ci.Common()); f != nil && f.Pkg() != nil && networkPkgs[f.Pkg().Path()] && !pureNetFunc[f.FullName()] {
				if f.Pkg().Path() == "syscall" || f.Pkg().Path() == "golang.org/x/sys/unix" {
					switch f.Name() {
					case "Socket", "Connect", "Sendto", "Sendmsg", "Write", "Bind", "Listen":
						names = append(names, f.FullName())
					}
				} else {
					names = append(names, f.FullName())
				}
			}
			if ci.Common().IsInvoke() {
				// dynamic writes that may land on a connection
				for _, callee := range P.Callees(ci) {
					if pk := funcPkg(callee); pk != nil && networkPkgs[pk.Path()] && (callee.Name() == "Write" || callee.Name() == "ReadFrom") {
						names = append(names, "invoke -> "+callee.String())
					}
				}
			}
			onConn := ci.Common().IsInvoke() && g.conn != nil && stripIface(unwrapLoad(ci.Common().Value)) == g.conn
			for _, n := range names {
				inGet := fn == g.fn
				if inGet && onConn && (n == "(net.Conn).Write" || n == "(io.Writer).Write" || n == "invoke -> (*crypto/tls.Conn).Write" || n == "(net.Conn).Close" || n == "(net.Conn).SetDeadline") {
					c.ok(FuncName(fn)+"/net-call:"+n, P.InstrPos(in), FuncName(fn), "the connection of this frame, used through an interface")
					continue
				}
				c.check(inGet && allowed[n], FuncName(fn)+"/net-call:"+n, P.InstrPos(in), FuncName(fn),
					"network primitive used inside jtp.Get as part of the single request",
					"network primitive "+n+" used outside the single request path of jtp.Get")
			}
		})
	}
	// uses of the connection value: one Write, reads only through bufio.NewReader
	if g.conn == nil {
		unfollowed("jtp.Get opens no connection")
	}
	nWrite := 0
	for _, u := range connUses(P, g.conn, 0) {
		switch {
		case u.kind == "io" && u.what == "Write":
			nWrite++
			c.ok(FuncName(g.fn)+"/conn-use:Write", P.InstrPos(u.in), FuncName(g.fn), "the request write")
		case u.kind == "io" && u.what == "hand-off to bufio.NewReader":
			c.ok(FuncName(g.fn)+"/conn-use:reader", P.InstrPos(u.in), FuncName(g.fn), "read side handed to a bufio.Reader")
		case u.kind == "io":
			c.bad(FuncName(g.fn)+"/conn-use:"+u.what, P.InstrPos(u.in), FuncName(g.fn), "the connection is handed to "+u.what+": something other than the single request may be written to the network")
		default:
			c.ok(FuncName(g.fn)+"/conn-use:"+u.what, P.InstrPos(u.in), FuncName(g.fn), "no data is sent by this call")
		}
	}
	c.check(nWrite == 1, FuncName(g.fn)+"/one-write", P.Pos(g.fn.Pos()), FuncName(g.fn), "exactly one Write on the connection", fmt.Sprintf("%d writes on the connection: a second request or extra bytes can be sent", nWrite))
	// jtp.Get is called only by the two documented clients
	for _, e := range P.Callers(g.fn) {
		if e.Site == nil {
			continue
		}
		caller := e.Caller.Func
		root := caller
		for root.Parent() != nil {
			root = root.Parent()
		}
		ok := root == g.fn || (P.PkgOf(root) == "servitor/client" && (root.Name() == "FetchURL" || root.Name() == "ResolveWebfinger"))
		c.check(ok, FuncName(caller)+"/calls-Get", P.InstrPos(e.Site), FuncName(caller), "documented caller of jtp.Get", "jtp.Get is called from an undocumented place: review what URL and Accept value it sends")
	}
}

// templatePart is a constant or a symbolic operand of a string concatenation.
type templatePart struct {
	constant bool
	text     string
}

func flattenConcat(v ssa.Value, out *[]templatePart) {
	if s, ok := constString(v); ok {
		if n := len(*out); n > 0 && (*out)[n-1].constant {
			(*out)[n-1].text += s
		} else {
			*out = append(*out, templatePart{true, s})
		}
		return
	}
	if b, ok := v.(*ssa.BinOp); ok && b.Op == token.ADD {
		flattenConcat(b.X, out)
		flattenConcat(b.Y, out)
		return
	}
	// fmt.Sprintf with a constant format whose verbs are all %s / %v of strings
	// is the concatenation of the constant stretches and the arguments
	if call, ok := v.(*ssa.Call); ok && isLibCall(&call.Call, "fmt", "", "Sprintf") && len(call.Call.Args) == 2 {
		if format, ok := constString(call.Call.Args[0]); ok {
			if elems, ok := variadicElements(call.Call.Args[1]); ok {
				var pieces []ssa.Value // nil: a constant stretch follows in texts
				var texts []string
				cur := ""
				okFmt := true
				k := 0
				for i := 0; i < len(format) && okFmt; i++ {
					if format[i] != '%' {
						cur += string(format[i])
						continue
					}
					i++
					switch {
					case i < len(format) && format[i] == '%':
						cur += "%"
					case i < len(format) && (format[i] == 's' || format[i] == 'v') && k < len(elems):
						mi, isMI := elems[k].(*ssa.MakeInterface)
						if !isMI || !isStringType(mi.X.Type()) || types.IsInterface(mi.X.Type()) {
							okFmt = false
							break
						}
						if _, named := mi.X.Type().(*types.Named); named {
							okFmt = false // a String() or Error() method would be used
							break
						}
						pieces, texts = append(pieces, nil), append(texts, cur)
						cur = ""
						pieces, texts = append(pieces, mi.X), append(texts, "")
						k++
					default:
						okFmt = false
					}
				}
				if okFmt && k == len(elems) {
					pieces, texts = append(pieces, nil), append(texts, cur)
					for i, pc := range pieces {
						if pc == nil {
							if texts[i] != "" {
								flattenConcat(stringConst(texts[i]), out)
							}
							continue
						}
						flattenConcat(pc, out)
					}
					return
				}
			}
		}
	}
	*out = append(*out, templatePart{false, path(v)})
}

func stringConst(s string) ssa.Value {
	return ssa.NewConst(constant.MakeString(s), types.Typ[types.String])
}

func c04R2(c *Ctx) {
	P := c.P
	g := analyseGet(P)
	fname := FuncName(g.fn)
	var write *ssa.Call
	var writeArg ssa.Value
	eachInstr(g.fn, func(_ *ssa.BasicBlock, _ int, in ssa.Instruction) {
		if call, ok := in.(*ssa.Call); ok {
			if f := calleeObj(&call.Call); f != nil && f.Name() == "Write" && len(call.Call.Args) == 2 && call.Call.Args[0] == g.conn {
				write = call
				writeArg = call.Call.Args[1]
			}
			// the same Write through an interface the connection was put into (a helper taking net.Conn / io.Writer)
			if call.Call.IsInvoke() && call.Call.Method.Name() == "Write" && len(call.Call.Args) == 1 && stripIface(unwrapLoad(call.Call.Value)) == g.conn {
				write = call
				writeArg = call.Call.Args[0]
			}
		}
	})
	if write == nil {
		c.bad(fname+"/request", P.Pos(g.fn.Pos()), fname, "no request write found on the connection")
		return
	}
	arg := writeArg
	if cv, ok := arg.(*ssa.Convert); ok {
		arg = cv.X
	}
	var parts []templatePart
	flattenConcat(arg, &parts)
	lp := path(g.link)
	want := []templatePart{
		{true, "GET "},
		{false, "call:(*net/url.URL).RequestURI(" + lp + ")"},
		{true, " HTTP/1.0\r\nHost: "},
		{false, lp + ".&Host.*"},
		{true, "\r\nAccept: "},
		{false, path(g.accept)},
		{true, "\r\n\r\n"},
	}
	ok := len(parts) == len(want)
	var got []string
	for i, p := range parts {
		if p.constant {
			got = append(got, fmt.Sprintf("%q", p.text))
		} else {
			got = append(got, "<"+trimPkg(p.text)+">")
		}
		if ok && (p.constant != want[i].constant || p.text != want[i].text) {
			ok = false
		}
	}
	c.check(ok, fname+"/request-template", P.InstrPos(write), fname,
		"request = GET <link.RequestURI()> HTTP/1.0 / Host: <link.Host> / Accept: <accept> / blank line, nothing else",
		"the bytes written to the connection are not exactly the request line, Host and Accept headers of the frame's own URL: "+strings.Join(got, " + "))
	// Accept values at the call sites
	for _, e := range P.Callers(g.fn) {
		if e.Site == nil || e.Caller.Func == g.fn {
			continue
		}
		a := e.Site.Common().Args[1]
		s, isConst := constString(a)
		c.check(isConst && !strings.ContainsAny(s, "\r\n") && s != "", FuncName(e.Caller.Func)+"/accept-constant", P.InstrPos(e.Site), FuncName(e.Caller.Func),
			"constant Accept value without CR/LF", "the Accept value passed to jtp.Get is not a compile-time constant free of CR/LF: content could add header lines")
	}
}

func c04R3(c *Ctx) {
	P := c.P
	g := analyseGet(P)
	fname := FuncName(g.fn)
	if g.dial == nil {
		unfollowed("no dial in jtp.Get")
	}
	pos := P.InstrPos(g.dial)
	f := calleeObj(&g.dial.Call)
	c.check(f.Pkg().Path() == "crypto/tls", fname+"/dial-tls", pos, fname, "the connection is opened by crypto/tls", "the connection is opened with "+f.FullName()+": plaintext")
	// config argument: last parameter of tls.Dial* is *tls.Config
	var cfg ssa.Value
	for _, a := range g.dial.Call.Args {
		if isNamed(a.Type(), "crypto/tls", "Config") {
			cfg = a
		}
	}
	okCfg := cfg != nil && isNilConst(cfg)
	why := "no *tls.Config argument found"
	if cfg != nil && !okCfg {
		// allowed if nothing in the module ever stores a verification-weakening field
		weak := ""
		for _, fn := range P.Funcs {
			eachInstr(fn, func(_ *ssa.BasicBlock, _ int, in ssa.Instruction) {
				if st, ok := in.(*ssa.Store); ok {
					if fa, ok := st.Addr.(*ssa.FieldAddr); ok && isNamed(fa.X.Type(), "crypto/tls", "Config") {
						switch fieldOf(fa).Name() {
						case "NextProtos", "ClientSessionCache", "SessionTicketsDisabled", "Time", "Rand", "KeyLogWriter":
							// do not change whom the peer is verified to be, nor what is presented to it
						default:
							// InsecureSkipVerify, VerifyPeerCertificate, VerifyConnection, RootCAs,
							// ServerName (the certificate is then checked against another name than the
							// host that was dialled and is sent as Host), Certificates /
							// GetClientCertificate (the request is no longer anonymous), versions, suites
							weak = fieldOf(fa).Name() + " set at " + P.InstrPos(in)
						}
					}
				}
			})
		}
		okCfg = weak == ""
		why = "a tls.Config is used and " + weak
	}
	c.check(okCfg, fname+"/dial-verification", pos, fname, "default certificate verification (nil config)", "certificate verification may be weakened: "+why)
	// address
	var addr ssa.Value
	for _, a := range g.dial.Call.Args {
		if types.Identical(a.Type(), types.Typ[types.String]) {
			if _, isC := a.(*ssa.Const); !isC {
				addr = a
			}
		}
	}
	okAddr := false
	whyAddr := "the dialled address is not net.JoinHostPort(link.Hostname(), port)"
	var env callEnv
	for d := 0; d < 3; d++ {
		if inner, e2, ok := seeThrough(P, addr, env); ok {
			addr, env = inner, e2
		}
	}
	if jc, ok := addr.(*ssa.Call); ok && isLibCall(&jc.Call, "net", "", "JoinHostPort") {
		host, port := jc.Call.Args[0], jc.Call.Args[1]
		hostOK := false
		if hc, ok := host.(*ssa.Call); ok && isLibCall(&hc.Call, "net/url", "URL", "Hostname") && env.resolve(hc.Call.Args[0]) == ssa.Value(g.link) {
			hostOK = true
		}
		portOK := true
		var check func(v ssa.Value, d int)
		check = func(v ssa.Value, d int) {
			if d > 3 {
				portOK = false
				return
			}
			switch x := v.(type) {
			case *ssa.Phi:
				for _, e := range x.Edges {
					check(e, d+1)
				}
			case *ssa.Const:
				if s, _ := constString(x); s != "443" {
					portOK = false
				}
			case *ssa.Call:
				if !(isLibCall(&x.Call, "net/url", "URL", "Port") && env.resolve(x.Call.Args[0]) == ssa.Value(g.link)) {
					portOK = false
				}
			default:
				portOK = false
			}
		}
		check(port, 0)
		switch {
		case !hostOK:
			whyAddr = "the dialled host is not the Hostname of the URL being requested"
		case !portOK:
			whyAddr = "the dialled port is not the URL's own port or 443"
		default:
			okAddr = true
		}
	}
	c.check(okAddr, fname+"/dial-address", pos, fname, "dials JoinHostPort(link.Hostname(), link.Port() or \"443\")", whyAddr)
	// only https
	https := false
	lp := path(g.link)
	for _, fact := range factsOf(g.fn).At(g.dial.Block()) {
		cmp, ok := fact.Cmp()
		if !ok || cmp.Op != token.EQL {
			continue
		}
		for _, side := range [][2]ssa.Value{{cmp.X, cmp.Y}, {cmp.Y, cmp.X}} {
			if s, ok := constString(side[1]); ok && s == "https" && path(side[0]) == lp+".&Scheme.*" {
				https = true
			}
		}
	}
	c.check(https, fname+"/dial-https-only", pos, fname, "the dial is dominated by link.Scheme == \"https\"", "a URL whose scheme is not https can be dialled")
}

func c04R4(c *Ctx) {
	P := c.P
	g := analyseGet(P)
	f := c01FlowCached(P)
	isProducer := func(v ssa.Value) string {
		switch x := v.(type) {
		case *ssa.Call:
			if isLibCall(&x.Call, "net/url", "", "Parse") || isLibCall(&x.Call, "net/url", "URL", "Parse") || isLibCall(&x.Call, "net/url", "", "ParseRequestURI") {
				return "url.Parse"
			}
			if isLibCall(&x.Call, "net/url", "URL", "ResolveReference") {
				return "ResolveReference"
			}
			if isLibCall(&x.Call, "net/url", "URL", "JoinPath") {
				return "JoinPath"
			}
		case *ssa.Alloc:
			if n, ok := deref(x.Type()).(*types.Named); ok && n.Obj().Name() == "URL" && n.Obj().Pkg() != nil && n.Obj().Pkg().Path() == "net/url" {
				return "literal"
			}
		}
		return ""
	}
	// url.Parse and literals end the walk; ResolveReference / JoinPath do not:
	// they copy the query and fragment of their argument verbatim, so both the
	// receiver and the argument must themselves be well-formed URLs
	origins, visited := f.Backward(f.val(g.link), func(n int) bool {
		k := f.keys[n]
		if k.kind == nValue {
			if p := isProducer(k.v); p == "url.Parse" || p == "literal" {
				return true
			}
		}
		if k.kind == nMem {
			if a, ok := k.v.(*ssa.Alloc); ok && isProducer(a) != "" {
				return true
			}
		}
		return false
	})
	producers := map[string]int{}
	if os.Getenv("SERVCHECK_DEBUG") != "" {
		for n := range visited {
			fmt.Println("VISITED", f.describe(n, flowEdge{}))
		}
	}
	for n := range visited {
		k := f.keys[n]
		var v ssa.Value
		if k.kind == nValue {
			v = k.v
		}
		if v == nil {
			continue
		}
		kind := isProducer(v)
		if kind == "" {
			continue
		}
		producers[kind]++
		fn := v.Parent()
		construct := FuncName(fn) + "/url-producer:" + kind
		if kind != "literal" {
			c.ok(construct, P.Pos(v.Pos()), FuncName(fn), "URL produced by net/url ("+kind+"), which rejects control characters and escapes paths")
			continue
		}
		// literal: constrain the fields that end up in the request line
		a := v.(*ssa.Alloc)
		problem := ""
		for _, r := range refs(a) {
			fa, ok := r.(*ssa.FieldAddr)
			if !ok {
				continue
			}
			name := fieldOf(fa).Name()
			for _, rr := range refs(fa) {
				st, ok := rr.(*ssa.Store)
				if !ok {
					continue
				}
				_, isConst := st.Val.(*ssa.Const)
				switch name {
				case "Host", "Scheme":
					// Host may be arbitrary text: it is also the dialled name (R3), so a
					// host with control characters never connects; Scheme is tested for https
				case "RawQuery":
					enc := false
					if call, ok := st.Val.(*ssa.Call); ok && isLibCall(&call.Call, "net/url", "Values", "Encode") {
						enc = true
					}
					if !isConst && !enc && !escapedQuery(st.Val) {
						problem = "RawQuery is not url.Values.Encode output"
					}
				default:
					if !isConst {
						problem = "field " + name + " of the URL literal is not a constant"
					}
				}
			}
		}
		c.check(problem == "", construct, P.Pos(v.Pos()), FuncName(fn),
			"URL literal: path/query parts are constants or url.Values.Encode output; Host is also the dialled name", "URL literal can carry content into the request line: "+problem)
	}
	// anything else the URL can come from
	for _, o := range origins {
		k := f.keys[o]
		if k.kind == nValue {
			if isProducer(k.v) != "" {
				continue
			}
			if call, ok := k.v.(*ssa.Call); ok {
				if sc := call.Call.StaticCallee(); sc != nil && P.IsServitorFunc(sc) {
					continue // tuple node of a servitor call: results are modelled through its result slots
				}
			}
			if _, isTuple := k.v.Type().(*types.Tuple); isTuple {
				continue
			}
			if !isNamed(k.v.Type(), "net/url", "URL") {
				continue // not a URL value (strings feeding a producer are cut at the producer)
			}
		} else {
			continue
		}
		fn := k.v.Parent()
		c.bad(FuncName(fn)+"/url-origin", P.Pos(k.v.Pos()), FuncName(fn), "a *url.URL that can reach jtp.Get is not produced by url.Parse / ResolveReference / a checked literal: "+f.describe(o, flowEdge{}))
	}
	c.info("url_producers", producers)
	if producers["url.Parse"] == 0 || producers["ResolveReference"] == 0 {
		broken("C04.R4 found no url.Parse / ResolveReference producer reaching jtp.Get: the provenance walk is not seeing the callers")
	}
}

func c01FlowCached(P *Program) *Flow {
	if f, ok := P.cache["flowC01"]; ok {
		return f.(*Flow)
	}
	f := c01Flow(P)
	P.cache["flowC01"] = f
	return f
}

// escapedQuery: v is a concatenation of constant stretches made of unreserved
// characters, `=` and `&` only, and results of url.QueryEscape — what
// url.Values.Encode itself produces, written out by hand. Nothing in it can be
// a blank, a control character or a `#`.
func escapedQuery(v ssa.Value) bool {
	if str, ok := constString(v); ok {
		for _, r := range str {
			switch {
			case r >= 'a' && r <= 'z', r >= 'A' && r <= 'Z', r >= '0' && r <= '9', r == '-', r == '_', r == '.', r == '~', r == '=', r == '&':
			default:
				return false
			}
		}
		return true
	}
	if b, ok := v.(*ssa.BinOp); ok && b.Op == token.ADD {
		return escapedQuery(b.X) && escapedQuery(b.Y)
	}
	call, ok := v.(*ssa.Call)
	return ok && isLibCall(&call.Call, "net/url", "", "QueryEscape")
}
