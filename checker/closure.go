package main

import (
	"fmt"
	"go/ast"
	"go/token"
	"go/types"
	"os"
	"sort"
	"strings"

	"golang.org/x/tools/go/packages"
)

// closureRound: a local closure that is only ever called — `reset := func() {
// … }` and then `reset()` as a statement — is replaced by its body at every
// call. The rules look at the values carried round loops (phis); a variable
// captured by a closure lives in a heap cell instead, so a refactoring that
// moves repeated statements into such a closure would otherwise hide the state
// of the loop from them. Conditions: defined once with := (or var =) from a
// function literal without results, never reassigned, every use is the callee
// of a call that is a statement of its own (not go/defer) — or, for a closure
// with results, the sole operand of a return statement —, arguments are bound to
// fresh variables first, the body has no return statement (unless it has results) and no label, the closure does
// not call itself, and every free name of the body means the same thing at
// each call site.
func closureRound(pkgs []*packages.Package, overlay map[string][]byte) (map[string][]byte, []string) {
	out := map[string][]byte{}
	var log []string
	for _, pkg := range pkgs {
		if !isServitorPath(pkg.PkgPath) || len(pkg.Errors) > 0 {
			continue
		}
		for _, f := range pkg.Syntax {
			fname := pkg.Fset.File(f.Pos()).Name()
			if strings.HasSuffix(fname, "_test.go") {
				continue
			}
			src := readSource(fname, overlay)
			off := func(p token.Pos) int { return pkg.Fset.Position(p).Offset }
			type edit struct {
				lo, hi int
				text   string
			}
			var edits []edit
			for _, d := range f.Decls {
				fd, ok := d.(*ast.FuncDecl)
				if !ok || fd.Body == nil {
					continue
				}
				// definitions: x := func(...) {...}
				type def struct {
					obj  *types.Var
					lit  *ast.FuncLit
					stmt ast.Stmt
				}
				var defs []def
				ast.Inspect(fd.Body, func(n ast.Node) bool {
					switch s := n.(type) {
					case *ast.AssignStmt:
						if s.Tok == token.DEFINE && len(s.Lhs) == 1 && len(s.Rhs) == 1 {
							if lit, ok := s.Rhs[0].(*ast.FuncLit); ok {
								if id, ok := s.Lhs[0].(*ast.Ident); ok {
									if v, ok := pkg.TypesInfo.Defs[id].(*types.Var); ok {
										defs = append(defs, def{v, lit, s})
									}
								}
							}
						}
					case *ast.DeclStmt:
						if gd, ok := s.Decl.(*ast.GenDecl); ok && gd.Tok == token.VAR && len(gd.Specs) == 1 {
							_, typedFunc := interface{}(nil), false
							if vs0, ok := gd.Specs[0].(*ast.ValueSpec); ok && vs0.Type != nil {
								_, typedFunc = vs0.Type.(*ast.FuncType)
							}
							if vs, ok := gd.Specs[0].(*ast.ValueSpec); ok && len(vs.Names) == 1 && len(vs.Values) == 1 && (vs.Type == nil || typedFunc) {
								if lit, ok := vs.Values[0].(*ast.FuncLit); ok {
									if v, ok := pkg.TypesInfo.Defs[vs.Names[0]].(*types.Var); ok {
										defs = append(defs, def{v, lit, s})
									}
								}
							}
						}
					}
					return true
				})
				if os.Getenv("SERVCHECK_DEBUG_NORM") != "" && len(defs) > 0 {
					fmt.Fprintln(os.Stderr, "closure candidates in", fd.Name.Name, len(defs))
				}
				defObjs := map[types.Object]bool{}
				for _, df := range defs {
					defObjs[df.obj] = true
				}
				for _, df := range defs {
					lit := df.lit
					// leaves first: a closure that calls another local closure waits for a later
					// round, when that call has been replaced by the other's body
					callsOther := false
					ast.Inspect(lit.Body, func(n ast.Node) bool {
						if id, ok := n.(*ast.Ident); ok && defObjs[pkg.TypesInfo.Uses[id]] && pkg.TypesInfo.Uses[id] != types.Object(df.obj) {
							callsOther = true
						}
						return true
					})
					if callsOther {
						continue
					}
					// a closure with results is only substituted where it is returned at once
					// (`return abort(err)`): its own return statements then return from the caller
					hasResults := lit.Type.Results != nil && len(lit.Type.Results.List) > 0
					// the body: no return (unless hasResults), no label, no use of itself, no defer
					okBody := true
					var bareReturns []*ast.ReturnStmt
					ast.Inspect(lit.Body, func(n ast.Node) bool {
						switch x := n.(type) {
						case *ast.FuncLit:
							if x != lit {
								return false
							}
						case *ast.ReturnStmt:
							if !hasResults {
								// a bare return ends the call: it becomes a jump behind the inlined body
								bareReturns = append(bareReturns, x)
							}
						case *ast.DeferStmt, *ast.LabeledStmt:
							okBody = false
						case *ast.Ident:
							if pkg.TypesInfo.Uses[x] == df.obj {
								okBody = false
							}
						}
						return true
					})
					if !okBody {
						if os.Getenv("SERVCHECK_DEBUG_NORM") != "" {
							fmt.Fprintln(os.Stderr, "closure", df.obj.Name(), "not inlined:", "body shape")
						}
						continue
					}
					// every use is `x(args)` as a statement
					type site struct {
						stmt ast.Stmt
						call *ast.CallExpr
					}
					var sites []site
					var blanks []ast.Stmt
					okUses := true
					var stack []ast.Node
					ast.Inspect(fd.Body, func(n ast.Node) bool {
						if n == nil {
							stack = stack[:len(stack)-1]
							return true
						}
						stack = append(stack, n)
						id, ok := n.(*ast.Ident)
						if !ok || pkg.TypesInfo.Uses[id] != df.obj {
							return true
						}
						if len(stack) >= 3 {
							if call, ok := stack[len(stack)-2].(*ast.CallExpr); ok && call.Fun == ast.Expr(id) {
								if es, ok := stack[len(stack)-3].(*ast.ExprStmt); ok && es.X == ast.Expr(call) && !hasResults {
									sites = append(sites, site{es, call})
									return true
								}
								if rs, ok := stack[len(stack)-3].(*ast.ReturnStmt); ok && hasResults && len(rs.Results) == 1 && rs.Results[0] == ast.Expr(call) {
									// not inside another function literal than the one we are in
									inLit := false
									for _, anc := range stack[:len(stack)-3] {
										if _, isLit := anc.(*ast.FuncLit); isLit {
											inLit = true
										}
									}
									if !inLit {
										sites = append(sites, site{rs, call})
										return true
									}
								}
							}
						}
						// `_ = x` (left behind by a parameter binding) goes with the definition
						if len(stack) >= 2 {
							if as, ok := stack[len(stack)-2].(*ast.AssignStmt); ok && as.Tok == token.ASSIGN && len(as.Lhs) == 1 && len(as.Rhs) == 1 && as.Rhs[0] == ast.Expr(id) {
								if b, ok := as.Lhs[0].(*ast.Ident); ok && b.Name == "_" {
									blanks = append(blanks, as)
									return true
								}
							}
						}
						okUses = false
						return true
					})
					if !okUses || len(sites) == 0 {
						if os.Getenv("SERVCHECK_DEBUG_NORM") != "" {
							fmt.Fprintln(os.Stderr, "closure", df.obj.Name(), "not inlined:", "uses")
						}
						continue
					}
					// parameters: simple operands only
					var pnames []string
					var ptypes []string
					okParams := true
					if lit.Type.Params != nil {
						for _, fl := range lit.Type.Params.List {
							if len(fl.Names) == 0 {
								okParams = false
							}
							if _, variadic := fl.Type.(*ast.Ellipsis); variadic {
								okParams = false
							}
							for _, nm := range fl.Names {
								pnames = append(pnames, nm.Name)
								ptypes = append(ptypes, string(src[off(fl.Type.Pos()):off(fl.Type.End())]))
							}
						}
					}
					if !okParams {
						if os.Getenv("SERVCHECK_DEBUG_NORM") != "" {
							fmt.Fprintln(os.Stderr, "closure", df.obj.Name(), "not inlined:", "params")
						}
						continue
					}
					// free names mean the same at every call site
					okNames := true
					selNames := map[*ast.Ident]bool{} // x.Sel is resolved through x
					ast.Inspect(lit.Body, func(n ast.Node) bool {
						if se, ok := n.(*ast.SelectorExpr); ok {
							selNames[se.Sel] = true
						}
						return true
					})
					ast.Inspect(lit.Body, func(n ast.Node) bool {
						id, ok := n.(*ast.Ident)
						if !ok || selNames[id] {
							return true
						}
						obj := pkg.TypesInfo.Uses[id]
						if obj == nil || obj.Pos() >= lit.Pos() && obj.Pos() <= lit.End() {
							return true
						}
						if v, isVar := obj.(*types.Var); isVar && v.IsField() {
							return true
						}
						if obj.Parent() == types.Universe || obj.Pkg() == nil {
							return true
						}
						for _, st := range sites {
							sc := pkg.Types.Scope().Innermost(st.stmt.Pos())
							if sc == nil {
								okNames = false
								continue
							}
							if _, found := sc.LookupParent(id.Name, st.stmt.Pos()); found != obj {
								okNames = false
							}
						}
						return true
					})
					if !okNames {
						if os.Getenv("SERVCHECK_DEBUG_NORM") != "" {
							fmt.Fprintln(os.Stderr, "closure", df.obj.Name(), "not inlined:", "names")
						}
						continue
					}
					body := string(src[off(lit.Body.Lbrace) : off(lit.Body.Rbrace)+1])
					okSites := true
					var siteEdits []edit
					for _, st := range sites {
						if len(st.call.Args) != len(pnames) || st.call.Ellipsis.IsValid() {
							okSites = false
							break
						}
						var pre strings.Builder
						for i, a := range st.call.Args {
							if pnames[i] == "_" {
								fmt.Fprintf(&pre, "var _ %s = %s\n", ptypes[i], string(src[off(a.Pos()):off(a.End())]))
								continue
							}
							fmt.Fprintf(&pre, "var %s %s = %s\n_ = %s\n", pnames[i], ptypes[i], string(src[off(a.Pos()):off(a.End())]), pnames[i])
						}
						text := body
						if len(bareReturns) > 0 {
							// `return` -> `goto <label>`, the label right behind the body
							label := fmt.Sprintf("_clret%d", off(st.stmt.Pos()))
							base := off(lit.Body.Lbrace)
							rs := append([]*ast.ReturnStmt{}, bareReturns...)
							sort.Slice(rs, func(i, j int) bool { return rs[i].Pos() > rs[j].Pos() })
							for _, r := range rs {
								text = text[:off(r.Pos())-base] + "goto " + label + text[off(r.End())-base:]
							}
							text = "{\n" + pre.String() + text + "\n}\n" + label + ":\n;"
						} else if pre.Len() > 0 {
							text = "{\n" + pre.String() + body + "\n}"
						}
						siteEdits = append(siteEdits, edit{off(st.stmt.Pos()), off(st.stmt.End()), text})
					}
					if !okSites {
						if os.Getenv("SERVCHECK_DEBUG_NORM") != "" {
							fmt.Fprintln(os.Stderr, "closure", df.obj.Name(), "not inlined:", "sites")
						}
						continue
					}
					edits = append(edits, siteEdits...)
					for _, bs := range blanks {
						edits = append(edits, edit{off(bs.Pos()), off(bs.End()), ""})
					}
					// the definition goes
					lo, hi := off(df.stmt.Pos()), off(df.stmt.End())
					edits = append(edits, edit{lo, hi, ""})
					log = append(log, fmt.Sprintf("local closure inlined: %s in %s.%s (%d calls)", df.obj.Name(), pkg.PkgPath, fd.Name.Name, len(sites)))
				}
			}
			if len(edits) == 0 {
				continue
			}
			sort.Slice(edits, func(i, j int) bool { return edits[i].lo > edits[j].lo })
			okFile := true
			for i := 1; i < len(edits); i++ {
				if edits[i].hi > edits[i-1].lo {
					okFile = false
				}
			}
			if !okFile {
				log = append(log, "local closures not inlined (overlapping edits) in "+fname)
				continue
			}
			buf := append([]byte{}, src...)
			for _, e := range edits {
				buf = append(buf[:e.lo], append([]byte(e.text), buf[e.hi:]...)...)
			}
			out[fname] = buf
		}
	}
	return out, log
}
