package main

import (
	"fmt"
	"go/token"
	"go/types"
	"os"
	"strings"

	"golang.org/x/tools/go/ssa"
)

// Non-nil reasoning shared by C06 (value+Err pairs), C11 and C20.

type nonNil struct {
	P    *Program
	memo map[string]int // 1 yes, -1 no, 0 in progress
}

func newNonNil(P *Program) *nonNil { return &nonNil{P: P, memo: map[string]int{}} }

// freshReturning: every return of fn returns, at index idx, a freshly
// allocated object (address of a composite literal / new) or the result of
// such a function.
func (nn *nonNil) freshReturning(fn *ssa.Function, idx int) bool {
	key := "fresh:" + fn.String() + ":" + string(rune('0'+idx))
	if v, ok := nn.memo[key]; ok {
		return v == 1
	}
	nn.memo[key] = 0
	ok := len(fn.Blocks) > 0
	for _, b := range fn.Blocks {
		ret, isRet := b.Instrs[len(b.Instrs)-1].(*ssa.Return)
		if !isRet {
			continue
		}
		if idx >= len(ret.Results) || !nn.Value(ret.Results[idx], b, 0) {
			ok = false
		}
	}
	if ok {
		nn.memo[key] = 1
	} else {
		nn.memo[key] = -1
	}
	return ok
}

// Value: v is provably non-nil at block b.
func (nn *nonNil) Value(v ssa.Value, b *ssa.BasicBlock, depth int) bool {
	if depth > 6 || v == nil {
		return false
	}
	if isNilConst(v) {
		return false
	}
	switch x := v.(type) {
	case *ssa.Alloc:
		return true
	case *ssa.MakeInterface:
		// an interface holding a possibly-nil pointer is non-nil as an
		// interface, but useless: demand the operand to be non-nil too
		if _, isPtr := x.X.Type().Underlying().(*types.Pointer); isPtr {
			return nn.Value(x.X, b, depth+1)
		}
		return true
	case *ssa.MakeMap, *ssa.MakeSlice, *ssa.MakeClosure, *ssa.MakeChan, *ssa.Function:
		return true
	case *ssa.FieldAddr, *ssa.IndexAddr:
		return true
	case *ssa.ChangeType:
		return nn.Value(x.X, b, depth+1)
	case *ssa.Slice:
		return true
	case *ssa.Const:
		return x.Value != nil
	case *ssa.Call:
		if sc := x.Call.StaticCallee(); sc != nil && nn.P.IsServitorFunc(sc) && sc.Signature.Results().Len() == 1 {
			if nn.freshReturning(sc, 0) {
				return true
			}
		}
		if isLibCall(&x.Call, "errors", "", "New") || isLibCall(&x.Call, "fmt", "", "Errorf") || isLibCall(&x.Call, "strings", "", "NewReader") {
			return true
		}
		if isLibCall(&x.Call, "net/url", "URL", "ResolveReference") || isLibCall(&x.Call, "net/url", "URL", "JoinPath") {
			return true // documented to return a fresh URL
		}
	case *ssa.TypeAssert:
		// single-result assertion to a pointer type: panics unless it holds;
		// by the module-wide invariant (C11.R1) interfaces never hold nil item pointers
		if !x.CommaOk {
			if _, isPtr := x.AssertedType.Underlying().(*types.Pointer); isPtr && isItemPointer(x.AssertedType) {
				return true
			}
		}
	case *ssa.Extract:
		if ta, ok := x.Tuple.(*ssa.TypeAssert); ok && x.Index == 0 {
			if _, isPtr := ta.AssertedType.Underlying().(*types.Pointer); isPtr && isItemPointer(ta.AssertedType) {
				okv := false
				for _, f := range factsOf(b.Parent()).At(b) {
					if ex, ok := f.Cond.(*ssa.Extract); ok && ex.Tuple == ssa.Value(ta) && ex.Index == 1 && f.Truth {
						okv = true
					}
				}
				if okv {
					return true // successful assertion; non-nil by the invariant of C11.R1
				}
			}
		}
		if call, ok := x.Tuple.(*ssa.Call); ok && call.Call.StaticCallee() == nil && !call.Call.IsInvoke() {
			// a call through a function value: every function it can be is a sound producer
			callees := nn.P.Callees(call)
			n := call.Call.Signature().Results().Len()
			if len(callees) > 0 && n >= 2 && isErrorType(call.Call.Signature().Results().At(n-1).Type()) && x.Index < n-1 {
				if e := resultValue(call, n-1); e != nil && knownNil(e, b) {
					all := true
					for _, callee := range callees {
						if !nn.P.IsServitorFunc(callee) || !nn.producerSound(callee, x.Index) {
							all = false
						}
					}
					if all {
						return true
					}
				}
			}
		}
		if call, ok := x.Tuple.(*ssa.Call); ok {
			if sc := call.Call.StaticCallee(); sc != nil && nn.P.IsServitorFunc(sc) {
				if nn.freshReturning(sc, x.Index) {
					return true
				}
				// value+error producer: non-nil whenever its error is nil, and the error is known nil here
				n := sc.Signature.Results().Len()
				if n >= 2 && isErrorType(sc.Signature.Results().At(n-1).Type()) && x.Index < n-1 {
					if e := resultValue(call, n-1); e != nil && knownNil(e, b) && nn.producerSound(sc, x.Index) {
						return true
					}
					// (value, found bool, error): non-nil whenever the error is nil and found is true
					if e := resultValue(call, n-1); e != nil && knownNil(e, b) {
						for j := 0; j < n-1; j++ {
							if j == x.Index || !types.Identical(sc.Signature.Results().At(j).Type(), types.Typ[types.Bool]) {
								continue
							}
							flag := resultValue(call, j)
							if flag == nil {
								continue
							}
							if hasBoolFact(factsOf(b.Parent()).At(b), func(c ssa.Value) bool { return c == flag }, true) && nn.producerSoundFlag(sc, x.Index, j) {
								return true
							}
						}
					}
				}
			}
			if (isLibCall(&call.Call, "net/url", "", "Parse") || isLibCall(&call.Call, "net/url", "URL", "Parse") || isLibCall(&call.Call, "net/url", "", "ParseRequestURI")) && x.Index == 0 {
				if e := resultValue(call, 1); e != nil && knownNil(e, b) {
					return true // url.Parse returns a non-nil URL with a nil error
				}
			}
			// the source reported with a successfully fetched document is the URL
			// that was requested, which was dereferenced on the way (C02.R4
			// success-source, C02.R5 return): non-nil whenever the error is nil
			if sc := call.Call.StaticCallee(); sc != nil && x.Index == 1 && (sc.String() == "servitor/jtp.Get" || sc.String() == "servitor/client.FetchURL") {
				if e := resultValue(call, 2); e != nil && knownNil(e, b) {
					return true
				}
			}
		}
	case *ssa.Phi:
		// coinductive: a phi currently being judged is assumed non-nil on its
		// own back edges (loop-carried "best so far" variables)
		pk := "phi:" + x.Parent().String() + ":" + x.Name()
		if st, ok := nn.memo[pk]; ok {
			return st >= 0
		}
		nn.memo[pk] = 0
		defer func() { delete(nn.memo, pk) }()
		all := true
		for k, ed := range x.Edges {
			pred := x.Block().Preds[k]
			okEdge := false
			withEdge(pred, x.Block(), func() { okEdge = nn.Value(ed, pred, depth+1) })
			if !okEdge {
				all = false
			}
		}
		if all {
			return true
		}
		return knownNonNil(v, b)
	case *ssa.Parameter:
		if knownNonNil(v, b) {
			return true
		}
		return nn.paramNonNil(x)
	case *ssa.UnOp:
		if x.Op == token.MUL {
			if knownNonNil(v, b) {
				return true
			}
			// element of a slice all of whose slots hold checked constructor results
			if ia, ok := x.X.(*ssa.IndexAddr); ok && nn.elemsNonNil(ia.X, map[ssa.Value]bool{}, 0) {
				return true
			}
			// field of a value+Err pair, under XErr == nil
			if fa, ok := x.X.(*ssa.FieldAddr); ok {
				if nn.pairGuarded(fa, b) {
					return true
				}
			}
			// local variable assigned once
			if w := unwrapLoad(v); w != v {
				if w.Parent() != nil && w.Parent() != b.Parent() {
					// captured from an enclosing function: judge it where the closure is created
					if mb := closureCreationBlock(b.Parent(), w.Parent()); mb != nil {
						return nn.Value(w, mb, depth+1)
					}
					return false
				}
				return nn.Value(w, b, depth+1)
			}
		}
	}
	return knownNonNil(v, b)
}

// paramNonNil: every servitor call site passes a provably non-nil argument.
func (nn *nonNil) paramNonNil(p *ssa.Parameter) bool {
	fn := p.Parent()
	key := "param:" + fn.String() + ":" + p.Name()
	if v, ok := nn.memo[key]; ok {
		return v == 1
	}
	nn.memo[key] = 0
	idx := -1
	for i, q := range fn.Params {
		if q == p {
			idx = i
		}
	}
	callers := nn.P.Callers(fn)
	ok := len(callers) > 0 && idx >= 0
	for _, e := range callers {
		if e.Site == nil || !nn.P.IsServitorFunc(e.Caller.Func) {
			ok = false
			break
		}
		cc := e.Site.Common()
		args := cc.Args
		if cc.IsInvoke() {
			if idx == 0 {
				// receiver of a dynamically dispatched call: the interface was
				// non-nil (or the call panicked before entering) and, by the
				// module-wide invariant established by C11.R1, interfaces never
				// hold nil item pointers
				continue
			}
			args = append([]ssa.Value{cc.Value}, cc.Args...)
		}
		if idx >= len(args) || !nn.Value(args[idx], e.Site.Block(), 1) {
			if os.Getenv("SERVCHECK_DEBUG_NONNIL") != "" {
				fmt.Fprintf(os.Stderr, "paramNonNil %s.%s: not proven at %s (%v)\n", fn, p.Name(), nn.P.InstrPos(e.Site), args[idx])
			}
			ok = false
			break
		}
	}
	if ok {
		nn.memo[key] = 1
	} else {
		nn.memo[key] = -1
	}
	return ok
}

// errSibling finds the XErr field paired with field X in the same struct.
func errSibling(f *types.Var, owner *types.Named) *types.Var {
	if owner == nil {
		return nil
	}
	st, ok := owner.Underlying().(*types.Struct)
	if !ok {
		return nil
	}
	want := f.Name() + "Err"
	// groups such as parentObject/parentIdentifier/parentErr, body/bodyLinks/bodyErr
	for i := 0; i < st.NumFields(); i++ {
		if st.Field(i).Name() == want && isErrorType(st.Field(i).Type()) {
			return st.Field(i)
		}
	}
	best := ""
	var bestF *types.Var
	for i := 0; i < st.NumFields(); i++ {
		g := st.Field(i)
		if !isErrorType(g.Type()) || !strings.HasSuffix(g.Name(), "Err") {
			continue
		}
		stem := strings.TrimSuffix(g.Name(), "Err")
		if strings.HasPrefix(f.Name(), stem) && len(stem) > len(best) {
			best = stem
			bestF = g
		}
	}
	return bestF
}

// pairGuarded: the load of field X through fa happens where XErr == nil is
// known for the same object, and every producer stored into the pair is sound.
func (nn *nonNil) pairGuarded(fa *ssa.FieldAddr, b *ssa.BasicBlock) bool {
	f := fieldOf(fa)
	owner := structOwner(fa)
	ef := errSibling(f, owner)
	if ef == nil {
		return false
	}
	base := path(fa.X)
	guarded := false
	for _, fact := range factsOf(b.Parent()).At(b) {
		cmp, ok := fact.Cmp()
		if !ok || cmp.Op != token.EQL {
			continue
		}
		for _, side := range [][2]ssa.Value{{cmp.X, cmp.Y}, {cmp.Y, cmp.X}} {
			if !isNilConst(side[1]) {
				continue
			}
			if u, ok := side[0].(*ssa.UnOp); ok && u.Op == token.MUL {
				if efa, ok := u.X.(*ssa.FieldAddr); ok && fieldOf(efa) == ef && path(efa.X) == base {
					guarded = true
				}
			}
		}
	}
	if !guarded {
		return false
	}
	return nn.pairSound(f, ef)
}

// pairGuardedFactOnly: XErr == nil is known for the object whose field X is
// accessed through fa (without demanding producer soundness).
func (nn *nonNil) pairGuardedFactOnly(fa *ssa.FieldAddr, b *ssa.BasicBlock) bool {
	f := fieldOf(fa)
	ef := errSibling(f, structOwner(fa))
	if ef == nil {
		return false
	}
	base := path(fa.X)
	for _, fact := range factsOf(b.Parent()).At(b) {
		cmp, ok := fact.Cmp()
		if !ok || cmp.Op != token.EQL {
			continue
		}
		for _, side := range [][2]ssa.Value{{cmp.X, cmp.Y}, {cmp.Y, cmp.X}} {
			if !isNilConst(side[1]) {
				continue
			}
			if u, ok := side[0].(*ssa.UnOp); ok && u.Op == token.MUL {
				if efa, ok := u.X.(*ssa.FieldAddr); ok && fieldOf(efa) == ef && path(efa.X) == base {
					return true
				}
			}
		}
	}
	return false
}

// pairSound: everywhere X and XErr are stored together, X is non-nil whenever
// the stored error is nil (the producers are sound value+error functions).
func (nn *nonNil) pairSound(f, ef *types.Var) bool {
	key := "pair:" + f.Name() + "/" + ef.Name() + ":" + f.Pkg().Path()
	if v, ok := nn.memo[key]; ok {
		return v == 1
	}
	nn.memo[key] = 0
	ok := true
	n := 0
	for _, fn := range nn.P.Funcs {
		eachInstr(fn, func(b *ssa.BasicBlock, _ int, in ssa.Instruction) {
			st, isSt := in.(*ssa.Store)
			if !isSt {
				return
			}
			fa, isFA := st.Addr.(*ssa.FieldAddr)
			if !isFA || fieldOf(fa) != f {
				return
			}
			n++
			// the value: result #i of a call whose error is stored into ef in the same block
			ex, isEx := st.Val.(*ssa.Extract)
			if !isEx {
				if !nn.Value(st.Val, b, 1) {
					ok = false
				}
				return
			}
			call, isCall := ex.Tuple.(*ssa.Call)
			if !isCall {
				ok = false
				return
			}
			paired := false
			for _, in2 := range b.Instrs {
				if st2, ok2 := in2.(*ssa.Store); ok2 {
					if fa2, ok3 := st2.Addr.(*ssa.FieldAddr); ok3 && fieldOf(fa2) == ef && path(fa2.X) == path(fa.X) {
						if ex2, ok4 := st2.Val.(*ssa.Extract); ok4 && ex2.Tuple == ex.Tuple {
							paired = true
						}
					}
				}
			}
			if !paired {
				ok = false
				return
			}
			for _, callee := range nn.P.Callees(call) {
				if !nn.P.IsServitorFunc(callee) || !nn.producerSound(callee, ex.Index) {
					ok = false
				}
			}
		})
	}
	if n == 0 {
		ok = false
	}
	if ok {
		nn.memo[key] = 1
	} else {
		nn.memo[key] = -1
	}
	return ok
}

// producerSoundFlag: every return of fn whose error may be nil and whose bool
// result #flag may be true returns a non-nil value at index idx.
func (nn *nonNil) producerSoundFlag(fn *ssa.Function, idx, flag int) bool {
	if len(fn.Blocks) == 0 {
		return false
	}
	for _, b := range fn.Blocks {
		ret, isRet := b.Instrs[len(b.Instrs)-1].(*ssa.Return)
		if !isRet {
			continue
		}
		if provablyNonNilErr(ret.Results[len(ret.Results)-1], b, 0) {
			continue
		}
		if k, ok := ret.Results[flag].(*ssa.Const); ok && k.Value != nil && k.Value.ExactString() == "false" {
			continue
		}
		if !nn.Value(ret.Results[idx], b, 1) {
			return false
		}
	}
	return true
}

// producerSound: every return of fn whose error result may be nil returns a
// non-nil value at index idx.
func (nn *nonNil) producerSound(fn *ssa.Function, idx int) bool {
	key := "prod:" + fn.String() + ":" + string(rune('0'+idx))
	if v, ok := nn.memo[key]; ok {
		return v != -1
	}
	nn.memo[key] = 0
	res := fn.Signature.Results()
	ok := res.Len() >= 2 && isErrorType(res.At(res.Len()-1).Type()) && len(fn.Blocks) > 0
	for _, b := range fn.Blocks {
		ret, isRet := b.Instrs[len(b.Instrs)-1].(*ssa.Return)
		if !isRet || !ok {
			continue
		}
		e := ret.Results[len(ret.Results)-1]
		if provablyNonNilErr(e, b, 0) {
			continue
		}
		v := ret.Results[idx]
		if nn.Value(v, b, 1) {
			continue
		}
		// forwarding: return g(...) / return x, err where (x, err) are results of one sound producer
		fv := v
		if mi, ok := fv.(*ssa.MakeInterface); ok {
			fv = mi.X
		}
		if ct, ok := fv.(*ssa.ChangeType); ok {
			fv = ct.X
		}
		if ex, isEx := fv.(*ssa.Extract); isEx {
			if call, isCall := ex.Tuple.(*ssa.Call); isCall {
				if eex, isE := e.(*ssa.Extract); isE && eex.Tuple == ex.Tuple {
					sound := true
					for _, callee := range nn.P.Callees(call) {
						if !nn.P.IsServitorFunc(callee) || !nn.producerSound(callee, ex.Index) {
							sound = false
						}
					}
					if sound && len(nn.P.Callees(call)) > 0 {
						continue
					}
				}
			}
		}
		ok = false
	}
	if ok {
		nn.memo[key] = 1
	} else {
		nn.memo[key] = -1
	}
	return ok
}

// closureCreationBlock: the block of ancestor `outer` in which the closure
// chain leading to fn is created.
func closureCreationBlock(fn, outer *ssa.Function) *ssa.BasicBlock {
	for fn != nil && fn.Parent() != outer {
		fn = fn.Parent()
	}
	if fn == nil {
		return nil
	}
	var blk *ssa.BasicBlock
	eachInstr(outer, func(b *ssa.BasicBlock, _ int, in ssa.Instruction) {
		if mc, ok := in.(*ssa.MakeClosure); ok && mc.Fn == ssa.Value(fn) {
			blk = b
		}
	})
	return blk
}

// elemsNonNil: every element of slice value s is non-nil: s is (a sub-slice
// of) the result of a function that fills every slot with a checked
// constructor result before returning it with a nil error.
func (nn *nonNil) elemsNonNil(s ssa.Value, seen map[ssa.Value]bool, depth int) bool {
	if seen[s] || depth > 8 {
		return depth <= 8
	}
	seen[s] = true
	switch x := unwrapLoad(s).(type) {
	case *ssa.Slice:
		return nn.elemsNonNil(x.X, seen, depth+1)
	case *ssa.Phi:
		for _, e := range x.Edges {
			if !nn.elemsNonNil(e, seen, depth+1) {
				return false
			}
		}
		return true
	case *ssa.Parameter:
		fn := x.Parent()
		idx := -1
		for i, p := range fn.Params {
			if p == x {
				idx = i
			}
		}
		callers := nn.P.Callers(fn)
		if len(callers) == 0 {
			return false
		}
		for _, e := range callers {
			if e.Site == nil || !nn.P.IsServitorFunc(e.Caller.Func) {
				return false
			}
			args := e.Site.Common().Args
			if idx >= len(args) || !nn.elemsNonNil(args[idx], seen, depth+1) {
				return false
			}
		}
		return true
	case *ssa.Extract:
		call, ok := x.Tuple.(*ssa.Call)
		if !ok {
			return false
		}
		sc := call.Call.StaticCallee()
		if sc == nil || !nn.P.IsServitorFunc(sc) {
			return false
		}
		return nn.fillsAllSlots(sc, x.Index)
	}
	return false
}

// fillsAllSlots: fn returns (at index idx, with a nil error) a slice made with
// len(list) elements, and a range loop over the same list stores a provably
// non-nil value into slot [range index] on every path that continues the loop.
func (nn *nonNil) fillsAllSlots(fn *ssa.Function, idx int) bool {
	key := "slots:" + fn.String()
	if v, ok := nn.memo[key]; ok {
		return v == 1
	}
	nn.memo[key] = -1
	var mk *ssa.MakeSlice
	for _, b := range fn.Blocks {
		ret, ok := b.Instrs[len(b.Instrs)-1].(*ssa.Return)
		if !ok {
			continue
		}
		e := ret.Results[len(ret.Results)-1]
		if provablyNonNilErr(e, b, 0) {
			continue
		}
		m, ok := unwrapLoad(ret.Results[idx]).(*ssa.MakeSlice)
		if !ok {
			return false
		}
		if mk != nil && mk != m {
			return false
		}
		mk = m
	}
	if mk == nil {
		return false
	}
	// size = len(list)
	lc, ok := mk.Len.(*ssa.Call)
	if !ok {
		return false
	}
	bi, ok := lc.Call.Value.(*ssa.Builtin)
	if !ok || bi.Name() != "len" {
		return false
	}
	list := lc.Call.Args[0]
	// stores into mk[rangeindex] of non-nil values; the range is over `list`
	var header *ssa.BasicBlock
	stores := 0
	okAll := true
	for _, r := range refs(mk) {
		ia, ok := r.(*ssa.IndexAddr)
		if !ok {
			continue
		}
		bo, ok := ia.Index.(*ssa.BinOp)
		if !ok {
			continue
		}
		ph, ok := bo.X.(*ssa.Phi)
		if !ok || ph.Comment != "rangeindex" {
			okAll = false
			continue
		}
		header = ph.Block()
		for _, rr := range refs(ia) {
			if st, ok := rr.(*ssa.Store); ok {
				stores++
				if !nn.Value(st.Val, st.Block(), 1) {
					okAll = false
				}
			}
		}
		// the loop bound is len(list)
		bound := false
		for _, rr := range refs(bo) {
			if cmp, ok := rr.(*ssa.BinOp); ok && cmp.Op == token.LSS {
				if l2, ok := cmp.Y.(*ssa.Call); ok {
					if b2, ok := l2.Call.Value.(*ssa.Builtin); ok && b2.Name() == "len" && (l2.Call.Args[0] == list || path(l2.Call.Args[0]) == path(list)) {
						bound = true
					}
				}
			}
		}
		if !bound {
			okAll = false
		}
	}
	if !okAll || stores == 0 || header == nil {
		return false
	}
	// every way back to the loop header from the loop body passes a store into the slice
	body := header.Succs[0]
	paths, complete := enumeratePathsFrom(fn, body, header, 500)
	if !complete || len(paths) == 0 {
		return false
	}
	for _, pf := range paths {
		has := false
		for _, b := range pf.blocks {
			for _, in := range b.Instrs {
				if st, ok := in.(*ssa.Store); ok {
					if ia, ok := st.Addr.(*ssa.IndexAddr); ok && ia.X == ssa.Value(mk) {
						has = true
					}
				}
			}
		}
		if !has {
			return false
		}
	}
	nn.memo[key] = 1
	return true
}
