package main

import (
	"fmt"
	"go/constant"
	"go/token"
	"go/types"
	"regexp/syntax"
	"strings"

	"golang.org/x/tools/go/ssa"
)

// C14 — a typestate of strings. A styled text is in *normal form* when it is a
// sequence of
//
//	plain characters and line feeds, with no attribute active, and
//	units  ESC[..m … ESC[..m  c  ESC[0m   (openers, ONE character, reset)
//
// In a normal-form text every character carries exactly the attributes of its
// own unit, nothing is active at a line feed or at the end, and any
// concatenation, repetition, split or cut at line feeds of normal-form texts is
// in normal form again. The property holds if (R1) the only emitter of escape
// sequences, ansi.Apply, adds its style to each character's own unit and
// closes it; (R2) every function of the layout and style layer returns normal
// form when given normal form — decided by running an automaton (closed →
// opened → lettered → closed) over what each returned string is concatenated
// from: constants (lexed), pieces of a match of ansi.expand (match[0] a whole
// unit, match[1] its openers, match[2] its character), parameters, values
// already known to be in normal form; accumulators in loops are handled
// coinductively (assume the phi is normal form, show every edge is); (R3)
// nobody outside package ansi looks inside a styled text (slices it, indexes
// it, converts it to runes or bytes, ranges over it, or hands it to a library
// function that edits characters): styled strings only travel, get
// concatenated and are measured; (R4) escape bytes occur in constants of
// package ansi only.

func init() {
	registry["C14"] = func() *Property {
		return &Property{
			ID:          "C14",
			Explanation: "A typestate of strings, decided statically. A styled text is in normal form when it consists of plain characters and line feeds with no attribute active, and of units `openers, one character, reset`; in such a text every character carries exactly the attributes of its own unit and nothing is active at a line feed or at the end, and concatenating, repeating, splitting or cutting normal-form texts at line feeds keeps the form. Decided: (R1) ansi.Apply, the only emitter of escape sequences, emits for every character other than a line feed exactly one opener carrying its style parameter, the character's own previous openers, the character and a reset, and emits line feeds bare: the style is added to each character's own unit and to nothing else; (R2) every function of packages ansi and style that returns a string returns normal form when its text parameters are in normal form: an automaton (closed, opened, lettered) is run over what each returned value is concatenated from — lexed constants, pieces of a match of ansi.expand (match[0] a whole unit, match[1] its openers, match[2] its character, a line feed only where the path knows it is none), parameters, slices of matches, results of the functions themselves and of form-preserving library calls (Repeat, Join/Split at line feeds, cuts at the index of a line feed, trimming of blanks) — with loop accumulators treated coinductively; (R3) outside package ansi no instruction looks inside a string that can carry styling (forward value flow from every ansi.Apply result to string slicing, indexing, conversion to runes or bytes, ranging, and character-editing library calls); (R4) escape bytes occur only in constants of package ansi. Together: every string the styling layer hands out is in normal form by induction over the calls. (R5) every style handed to ansi.Apply, directly or through the functions of the style layer that pass a parameter on as the start of it, starts with a constant SGR code that is neither empty nor the reset code (ESC[m and ESC[0m switch every attribute off). (R6 = C13.R0) a match of ansi.expand holds exactly one visible character, so a line feed is a match of its own and is never styled. (R7 = C19.R2) the configured colours are outputs of hexToAnsi. (R8) attributes that are visible on blanks — underline, strike-through, background — are never applied, inside package style, to text that already holds the layout blanks of ansi.Indent / ansi.Pad. (R9) packages style and ansi read no environment, clock or locale. (R10) ansi.Apply tells only the line feed apart and does not look at the style it applies. NOT decided: the terminal's interpretation of SGR parameters, that the style parameter is a valid SGR parameter (C01.R3 decides that it is built from constants and validated colours), and content preservation by the layout functions (C13).",
			Assumptions: []string{"regexp semantics of ansi.expand's pattern (checked in C13.R0): a match is openers, one character, an optional reset", "string parameters of the ansi and style functions are texts in normal form or plain texts (by induction: R3 shows nothing else can be made outside)", "a terminal applies ESC[0m as 'all attributes off'"},
			Rules: []Rule{
				{ID: "C14.R1", Title: "ansi.Apply adds its style to each character's own unit and closes it", Floor: 3, Run: c14R1},
				{ID: "C14.R2", Title: "the layout and style functions return normal form for normal form", Floor: 25, Run: c14R2},
				{ID: "C14.R3", Title: "nobody outside package ansi looks inside a styled text", Floor: 1, Run: c14R3},
				{ID: "C14.R4", Title: "escape bytes occur in constants of package ansi only", Floor: 1, Run: c14R4},
				{ID: "C14.R5", Title: "every style handed to ansi.Apply starts with a constant, non-resetting SGR code", Floor: 6, Run: c14R5},
				{ID: "C14.R6", Title: "a match of ansi.expand holds exactly one visible character, so a line feed is always a match of its own and is never styled (same instances as C13.R0)", Floor: 2, Run: c13R0},
				{ID: "C14.R10", Title: "ansi.Apply gives every visible character the style it is called with: the line feed is the only character it tells apart, and it does not look at what the style is", Floor: 1, Run: c14R10},
				{ID: "C14.R9", Title: "the attributes a text is shown with depend on the style calls alone: packages style and ansi read no environment, clock or locale", Floor: 0, Run: c14R9},
				{ID: "C14.R8", Title: "attributes that show on blanks (underline, strike-through, background) are applied to text, not to the blanks the style layer adds for layout: in package style nothing that comes out of ansi.Indent or ansi.Pad is handed to Underline, Strikethrough, Link or a background colour", Floor: 2, Run: c14R8},
				{ID: "C14.R7", Title: "the configured colours that end up behind ESC[38;2; are outputs of hexToAnsi: digits and semicolons (same instances as C19.R2)", Floor: 7, Run: c19R2},
			},
		}
	}
}

// ------------------------------------------------------------ events

type sgKind int

const (
	evTXT sgKind = iota // a plain visible character (or several)
	evNL                // a line feed
	evNF                // a whole text in normal form
	evOP                // an opener ESC[..m
	evPRE               // the openers of a match (possibly none)
	evLET               // the character of a match
	evRST               // ESC[0m
	evBAD
)

type sgEvent struct {
	kind   sgKind
	match  ssa.Value   // for PRE / LET
	nonNL  bool        // LET known not to be a line feed
	params []ssa.Value // OP: parameters spliced into the SGR parameter
	what   string
}

type nfa struct {
	P            *Program
	state        map[ssa.Value]int // 1 assumed (in progress), 2 yes, 3 no
	why          map[ssa.Value]string
	sgrParams    map[*ssa.Parameter]bool // parameters used as SGR parameter text
	busy         map[ssa.Value]bool
	sgrLead      map[*ssa.Parameter]bool // ... and directly behind ESC[
	cleanGlobals map[*ssa.Global]bool
}

func newNFA(P *Program) *nfa {
	return &nfa{P: P, state: map[ssa.Value]int{}, why: map[ssa.Value]string{}, sgrParams: map[*ssa.Parameter]bool{}, busy: map[ssa.Value]bool{}, sgrLead: map[*ssa.Parameter]bool{}, cleanGlobals: map[*ssa.Global]bool{}}
}

func inAnsi(fn *ssa.Function) bool {
	if fn == nil || fn.Pkg == nil {
		return false
	}
	if lp, ok := logicalPkg[fn]; ok {
		return lp == "servitor/ansi" // a function of ansi that moved to the package that uses it
	}
	return fn.Pkg.Pkg.Path() == "servitor/ansi"
}

func inStyleLayer(fn *ssa.Function) bool {
	if fn == nil || fn.Pkg == nil {
		return false
	}
	p := fn.Pkg.Pkg.Path()
	if lp, ok := logicalPkg[fn]; ok {
		p = lp // a function of the layer that moved to the package that uses it
	}
	return p == "servitor/ansi" || p == "servitor/style"
}

// isMatches: v is a slice of matches of ansi.expand (on a text in normal form).
func (a *nfa) isMatches(v ssa.Value, d int) bool {
	if d > 24 {
		return false
	}
	v = unwrapLoad(v)
	if a.busy[v] {
		return true
	}
	a.busy[v] = true
	defer delete(a.busy, v)
	switch x := v.(type) {
	case *ssa.Call:
		if sc := x.Call.StaticCallee(); inAnsi(sc) && sc.Name() == "expand" {
			return a.NF(x.Call.Args[0])
		}
	case *ssa.Slice:
		return a.isMatches(x.X, d+1)
	case *ssa.Phi:
		for _, e := range x.Edges {
			if e != ssa.Value(x) && !a.isMatches(e, d+1) {
				return false
			}
		}
		return true
	case *ssa.Parameter:
		return inAnsi(x.Parent()) && x.Type().String() == "[][]string"
	}
	return false
}

// matchOf: v is one match (an element of a slice of matches); the identity of
// the match is the value of that element.
func (a *nfa) matchOf(v ssa.Value) (ssa.Value, bool) {
	switch x := v.(type) {
	case *ssa.UnOp:
		if x.Op == token.MUL {
			if ia, ok := x.X.(*ssa.IndexAddr); ok && a.isMatches(ia.X, 0) {
				return x, true
			}
		}
	case *ssa.Index:
		if a.isMatches(x.X, 0) {
			return x, true
		}
	}
	return nil, false
}

// piece: v is element k of a match.
func (a *nfa) piece(v ssa.Value) (m ssa.Value, k int64, ok bool) {
	var base, idx ssa.Value
	switch x := v.(type) {
	case *ssa.UnOp:
		if x.Op != token.MUL {
			return nil, 0, false
		}
		ia, isIA := x.X.(*ssa.IndexAddr)
		if !isIA {
			return nil, 0, false
		}
		base, idx = ia.X, ia.Index
	case *ssa.Index:
		base, idx = x.X, x.Index
	default:
		return nil, 0, false
	}
	k, isC := constInt(idx)
	if !isC {
		return nil, 0, false
	}
	m, ok = a.matchOf(base)
	return m, k, ok
}

// knownNotNewline: at block b the facts say that v != "\n".
func knownNotNewline(v ssa.Value, b *ssa.BasicBlock) bool {
	if b == nil {
		return false
	}
	for _, f := range factsOf(b.Parent()).At(b) {
		cmp, ok := f.Cmp()
		if !ok || cmp.Op != token.NEQ {
			continue
		}
		for _, side := range [][2]ssa.Value{{cmp.X, cmp.Y}, {cmp.Y, cmp.X}} {
			if side[0] == v {
				if s, ok := constString(side[1]); ok && s == "\n" {
					return true
				}
			}
		}
	}
	return false
}

// leaves: what a string value is concatenated from, left to right.
func leaves(v ssa.Value, out *[]ssa.Value, d int) {
	v = stripStringConv(v) // string(x), named(x) between string types: the same text
	if b, ok := v.(*ssa.BinOp); ok && b.Op == token.ADD && d < 64 {
		leaves(b.X, out, d+1)
		leaves(b.Y, out, d+1)
		return
	}
	*out = append(*out, v)
}

// lex turns the leaves into events. at: the block where the concatenation
// happens (for branch facts about letters).
func (a *nfa) lex(ls []ssa.Value, at *ssa.BasicBlock) []sgEvent {
	var evs []sgEvent
	inSGR := false
	var collected strings.Builder
	var params []ssa.Value
	afterEsc := false
	bad := func(format string, args ...any) {
		evs = append(evs, sgEvent{kind: evBAD, what: fmt.Sprintf(format, args...)})
	}
	for _, l := range ls {
		if c, ok := l.(*ssa.Const); ok && c.Value != nil && c.Value.Kind() == constant.String {
			for _, r := range constant.StringVal(c.Value) {
				switch {
				case afterEsc:
					afterEsc = false
					if r != '[' {
						bad("an escape byte that does not start ESC[")
						continue
					}
					inSGR = true
					collected.Reset()
					params = nil
				case inSGR:
					if r == 'm' {
						inSGR = false
						txt := collected.String()
						if len(params) == 0 && (txt == "0" || txt == "") {
							evs = append(evs, sgEvent{kind: evRST})
						} else {
							evs = append(evs, sgEvent{kind: evOP, params: params, what: txt})
						}
						continue
					}
					if r == 0x1b || r == '\n' {
						bad("an escape sequence that is not closed by m")
						inSGR = false
						continue
					}
					collected.WriteRune(r)
				case r == 0x1b:
					afterEsc = true
				case r == '\n':
					evs = append(evs, sgEvent{kind: evNL})
				default:
					if n := len(evs); n == 0 || evs[n-1].kind != evTXT {
						evs = append(evs, sgEvent{kind: evTXT})
					}
				}
			}
			continue
		}
		if afterEsc {
			bad("an escape byte followed by a computed value")
			afterEsc = false
		}
		if inSGR {
			// computed SGR parameter text: accepted for parameters (who passes what is C01.R3)
			if p, ok := unwrapLoad(l).(*ssa.Parameter); ok {
				params = append(params, p)
				a.sgrParams[p] = true
				if collected.Len() == 0 {
					a.sgrLead[p] = true // directly behind ESC[: the leading code
				}
				collected.WriteString("<" + p.Name() + ">")
				continue
			}
			bad("a computed value other than a parameter inside an escape sequence")
			inSGR = false
			continue
		}
		if m, k, ok := a.piece(l); ok {
			switch k {
			case 0:
				evs = append(evs, sgEvent{kind: evNF, what: "a whole match"})
			case 1:
				evs = append(evs, sgEvent{kind: evPRE, match: m})
			case 2:
				evs = append(evs, sgEvent{kind: evLET, match: m, nonNL: knownNotNewline(l, at)})
			default:
				bad("element %d of a match", k)
			}
			continue
		}
		if a.NF(l) {
			evs = append(evs, sgEvent{kind: evNF})
		} else {
			bad("%s", a.reason(l))
		}
	}
	if inSGR || afterEsc {
		bad("an escape sequence left open at the end")
	}
	return evs
}

// run: the automaton. States: closed (optionally "just after the possibly
// empty openers of match m"), opened, lettered.
func runSG(evs []sgEvent) (ok bool, why string) {
	type st struct {
		k int // 0 closed, 1 opened, 2 lettered
		m ssa.Value
	}
	cur := map[st]bool{{0, nil}: true}
	for _, e := range evs {
		next := map[st]bool{}
		for s := range cur {
			switch s.k {
			case 0:
				switch e.kind {
				case evTXT, evNL, evNF, evRST:
					next[st{0, nil}] = true
				case evOP:
					next[st{1, nil}] = true
				case evPRE:
					next[st{0, e.match}] = true // no openers: still closed, but this match's character may follow
					next[st{1, e.match}] = true
				case evLET:
					if s.m != nil && s.m == e.match {
						next[st{0, nil}] = true // an unstyled character, complete
					} else {
						return false, "the character of a match is emitted without the escape sequences that belong in front of it (its styling is lost)"
					}
				default:
					return false, e.what
				}
			case 1:
				switch e.kind {
				case evOP:
					next[st{1, s.m}] = true
				case evPRE:
					next[st{1, e.match}] = true
				case evLET:
					if s.m != nil && s.m != e.match {
						return false, "openers of one character are put in front of another"
					}
					if !e.nonNL {
						return false, "a character that may be a line feed is emitted with attributes active"
					}
					next[st{2, nil}] = true
				case evRST:
					next[st{0, nil}] = true
				case evNL:
					return false, "a line feed is emitted with attributes active"
				case evTXT, evNF:
					return false, "text is emitted inside an open unit: more than one character would share one reset"
				default:
					return false, e.what
				}
			case 2:
				switch e.kind {
				case evRST:
					next[st{0, nil}] = true
				case evBAD:
					return false, e.what
				default:
					return false, "attributes stay active after a character (no reset follows it)"
				}
			}
		}
		cur = next
	}
	for s := range cur {
		if s.k != 0 {
			return false, "the text ends with attributes active"
		}
	}
	return true, ""
}

func (a *nfa) reason(v ssa.Value) string {
	if w, ok := a.why[v]; ok && w != "" {
		return w
	}
	return "a value whose form is not followed: " + valueDesc(v)
}

func (a *nfa) fail(v ssa.Value, format string, args ...any) bool {
	a.state[v] = 3
	a.why[v] = fmt.Sprintf(format, args...)
	return false
}

// clean: v contains no escape byte at all.
func (a *nfa) clean(v ssa.Value, d int) bool {
	if d > 12 {
		return false
	}
	switch x := unwrapLoad(v).(type) {
	case *ssa.Const:
		if s, ok := constString(x); ok {
			return !strings.ContainsRune(s, 0x1b)
		}
		return true
	case *ssa.BinOp:
		return x.Op == token.ADD && a.clean(x.X, d+1) && a.clean(x.Y, d+1)
	case *ssa.Phi:
		for _, e := range x.Edges {
			if e != ssa.Value(x) && !a.clean(e, d+1) {
				return false
			}
		}
		return true
	case *ssa.Convert:
		return a.clean(x.X, d+1)
	case *ssa.ChangeType:
		return a.clean(x.X, d+1)
	case *ssa.Slice:
		return a.clean(x.X, d+1)
	case *ssa.UnOp, *ssa.Lookup, *ssa.Index, *ssa.Extract:
		return a.fromCleanTable(x)
	case *ssa.Call:
		if sc := x.Call.StaticCallee(); sc != nil {
			if inAnsi(sc) && sc.Name() == "Scrub" {
				return true
			}
			if inAnsi(sc) && sc.Name() == "Squash" {
				return a.clean(x.Call.Args[0], d+1)
			}
			if sc.Pkg != nil {
				switch sc.Pkg.Pkg.Path() {
				case "strconv":
					return true
				case "strings":
					if sc.Name() == "Map" {
						// the mapping returns its input or constants other than ESC
						var f *ssa.Function
						switch y := x.Call.Args[0].(type) {
						case *ssa.Function:
							f = y
						case *ssa.MakeClosure:
							f, _ = y.Fn.(*ssa.Function)
						}
						if f == nil || len(f.Params) != 1 || len(f.Blocks) == 0 {
							return false
						}
						okMap := true
						eachInstr(f, func(_ *ssa.BasicBlock, _ int, in ssa.Instruction) {
							if ret, isRet := in.(*ssa.Return); isRet && len(ret.Results) == 1 {
								r := unwrapLoad(ret.Results[0])
								if k, isC := constInt(r); isC {
									if k == 0x1b {
										okMap = false
									}
								} else if r != ssa.Value(f.Params[0]) && !a.fromCleanTable(r) {
									okMap = false
								}
							}
						})
						return okMap && a.clean(x.Call.Args[1], d+1)
					}
					for _, arg := range x.Call.Args {
						if isStringType(arg.Type()) {
							if !a.clean(arg, d+1) {
								return false
							}
							continue
						}
						if _, basic := arg.Type().Underlying().(*types.Basic); !basic {
							return false // slices of strings, functions: not followed here
						}
					}
					return true
				}
			}
		}
	}
	return false
}

// fromCleanTable: v is read from a package-level array, slice or map that only
// ever holds constants without an escape byte.
func (a *nfa) fromCleanTable(v ssa.Value) bool {
	var root ssa.Value
	switch x := v.(type) {
	case *ssa.Extract:
		if lk, ok := x.Tuple.(*ssa.Lookup); ok && x.Index == 0 {
			root = lk.X
		}
	case *ssa.Lookup:
		root = x.X
	case *ssa.Index:
		root = x.X
	case *ssa.UnOp:
		if x.Op == token.MUL {
			if ia, ok := x.X.(*ssa.IndexAddr); ok {
				root = ia.X
			}
		}
	}
	if root == nil {
		return false
	}
	if ld, ok := root.(*ssa.UnOp); ok && ld.Op == token.MUL {
		root = ld.X
	}
	g, ok := root.(*ssa.Global)
	if !ok || g.Pkg == nil {
		return false
	}
	if r, done := a.cleanGlobals[g]; done {
		return r
	}
	res := true
	constOK := func(val ssa.Value) bool {
		cst, ok := val.(*ssa.Const)
		if !ok {
			return false
		}
		if s, ok := constString(cst); ok {
			return !strings.ContainsRune(s, 0x1b)
		}
		if k, ok := constInt(cst); ok {
			return k != 0x1b
		}
		return cst.Value == nil
	}
	// the literal(s) stored into g, and every write through g
	lits := map[ssa.Value]bool{}
	for _, m := range g.Pkg.Members {
		f, ok := m.(*ssa.Function)
		if !ok {
			continue
		}
		for _, ff := range append([]*ssa.Function{f}, f.AnonFuncs...) {
			eachInstr(ff, func(_ *ssa.BasicBlock, _ int, in ssa.Instruction) {
				if st, ok := in.(*ssa.Store); ok && st.Addr == ssa.Value(g) {
					switch y := st.Val.(type) {
					case *ssa.MakeMap:
						lits[y] = true
					case *ssa.Slice:
						lits[y.X] = true
					default:
						if !constOK(st.Val) {
							res = false
						}
					}
				}
			})
		}
	}
	for _, m := range g.Pkg.Members {
		f, ok := m.(*ssa.Function)
		if !ok {
			continue
		}
		for _, ff := range append([]*ssa.Function{f}, f.AnonFuncs...) {
			eachInstr(ff, func(_ *ssa.BasicBlock, _ int, in ssa.Instruction) {
				switch y := in.(type) {
				case *ssa.MapUpdate:
					mp := y.Map
					if ld, ok := mp.(*ssa.UnOp); ok && ld.Op == token.MUL {
						mp = ld.X
					}
					if mp == ssa.Value(g) || lits[y.Map] {
						if !constOK(y.Value) {
							res = false
						}
					}
				case *ssa.Store:
					ia, ok := y.Addr.(*ssa.IndexAddr)
					if !ok {
						return
					}
					base := ia.X
					if ld, ok := base.(*ssa.UnOp); ok && ld.Op == token.MUL {
						base = ld.X
					}
					if base == ssa.Value(g) || lits[ia.X] {
						if !constOK(y.Val) {
							res = false
						}
					}
				}
			})
		}
	}
	a.cleanGlobals[g] = res
	return res
}

// safeCut: i is a position in x where cutting keeps the form: the index of a
// line feed in x (plus or minus a constant 1), 0, or len(x).
func (a *nfa) safeCut(i, x ssa.Value, d int) bool {
	if i == nil {
		return true
	}
	if d > 6 {
		return false
	}
	switch y := i.(type) {
	case *ssa.Const:
		k, ok := constInt(y)
		return ok && k == 0
	case *ssa.Phi:
		for _, e := range y.Edges {
			if !a.safeCut(e, x, d+1) {
				return false
			}
		}
		return true
	case *ssa.BinOp:
		// just behind the line feed found
		if k, ok := constInt(y.Y); ok && k == 1 && y.Op == token.ADD {
			if call, ok := y.X.(*ssa.Call); ok && (isLibCall(&call.Call, "strings", "", "LastIndex") || isLibCall(&call.Call, "strings", "", "Index")) {
				return a.safeCut(call, x, d+1)
			}
		}
	case *ssa.Call:
		if b, ok := y.Call.Value.(*ssa.Builtin); ok && b.Name() == "len" {
			return unwrapLoad(y.Call.Args[0]) == unwrapLoad(x)
		}
		if isLibCall(&y.Call, "strings", "", "LastIndex") || isLibCall(&y.Call, "strings", "", "Index") {
			if s, ok := constString(y.Call.Args[1]); ok && s == "\n" {
				return unwrapLoad(y.Call.Args[0]) == unwrapLoad(x)
			}
		}
	}
	return false
}

func safeCutset(s string) bool {
	for _, r := range s {
		if r == 0x1b || r == '[' || r == ';' || r == 'm' || (r >= '0' && r <= '9') {
			return false
		}
	}
	return true
}

// nfSlice: v is a slice of strings all in normal form.
func (a *nfa) nfSlice(v ssa.Value, d int) bool {
	if d > 24 {
		return false
	}
	v = unwrapLoad(v)
	if a.busy[v] {
		return true // round a loop: decided by the other edges
	}
	a.busy[v] = true
	defer delete(a.busy, v)
	// whatever is stored into an element of this slice value must be in normal form too
	if _, isAlloc := v.(*ssa.Alloc); !isAlloc {
		for _, r := range refs(v) {
			ia, ok := r.(*ssa.IndexAddr)
			if !ok {
				continue
			}
			for _, rr := range refs(ia) {
				if st, ok := rr.(*ssa.Store); ok && st.Addr == ssa.Value(ia) && !a.NF(st.Val) {
					return false
				}
			}
		}
	}
	switch x := v.(type) {
	case *ssa.Const:
		return x.Value == nil
	case *ssa.MakeSlice:
		return true
	case *ssa.Parameter:
		return true // by assumption, like string parameters
	case *ssa.Phi:
		for _, e := range x.Edges {
			if e != ssa.Value(x) && !a.nfSlice(e, d+1) {
				return false
			}
		}
		return true
	case *ssa.Slice:
		if al, ok := x.X.(*ssa.Alloc); ok {
			if elems, ok := variadicElements(x); ok {
				for _, e := range elems {
					if !a.NF(e) {
						return false
					}
				}
				return true
			}
			_ = al
			return arrayLen(al) == 0
		}
		return a.nfSlice(x.X, d+1)
	case *ssa.Call:
		if b, ok := x.Call.Value.(*ssa.Builtin); ok && b.Name() == "append" {
			return a.nfSlice(x.Call.Args[0], d+1) && (len(x.Call.Args) < 2 || a.nfSlice(x.Call.Args[1], d+1))
		}
		if isLibCall(&x.Call, "strings", "", "Split") || isLibCall(&x.Call, "strings", "", "SplitN") {
			if s, ok := constString(x.Call.Args[1]); ok && s == "\n" {
				return a.NF(x.Call.Args[0])
			}
		}
	}
	return false
}

// NF: v is a text in normal form whenever the text parameters of its function are.
func (a *nfa) NF(v ssa.Value) bool {
	v = unwrapLoad(v)
	switch a.state[v] {
	case 1, 2:
		return true
	case 3:
		return false
	}
	if !isStringType(v.Type()) {
		return a.fail(v, "not a string")
	}
	a.state[v] = 1
	ok := a.nf1(v)
	if ok {
		a.state[v] = 2
	} else if a.state[v] != 3 {
		a.fail(v, "%s", "a value whose form is not followed: "+valueDesc(v))
	}
	return ok
}

func blockOf(v ssa.Value) *ssa.BasicBlock {
	if in, ok := v.(ssa.Instruction); ok {
		return in.Block()
	}
	return nil
}

func (a *nfa) nf1(v ssa.Value) bool {
	if a.clean(v, 0) {
		return true
	}
	switch x := v.(type) {
	case *ssa.Const:
		ok, why := runSG(a.lex([]ssa.Value{x}, nil))
		if !ok {
			return a.fail(v, "the constant %s: %s", x.Value.ExactString(), why)
		}
		return true
	case *ssa.BinOp:
		if x.Op != token.ADD {
			return a.fail(v, "a string operation other than concatenation")
		}
		var ls []ssa.Value
		leaves(x, &ls, 0)
		ok, why := runSG(a.lex(ls, x.Block()))
		if !ok {
			return a.fail(v, "the concatenation at %s: %s", a.P.InstrPos(x), why)
		}
		return true
	case *ssa.Phi:
		for _, e := range x.Edges {
			if !a.NF(e) {
				return a.fail(v, "%s", a.reason(unwrapLoad(e)))
			}
		}
		return true
	case *ssa.Parameter:
		if a.sgrParams[x] {
			return a.fail(v, "parameter %s is used as the parameter text of an escape sequence and as text", x.Name())
		}
		return true
	case *ssa.Slice:
		if a.NF(x.X) && a.safeCut(x.Low, x.X, 0) && a.safeCut(x.High, x.X, 0) {
			return true
		}
		return a.fail(v, "the text is cut at %s at a position that is not known to be a line feed: an escape sequence or a unit can be cut in two", a.P.InstrPos(x))
	case *ssa.UnOp:
		if x.Op == token.MUL {
			if ia, ok := x.X.(*ssa.IndexAddr); ok && a.nfSlice(ia.X, 0) {
				return true
			}
			if _, k, ok := a.piece(x); ok {
				if k == 0 {
					return true
				}
				ok2, why := runSG(a.lex([]ssa.Value{x}, x.Block()))
				if !ok2 {
					return a.fail(v, "element %d of a match on its own at %s: %s", k, a.P.InstrPos(x), why)
				}
				return true
			}
		}
	case *ssa.Index:
		if a.nfSlice(x.X, 0) {
			return true
		}
	case *ssa.Extract:
		// element of a range over a slice of normal-form strings
		if nx, ok := x.Tuple.(*ssa.Next); ok && !nx.IsString && x.Index == 2 {
			if rg, ok := nx.Iter.(*ssa.Range); ok && a.nfSlice(rg.X, 0) {
				return true
			}
		}
	case *ssa.Call:
		return a.nfCall(x)
	}
	return false
}

func (a *nfa) nfCall(x *ssa.Call) bool {
	v := ssa.Value(x)
	if B, m, _ := builderOp(x); B != nil && m == "String" {
		for _, r := range refs(B) {
			bb, m2, call := builderOp(r)
			if bb != B {
				return a.fail(v, "the builder escapes at %s", a.P.InstrPos(r))
			}
			switch m2 {
			case "WriteString":
				if !a.NF(call.Call.Args[1]) {
					return a.fail(v, "what is written to the builder at %s is not a text in normal form on its own: %s", a.P.InstrPos(call), a.reason(unwrapLoad(call.Call.Args[1])))
				}
			case "WriteByte", "WriteRune":
				if safeTableRune(call.Call.Args[1], 0) {
					continue // a character out of a constant table that holds no ESC
				}
				if k, ok := constInt(call.Call.Args[1]); !ok || k == 0x1b {
					return a.fail(v, "a computed character is written to the builder at %s", a.P.InstrPos(call))
				}
			case "String", "Len", "Grow", "Reset", "Cap":
			default:
				return a.fail(v, "builder operation %s at %s is not followed", m2, a.P.InstrPos(r))
			}
		}
		return true
	}
	sc := x.Call.StaticCallee()
	if sc == nil {
		return a.fail(v, "the result of a dynamic call at %s", a.P.InstrPos(x))
	}
	if inStyleLayer(sc) {
		if inAnsi(sc) && sc.Name() == "collapse" {
			if a.isMatches(x.Call.Args[0], 0) {
				return true
			}
			return a.fail(v, "collapse at %s is given something else than matches of a normal-form text", a.P.InstrPos(x))
		}
		// the callee's own obligation covers its result; its text arguments must be in normal form
		for i, arg := range x.Call.Args {
			if !isStringType(arg.Type()) || i >= len(sc.Params) {
				continue
			}
			if a.sgrParamOf(sc, i) {
				continue
			}
			if !a.NF(arg) {
				return a.fail(v, "argument %d of %s at %s: %s", i, sc.Name(), a.P.InstrPos(x), a.reason(unwrapLoad(arg)))
			}
		}
		return true
	}
	switch {
	case isLibCall(&x.Call, "strings", "", "Repeat"):
		if a.NF(x.Call.Args[0]) {
			return true
		}
	case isLibCall(&x.Call, "strings", "", "Join"):
		if a.nfSlice(x.Call.Args[0], 0) && a.NF(x.Call.Args[1]) {
			return true
		}
		return a.fail(v, "strings.Join at %s joins pieces that are not known to be in normal form", a.P.InstrPos(x))
	case isLibCall(&x.Call, "strings", "", "ReplaceAll"):
		if s, ok := constString(x.Call.Args[1]); ok && s == "\n" && a.NF(x.Call.Args[0]) && a.NF(x.Call.Args[2]) {
			return true
		}
	case isLibCall(&x.Call, "strings", "", "TrimSpace"):
		return a.NF(x.Call.Args[0])
	case isLibCall(&x.Call, "strings", "", "TrimRight"), isLibCall(&x.Call, "strings", "", "TrimLeft"), isLibCall(&x.Call, "strings", "", "Trim"),
		isLibCall(&x.Call, "strings", "", "TrimSuffix"), isLibCall(&x.Call, "strings", "", "TrimPrefix"):
		if s, ok := constString(x.Call.Args[1]); ok && safeCutset(s) && a.NF(x.Call.Args[0]) {
			return true
		}
	}
	return a.fail(v, "the result of %s at %s is not known to keep the form", calleeName(&x.Call), a.P.InstrPos(x))
}

func calleeName(c *ssa.CallCommon) string {
	if sc := c.StaticCallee(); sc != nil {
		return sc.String()
	}
	return c.Value.Name()
}

// sgrParamOf: parameter i of fn is (transitively) the parameter text of an
// escape sequence, not text: style of ansi.Apply, and what is handed on to it.
func (a *nfa) sgrParamOf(fn *ssa.Function, i int) bool {
	return a.sgrParamDepth(fn, i, 0)
}

func (a *nfa) sgrParamDepth(fn *ssa.Function, i int, d int) bool {
	if d > 4 || i >= len(fn.Params) || len(fn.Blocks) == 0 {
		return false
	}
	p := fn.Params[i]
	if a.sgrParams[p] {
		return true
	}
	found := false
	// used inside ESC[ ... m in this function, or handed to such a parameter (possibly after + of constants)
	var uses func(v ssa.Value, depth int)
	uses = func(v ssa.Value, depth int) {
		if depth > 4 || found {
			return
		}
		for _, r := range refs(v) {
			switch y := r.(type) {
			case *ssa.BinOp:
				if y.Op == token.ADD {
					var ls []ssa.Value
					// the whole concatenation this is part of
					top := ssa.Value(y)
					for {
						up := false
						for _, rr := range refs(top) {
							if b2, ok := rr.(*ssa.BinOp); ok && b2.Op == token.ADD {
								top, up = b2, true
								break
							}
						}
						if !up {
							break
						}
					}
					leaves(top, &ls, 0)
					before := a.sgrParams[p]
					a.lex(ls, nil)
					if a.sgrParams[p] {
						found = true
						return
					}
					a.sgrParams[p] = before
					uses(top, depth+1)
				}
			case *ssa.Call:
				if sc := y.Call.StaticCallee(); sc != nil && inStyleLayer(sc) {
					for j, arg := range y.Call.Args {
						if arg == v && a.sgrParamDepth(sc, j, d+1) {
							found = true
							return
						}
					}
				}
			}
		}
	}
	uses(p, 0)
	if found {
		a.sgrParams[p] = true
	}
	return found
}

// ------------------------------------------------------------ R1

func c14R1(c *Ctx) {
	P := c.P
	fn := P.FuncOpt("servitor/ansi", "Apply")
	if fn == nil || len(fn.Params) != 2 {
		c.bad("servitor/ansi.Apply", "ansi", "servitor/ansi", "the emitter of escape sequences, ansi.Apply(text, style), is not found")
		return
	}
	fname := FuncName(fn)
	a := newNFA(P)
	style := fn.Params[1]
	// every concatenation that contains an opener
	nChunks := 0
	eachInstr(fn, func(b *ssa.BasicBlock, _ int, in ssa.Instruction) {
		bo, ok := in.(*ssa.BinOp)
		if !ok || bo.Op != token.ADD {
			return
		}
		// only maximal concatenations
		for _, r := range refs(bo) {
			if up, ok := r.(*ssa.BinOp); ok && up.Op == token.ADD {
				return
			}
		}
		var ls []ssa.Value
		leaves(bo, &ls, 0)
		evs := a.lex(ls, bo.Block())
		hasOp := false
		for _, e := range evs {
			if e.kind == evOP || e.kind == evRST || e.kind == evPRE || e.kind == evLET {
				hasOp = true
			}
		}
		if !hasOp {
			return
		}
		nChunks++
		// expected: [NF accumulator]  OP(style)  PRE(m)  LET(m)  RST   (OP and PRE in either order)
		var core []sgEvent
		for _, e := range evs {
			if e.kind != evNF {
				core = append(core, e)
			}
		}
		ok2, why := len(core) == 4, "the unit is not `opener, own openers, character, reset`"
		if ok2 {
			op, pre := core[0], core[1]
			if op.kind == evPRE {
				op, pre = pre, op
			}
			switch {
			case op.kind != evOP || len(op.params) != 1 || op.params[0] != ssa.Value(style) || op.what != "<"+style.Name()+">":
				ok2, why = false, "the opener does not carry exactly the style parameter"
			case pre.kind != evPRE:
				ok2, why = false, "the character's own openers are not kept"
			case core[2].kind != evLET || core[2].match != pre.match:
				ok2, why = false, "the character emitted is not the one the openers belong to"
			case !core[2].nonNL:
				ok2, why = false, "the character may be a line feed"
			case core[3].kind != evRST:
				ok2, why = false, "the unit is not closed by a reset"
			}
		}
		c.check(ok2, fname+"/unit", P.InstrPos(bo), fname, "each character gets one opener with the style, its own openers, itself and a reset", "ansi.Apply does not emit `ESC[style m`, the character's own openers, the character and a reset for each character ("+why+"): the attribute is not applied to exactly the characters of the text")
	})
	c.check(nChunks == 1, fname+"/one-emitting-statement", P.Pos(fn.Pos()), fname, "one statement emits escape sequences", fmt.Sprintf("%d statements of ansi.Apply emit escape sequences where one unit per character is expected", nChunks))
	// the units are made for every match of the text itself
	okText := false
	eachInstr(fn, func(_ *ssa.BasicBlock, _ int, in ssa.Instruction) {
		if call, ok := in.(*ssa.Call); ok {
			if sc := call.Call.StaticCallee(); inAnsi(sc) && sc.Name() == "expand" && unwrapLoad(call.Call.Args[0]) == ssa.Value(fn.Params[0]) {
				okText = true
			}
		}
	})
	c.check(okText, fname+"/whole-text", P.Pos(fn.Pos()), fname, "walks the matches of its own text", "ansi.Apply does not take its own text parameter apart with ansi.expand")
}

// ------------------------------------------------------------ R2

func c14R2(c *Ctx) {
	P := c.P
	a := newNFA(P)
	n := 0
	for _, pkg := range []string{"servitor/ansi", "servitor/style"} {
		for _, fn := range P.FuncsIn(pkg) {
			if fn.Parent() != nil || len(fn.Blocks) == 0 || fn.Synthetic != "" {
				continue
			}
			res := fn.Signature.Results()
			fname := FuncName(fn)
			if pkg == "servitor/ansi" && fn.Name() == "Scrub" {
				// removes every control character, ESC included: that is C01.R4 / C17.R6
				c.ok(fname+"/returns-normal-form#0", P.Pos(fn.Pos()), fname, "returns a text without any escape byte (ansi.Scrub's filter is decided under C01.R4)")
				n++
				continue
			}
			// which parameters are SGR parameter text
			for i := range fn.Params {
				a.sgrParamOf(fn, i)
			}
			eachInstr(fn, func(_ *ssa.BasicBlock, _ int, in ssa.Instruction) {
				ret, ok := in.(*ssa.Return)
				if !ok {
					return
				}
				for i := 0; i < res.Len(); i++ {
					if !isStringType(res.At(i).Type()) {
						continue
					}
					n++
					okNF := a.NF(ret.Results[i])
					why := ""
					if !okNF {
						why = a.reason(unwrapLoad(ret.Results[i]))
					}
					c.check(okNF, fmt.Sprintf("%s/returns-normal-form#%d", fname, i), P.InstrPos(ret), fname, "returns a text in normal form when given texts in normal form", fn.Name()+" can return a text that is not in normal form ("+why+"): attributes can leak past a character, a line feed or the end of the text, or a character can lose its own")
				}
			})
		}
	}
	c.info("string_returns_checked", n)
}

// ------------------------------------------------------------ R3

func c14R3(c *Ctx) {
	P := c.P
	scrub := P.FuncOpt("servitor/ansi", "Scrub")
	opaque := map[*ssa.Function]bool{}
	if scrub != nil {
		opaque[scrub] = true
	}
	flow := NewFlow(P, FlowConfig{
		Opaque: opaque,
		Carries: func(t types.Type) bool {
			if b, ok := t.Underlying().(*types.Basic); ok {
				return b.Info()&types.IsString != 0
			}
			return defaultCarries(t)
		},
		CleanLib: func(cc *ssa.CallCommon) bool {
			sc := cc.StaticCallee()
			if sc == nil || sc.Pkg == nil {
				return false
			}
			switch sc.Pkg.Pkg.Path() {
			case "strconv", "net/url", "time", "mime", "errors":
				return true
			}
			return false
		},
	})
	var sources []int
	nSrc := 0
	for _, fn := range P.Funcs {
		eachInstr(fn, func(_ *ssa.BasicBlock, _ int, in ssa.Instruction) {
			if call, ok := in.(*ssa.Call); ok {
				if sc := call.Call.StaticCallee(); inAnsi(sc) && sc.Name() == "Apply" {
					sources = append(sources, flow.val(call))
					nSrc++
				}
			}
		})
	}
	if !c.check(nSrc > 0, "servitor/ansi.Apply/call-sites", "ansi", "servitor/ansi", fmt.Sprintf("%d call sites of ansi.Apply are the sources of styled text", nSrc), "no call of ansi.Apply found: the sources of styled text cannot be identified") {
		return
	}
	reach := flow.Forward(sources)
	styled := func(v ssa.Value) bool {
		return isStringType(v.Type()) && reach.Reached(flow.val(v))
	}
	nSinks, nStyled := 0, 0
	for _, fn := range P.Funcs {
		if !strings.HasPrefix(P.PkgOf(fn), "servitor") || inAnsi(fn) || (fn.Parent() != nil && inAnsi(fn.Parent())) || len(fn.Blocks) == 0 {
			continue
		}
		fname := FuncName(fn)
		eachInstr(fn, func(_ *ssa.BasicBlock, _ int, in ssa.Instruction) {
			var operand ssa.Value
			what := ""
			switch x := in.(type) {
			case *ssa.Slice:
				if isStringType(x.X.Type()) {
					operand, what = x.X, "sliced"
				}
			case *ssa.Index:
				if isStringType(x.X.Type()) {
					operand, what = x.X, "indexed"
				}
			case *ssa.Lookup:
				if isStringType(x.X.Type()) {
					operand, what = x.X, "indexed"
				}
			case *ssa.Range:
				if isStringType(x.X.Type()) {
					operand, what = x.X, "ranged over"
				}
			case *ssa.Convert:
				if isStringType(x.X.Type()) && !isStringType(x.Type()) {
					if _, isSl := x.Type().Underlying().(*types.Slice); isSl {
						operand, what = x.X, "converted to runes or bytes"
					}
				}
			case *ssa.Call:
				sc := x.Call.StaticCallee()
				if sc == nil || sc.Pkg == nil {
					return
				}
				pkg := sc.Pkg.Pkg.Path()
				edits := false
				switch pkg {
				case "strings":
					switch sc.Name() {
					case "Repeat", "Join", "Count", "Contains", "ContainsRune", "ContainsAny", "HasPrefix", "HasSuffix", "Index", "LastIndex", "IndexByte", "IndexRune", "EqualFold", "Compare", "TrimSpace":
					case "Split", "SplitN", "ReplaceAll", "Replace":
						if s, ok := constString(x.Call.Args[1]); !ok || s != "\n" {
							edits = true
						}
					case "TrimRight", "TrimLeft", "Trim", "TrimSuffix", "TrimPrefix":
						if s, ok := constString(x.Call.Args[1]); !ok || !safeCutset(s) {
							edits = true
						}
					case "WriteString":
					default:
						edits = true
					}
				case "regexp", "bytes", "unicode/utf8", "strconv", "html", "net/url", "encoding/json", "golang.org/x/net/html":
					edits = sc.Name() != "RuneCountInString" && sc.Name() != "ValidString"
				}
				if edits && pkg == "regexp" && sc.Signature.Recv() != nil && len(x.Call.Args) > 0 {
					// a pattern that only splits off blanks at one end cuts between plain characters
					if pat, ok := patternOfRegexpValue(P, x.Call.Args[0]); ok && safeTrimPattern(pat) && (sc.Name() == "FindStringSubmatch" || sc.Name() == "FindString" || sc.Name() == "MatchString") {
						edits = false
					}
				}
				if !edits {
					return
				}
				nSinks++
				for _, arg := range x.Call.Args {
					if isStringType(arg.Type()) && styled(arg) {
						operand, what = arg, "handed to "+sc.String()
						break
					}
				}
				if operand == nil {
					return
				}
			}
			if operand == nil {
				return
			}
			if _, isCall := in.(*ssa.Call); !isCall {
				nSinks++
			}
			if !styled(operand) {
				return
			}
			nStyled++
			path := reach.Path(flow.val(operand))
			c.bad(fname+"/looks-inside-styled-text", P.InstrPos(in), fname, "a text that can carry styling is "+what+" outside package ansi: an escape sequence or a `openers, character, reset` unit can be cut or edited, so attributes leak or are lost", path...)
		})
	}
	c.info("inspecting_operations_outside_ansi", nSinks)
	c.check(nStyled == 0, "servitor/styled-text-opaque", "module", "servitor", fmt.Sprintf("none of the %d string-inspecting operations outside package ansi can receive a styled text", nSinks), fmt.Sprintf("%d operations outside package ansi can look inside a styled text", nStyled))
}

// safeTrimPattern: the pattern matches the whole text as `anything` next to a
// run of plain blanks anchored at one end (`^(.*?)([ \n]*)$`, `^([ \n]*)(.*)$`):
// its submatches are cut out between plain characters, never inside a unit,
// because a unit starts with ESC and ends with m.
func safeTrimPattern(pat string) bool {
	re, err := syntax.Parse(pat, syntax.Perl)
	if err != nil {
		return false
	}
	parts := []*syntax.Regexp{re}
	if re.Op == syntax.OpConcat {
		parts = re.Sub
	}
	var core []*syntax.Regexp
	begin, end := false, false
	for i, p := range parts {
		switch p.Op {
		case syntax.OpBeginText:
			begin = begin || i == 0
		case syntax.OpEndText:
			end = end || i == len(parts)-1
		case syntax.OpEmptyMatch:
		default:
			core = append(core, p)
		}
	}
	if !begin || !end || len(core) != 2 {
		return false
	}
	kind := func(p *syntax.Regexp) string {
		for p.Op == syntax.OpCapture {
			p = p.Sub[0]
		}
		if p.Op != syntax.OpStar && p.Op != syntax.OpPlus {
			return ""
		}
		q := p.Sub[0]
		switch q.Op {
		case syntax.OpAnyChar:
			return "any"
		case syntax.OpCharClass:
			for i := 0; i+1 < len(q.Rune); i += 2 {
				for r := q.Rune[i]; r <= q.Rune[i+1]; r++ {
					if !safeCutset(string(r)) {
						return ""
					}
					if r-q.Rune[i] > 64 {
						return ""
					}
				}
			}
			return "blanks"
		case syntax.OpLiteral:
			if safeCutset(string(q.Rune)) {
				return "blanks"
			}
		}
		return ""
	}
	a, b := kind(core[0]), kind(core[1])
	return (a == "any" && b == "blanks") || (a == "blanks" && b == "any")
}

// mayStartSGR: the constant contains an escape byte that starts (or may start,
// if the constant ends inside the sequence) a graphic-rendition sequence
// ESC [ ... m. Cursor and screen control sequences (ESC[H, ESC[2J) set no
// attribute and are not this property's concern.
func mayStartSGR(s string) bool {
	for i := 0; i < len(s); i++ {
		if s[i] != 0x1b {
			continue
		}
		j := i + 1
		if j >= len(s) {
			return true
		}
		if s[j] != '[' {
			continue
		}
		j++
		for j < len(s) && (s[j] == ';' || (s[j] >= '0' && s[j] <= '9')) {
			j++
		}
		if j >= len(s) || s[j] == 'm' {
			return true
		}
	}
	return false
}

// ------------------------------------------------------------ R4

func c14R4(c *Ctx) {
	P := c.P
	n, bad := 0, 0
	for _, fn := range P.Funcs {
		if !strings.HasPrefix(P.PkgOf(fn), "servitor") {
			continue
		}
		eachInstr(fn, func(_ *ssa.BasicBlock, _ int, in ssa.Instruction) {
			for _, op := range in.Operands(nil) {
				if op == nil || *op == nil {
					continue
				}
				cst, ok := (*op).(*ssa.Const)
				if !ok || cst.Value == nil {
					continue
				}
				hasEsc := false
				switch cst.Value.Kind() {
				case constant.String:
					hasEsc = mayStartSGR(constant.StringVal(cst.Value))
				case constant.Int:
					if b, ok := cst.Type().Underlying().(*types.Basic); ok && (b.Kind() == types.Int32 || b.Kind() == types.Uint8 || b.Kind() == types.UntypedRune) {
						k, _ := constInt(cst)
						hasEsc = k == 0x1b
						if bo, isCmp := in.(*ssa.BinOp); isCmp && (bo.Op == token.EQL || bo.Op == token.NEQ) {
							hasEsc = false // a key code that is compared, not emitted
						}
					}
				}
				if !hasEsc {
					continue
				}
				n++
				owner := fn
				for owner.Parent() != nil {
					owner = owner.Parent()
				}
				if !inAnsi(owner) {
					bad++
					c.bad(FuncName(fn)+"/escape-constant", P.InstrPos(in), FuncName(fn), "a constant with an escape byte outside package ansi: a second emitter of escape sequences is not covered by the unit discipline of ansi.Apply")
				}
			}
		})
	}
	c.check(n > 0 && bad == 0, "servitor/escape-constants", "module", "servitor", fmt.Sprintf("%d constants that start a graphic-rendition escape sequence, all in package ansi", n), fmt.Sprintf("%d of %d constants with an escape byte are outside package ansi (or none found at all)", bad, n))
}

// safeTableRune: v is read from a package-level table of constant characters
// (or is one of several constants merged by a switch) none of which is ESC.
func safeTableRune(v ssa.Value, d int) bool {
	if d > 4 {
		return false
	}
	switch x := v.(type) {
	case *ssa.Const:
		k, ok := constInt(x)
		return ok && k != 0x1b
	case *ssa.Phi:
		for _, e := range x.Edges {
			if !safeTableRune(e, d+1) {
				return false
			}
		}
		return len(x.Edges) > 0
	case *ssa.Convert:
		return safeTableRune(x.X, d+1)
	case *ssa.UnOp:
		if x.Op != token.MUL {
			return false
		}
		ia, ok := x.X.(*ssa.IndexAddr)
		if !ok {
			return false
		}
		g, _ := ia.X.(*ssa.Global)
		if g == nil {
			if ld, ok := ia.X.(*ssa.UnOp); ok && ld.Op == token.MUL {
				g, _ = ld.X.(*ssa.Global)
			}
		}
		if g == nil {
			return false
		}
		t, _ := globalTable(g)
		if t == nil {
			return false
		}
		for _, cp := range t {
			if cp == 0x1b {
				return false
			}
		}
		return true
	}
	return false
}

// c14R8: the block functions of package style add layout blanks (the hanging
// indent of a link block or a bullet, the indent of a header) with ansi.Indent
// and ansi.Pad. A foreground colour or bold over such blanks cannot be seen;
// an underline, a strike-through or a background colour can: the blanks would
// be displayed with an attribute that was applied to the text, not to them.
// Decided by value flow inside package style: no result of ansi.Indent /
// ansi.Pad reaches the text argument of Underline, Strikethrough, Link,
// background, Code or Highlight (through concatenation, phis and locals).
// One obligation per such decorating call in the package.
func c14R8(c *Ctx) {
	P := c.P
	decor := map[string]bool{"Underline": true, "Strikethrough": true, "Link": true, "background": true, "Code": true, "Highlight": true, "CodeBlock": true}
	var fromLayout func(v ssa.Value, d int, seen map[ssa.Value]bool) string
	fromLayout = func(v ssa.Value, d int, seen map[ssa.Value]bool) string {
		if d > 12 || seen[v] {
			return ""
		}
		seen[v] = true
		switch x := unwrapLoad(v).(type) {
		case *ssa.Call:
			if sc := x.Call.StaticCallee(); sc != nil && P.PkgOf(sc) == "servitor/ansi" && (sc.Name() == "Indent" || sc.Name() == "Pad") {
				return P.InstrPos(x)
			}
			// through the style functions themselves (Color(Indent(x)) is still indented text)
			if sc := x.Call.StaticCallee(); sc != nil && P.PkgOf(sc) == "servitor/style" && len(x.Call.Args) >= 1 && isStringType(x.Call.Args[0].Type()) {
				return fromLayout(x.Call.Args[0], d+1, seen)
			}
			if sc := x.Call.StaticCallee(); sc != nil && P.PkgOf(sc) == "servitor/ansi" && sc.Name() == "Apply" {
				return fromLayout(x.Call.Args[0], d+1, seen)
			}
		case *ssa.BinOp:
			if x.Op == token.ADD {
				if w := fromLayout(x.X, d+1, seen); w != "" {
					return w
				}
				return fromLayout(x.Y, d+1, seen)
			}
		case *ssa.Phi:
			for _, e := range x.Edges {
				if w := fromLayout(e, d+1, seen); w != "" {
					return w
				}
			}
		}
		return ""
	}
	for _, fn := range P.FuncsIn("servitor/style") {
		fname := FuncName(fn)
		eachInstr(fn, func(_ *ssa.BasicBlock, _ int, in ssa.Instruction) {
			call, ok := in.(*ssa.Call)
			if !ok {
				return
			}
			sc := call.Call.StaticCallee()
			if sc == nil || P.PkgOf(sc) != "servitor/style" || !decor[sc.Name()] || len(call.Call.Args) == 0 || !isStringType(call.Call.Args[0].Type()) {
				return
			}
			where := fromLayout(call.Call.Args[0], 0, map[ssa.Value]bool{})
			c.check(where == "", fname+"/decorates:"+sc.Name(), P.InstrPos(in), fname, "the decorated text holds no layout blanks of the style layer",
				"the text handed to "+sc.Name()+" contains the blanks added by the layout call at "+where+": indent or padding is displayed underlined / struck through / with a background, attributes that were meant for the text")
		})
	}
}

// envReads: uses of the process environment, the clock or the local time zone
// in the functions of the given packages.
func envReads(P *Program, pkgs ...string) []ssa.Instruction {
	var out []ssa.Instruction
	for _, fn := range P.FuncsIn(pkgs...) {
		eachInstr(fn, func(_ *ssa.BasicBlock, _ int, in ssa.Instruction) {
			if cc := callOf(in); cc != nil {
				if f := calleeObj(cc); f != nil && f.Pkg() != nil {
					switch f.Pkg().Path() + "." + f.Name() {
					case "os.Getenv", "os.LookupEnv", "os.Environ", "os.ExpandEnv", "os.Expand", "os.Getwd", "os.Hostname", "os.UserHomeDir",
						"time.Now", "time.Since", "time.Until", "time.LoadLocation", "time.ParseInLocation",
						"runtime.GOMAXPROCS", "runtime.NumCPU", "math/rand.Int", "math/rand.Intn":
						out = append(out, in)
					}
				}
			}
			if u, ok := in.(*ssa.UnOp); ok && u.Op == token.MUL {
				if g, ok := u.X.(*ssa.Global); ok && g.Pkg != nil && g.Pkg.Pkg.Path() == "time" && g.Name() == "Local" {
					out = append(out, in)
				}
			}
		})
	}
	return out
}

func envRule(c *Ctx, what string, pkgs ...string) {
	P := c.P
	reads := envReads(P, pkgs...)
	for _, in := range reads {
		fn := in.Parent()
		c.bad(FuncName(fn)+"/environment", P.InstrPos(in), FuncName(fn), what+" now depends on the process environment, the clock or the local time zone ("+describeInstr(P, in)+"): the same input no longer gives the same result on another machine or at another time")
	}
	if len(reads) == 0 {
		c.ok(strings.Join(pkgs, "+")+"/environment", pkgs[0], pkgs[0], "no function of "+strings.Join(pkgs, ", ")+" reads the environment, the clock or the local time zone")
	}
}

func c14R9(c *Ctx) { envRule(c, "how a text is styled", "servitor/style", "servitor/ansi") }

// c14R10: every style function ends in ansi.Apply(text, style). For "every
// visible character carries the attributes of all style functions wrapped
// around it", Apply must not pick characters: in its loop over the matches the
// character (match[2]) is compared with "\n" and nothing else, and the style
// parameter is only ever concatenated — never compared, searched or measured
// (seed C14-2r13 skipped blanks when the style is a foreground colour; a
// blank under Underline(Color(..)) then shows its underline in another colour).
func c14R10(c *Ctx) {
	P := c.P
	fn := P.Func("servitor/ansi", "Apply")
	fname := FuncName(fn)
	style := fn.Params[1]
	n := 0
	eachInstr(fn, func(_ *ssa.BasicBlock, _ int, in ssa.Instruction) {
		// tests of the character
		if cmp, ok := in.(*ssa.BinOp); ok && (cmp.Op == token.EQL || cmp.Op == token.NEQ) && isStringType(cmp.X.Type()) {
			for _, side := range [][2]ssa.Value{{cmp.X, cmp.Y}, {cmp.Y, cmp.X}} {
				k, isK := constString(side[1])
				if !isK {
					continue
				}
				if unwrapLoad(side[0]) == ssa.Value(style) {
					n++
					c.bad(fname+"/style-inspected", P.InstrPos(in), fname, "Apply compares the style it is given with a constant: some styles are then not applied to some characters")
					continue
				}
				n++
				c.check(k == "\n", fname+"/character-test", P.InstrPos(in), fname, "the line feed is told apart (it gets no escape sequences)",
					fmt.Sprintf("Apply tells the character %q apart from the others: it does not get the style the text is wrapped in, so what is displayed at that place are not the attributes of all style functions around it", k))
			}
		}
		// the style parameter is not examined
		if cc := callOf(in); cc != nil {
			for _, a := range cc.Args {
				if unwrapLoad(a) == ssa.Value(style) {
					name := ""
					if f := calleeObj(cc); f != nil {
						name = objFullName(f)
					} else if b, ok := cc.Value.(*ssa.Builtin); ok {
						name = b.Name()
					}
					n++
					c.bad(fname+"/style-inspected", P.InstrPos(in), fname, "Apply hands the style it is given to "+name+": what a character gets then depends on which style it is, and some styles are not applied to some characters")
				}
			}
		}
	})
	if n == 0 {
		c.bad(fname+"/character-test", P.Pos(fn.Pos()), fname, "Apply no longer tells the line feed apart")
	}
}
