package main

import (
	"fmt"
	"go/ast"
	"go/constant"
	"go/token"
	"go/types"
	"os"
	"path/filepath"
	"regexp"
	"sort"
	"strings"

	"golang.org/x/tools/go/ssa"
)

func init() { registry["C07"] = propC07 }

func propC07() *Property {
	return &Property{
		ID:          "C07",
		Explanation: "Dispatcher coverage and crash obligations of the UI only. Decided: (R1) the keys documented in readme.md and in main's help text agree with each other, each is handled by ui.State.Update, and each case calls what the keymap names (j→MoveDown, k→MoveUp, g→MoveToCenter, h→Back, l→Forward, space/c/r/a→switchTo, o/p/b→openExternally; digits, ':', '.', Enter, Esc, Backspace are tested); (R2) every explicit panic in ui, feed, history and ansi that is reachable from Update / SetWidthHeight / Subcommand is discharged: the constants stored to State.mode are handled by view, ReplaceLastLine only receives text that went through ansi.SetLength, feed.Get is called only under Contains of the same offset on the same feed, switchTo only receives values whose dynamic type it handles — and no other panic exists there (a panic guarded by the outcome of parsing typed text has no static discharge); (R3) the results of the unguarded accessor feed.Current() are checked against nil before they are used as a receiver or handed to switchTo; (R4) Update returns before touching any state while the mode is loading. (R6) every value added to the history is a Page allocated by the adding function, through every phi edge: entries never share a page. (R7) every background load is delivered to the page it was started for (in-flight flag pairing; the instances of C08.R9). (R8 = C12.R7) a link list that is stored next to an error is empty whenever the error may be set, so a number typed by the user cannot select a link that was shown without a number. (R12) every handler of a plain key in Update — the taken side of input == K, or the place where a table of handlers is indexed with the key — is dominated, as far as the mode is concerned, only by mode != loading, != command, != selection: the keymap is live in the opening and problem modes too. (R13 = C12.R9) the digit keys: exactly '0'..'9' are taken; on every path the mode becomes selection and the digit starts a fresh number outside selection mode, extends the number inside it. (R14 = C18.R1) the history behind h, l and opening a page behaves as a list with a cursor. (R15) the first harvest of switchTo asks for at least one item under every accepted preload_amount. (R16 = C20.R5) the keys that open a link externally never meet a missing media type. NOT decided: that after an arbitrary key history cursor, page and mode equal the keymap's prediction (refinement over unbounded histories), quiescence of background loads, and History.Current on an empty history (holds by an invariant relating mode and history length that is not structural).",
		Assumptions: []string{"readme.md 'Keybindings' and main.help() are the documented keymap"},
		Rules: []Rule{
			{ID: "C07.R1", Title: "documented keys have the documented handlers", Floor: 12, Run: c07R1},
			{ID: "C07.R2", Title: "explicit panics reachable from key handling are discharged", Floor: 3, Run: c07R2},
			{ID: "C07.R3", Title: "possibly-nil highlighted item is checked before use", Floor: 7, Run: c07R3},
			{ID: "C07.R4", Title: "keys are ignored while loading", Floor: 1, Run: c07R4},
			{ID: "C07.R5", Title: "Backspace removes what one key press appended (a rune)", Floor: 2, Run: c07R5},
			{ID: "C07.R6", Title: "every history entry is a page of its own", Floor: 1, Run: c07R6},
			{ID: "C07.R7", Title: "a background load is delivered to the page it was started for (in-flight flag pairing; same instances as C08.R9)", Floor: 8, Run: c08R9},
			{ID: "C07.R9", Title: "when the media hook ends it touches the input mode only if the UI is still showing `opening`", Floor: 2, Run: c07R9},
			{ID: "C07.R16", Title: "the keys that open a link externally never meet a missing media type (same instances as C20.R5)", Floor: 2, Run: c20R5},
			{ID: "C07.R15", Title: "a list that is opened shows at least the item it highlights: the first harvest of switchTo asks for at least one item under every accepted preload_amount (>= 0)", Floor: 1, Run: c07R15},
			{ID: "C07.R14", Title: "h, l and opening a page move through the history as a list with a cursor does (same instances as C18.R1)", Floor: 10, Run: c18R1},
			{ID: "C07.R13", Title: "the digit keys do what the keymap says in every mode: they start or extend a link number and switch to selection (same instances as C12.R9)", Floor: 3, Run: c12R9},
			{ID: "C07.R12", Title: "the plain keymap is live in every mode but loading, command and selection: no key handler of Update is narrowed by another test of the mode", Floor: 10, Run: c07R12},
			{ID: "C07.R11", Title: "`c` and `r` open the authors and recipients in document order: every fan-out goroutine fills the slot of its own iteration (same instances as C08.R5)", Floor: 40, Run: c08R5},
			{ID: "C07.R10", Title: "loading more of a page continues where the last load stopped: collection and offset are kept together (same instances as C10.R7)", Floor: 2, Run: c10R7},
			{ID: "C07.R8", Title: "a number typed by the user can only select a link that was shown with it: a link list that comes with an error is empty (same instances as C12.R7)", Floor: 3, Run: c12R7},
		},
	}
}

// keymap: key -> (callee name that must be called in its case body)
var keymapHandlers = map[string]string{
	"j": "MoveDown", "k": "MoveUp", "g": "MoveToCenter", "h": "Back", "l": "Forward",
	"space": "switchTo", "c": "switchTo", "r": "switchTo", "a": "switchTo",
	"o": "openExternally", "p": "openExternally", "b": "openExternally",
}

func documentedKeys(text string) []string {
	set := map[string]bool{}
	for _, m := range regexp.MustCompile("(?m)^\\s*`?([a-z]|space)`? (?:—|-) ").FindAllStringSubmatch(text, -1) {
		set[m[1]] = true
	}
	var out []string
	for k := range set {
		out = append(out, k)
	}
	sort.Strings(out)
	return out
}

func c07R1(c *Ctx) {
	P := c.P
	readme, err := os.ReadFile(filepath.Join(P.Repo, "readme.md"))
	if err != nil {
		broken("readme.md not readable: %v", err)
	}
	rt := string(readme)
	if i := strings.Index(rt, "## Keybindings"); i >= 0 {
		rt = rt[i:]
		if j := strings.Index(rt[3:], "\n# "); j > 0 {
			rt = rt[:j+3]
		}
	}
	docReadme := documentedKeys(rt)
	// help text: the string constant in main.help
	helpText := ""
	for _, f := range P.Package("servitor").Syntax {
		ast.Inspect(f, func(n ast.Node) bool {
			fd, ok := n.(*ast.FuncDecl)
			if !ok || fd.Name.Name != "help" {
				return true
			}
			ast.Inspect(fd, func(m ast.Node) bool {
				if bl, ok := m.(*ast.BasicLit); ok && bl.Kind == token.STRING {
					helpText += bl.Value
				}
				return true
			})
			return false
		})
	}
	docHelp := documentedKeys(helpText)
	c.check(len(docReadme) >= 12 && strings.Join(docReadme, ",") == strings.Join(docHelp, ","), "keymap/readme-vs-help", "readme.md", "servitor.help",
		"readme.md and servitor's help text document the same keys: "+strings.Join(docReadme, " "),
		"readme.md documents keys ["+strings.Join(docReadme, " ")+"] but the help text documents ["+strings.Join(docHelp, " ")+"]")
	// cases of Update's switch: constants compared with the input parameter, and what their bodies call
	upd := P.Method("servitor/ui", "State", "Update")
	input := upd.Params[1]
	handled := map[string]*ssa.BasicBlock{}
	tested := map[int64]bool{}
	eachInstr(upd, func(b *ssa.BasicBlock, _ int, in ssa.Instruction) {
		cmp, ok := in.(*ssa.BinOp)
		if !ok || unwrapLoad(cmp.X) != ssa.Value(input) {
			return
		}
		k, isC := constInt(cmp.Y)
		if !isC {
			return
		}
		tested[k] = true
		if cmp.Op != token.EQL {
			return
		}
		for _, r := range refs(cmp) {
			if iff, ok := r.(*ssa.If); ok {
				name := string(rune(k))
				if k == ' ' {
					name = "space"
				}
				handled[name] = iff.Block().Succs[0]
			}
		}
	})
	// … or a table of handlers that Update indexes with the key: map[byte]func(*State)
	// filled by the package initialiser with constant keys
	tableFn := map[string]*ssa.Function{}
	eachInstr(upd, func(_ *ssa.BasicBlock, _ int, in ssa.Instruction) {
		lk, ok := in.(*ssa.Lookup)
		if !ok || unwrapLoad(lk.Index) != ssa.Value(input) {
			return
		}
		u, ok := lk.X.(*ssa.UnOp)
		if !ok {
			return
		}
		g, ok := u.X.(*ssa.Global)
		if !ok || !effectivelyConstGlobal(P, g) {
			return
		}
		// the looked-up function must be what is called
		called := false
		for _, r := range refs(lk) {
			var fv ssa.Value = lk
			if ex, isEx := r.(*ssa.Extract); isEx && ex.Index == 0 {
				fv = ex
			} else if _, isCall := r.(ssa.CallInstruction); !isCall {
				continue
			}
			for _, rr := range refs(fv) {
				if ci, isCall := rr.(ssa.CallInstruction); isCall && ci.Common().Value == fv {
					called = true
				}
			}
		}
		if !called {
			return
		}
		for _, fn := range P.Funcs {
			if fn.Synthetic == "" || fn.Name() != "init" || fn.Pkg != g.Pkg {
				continue
			}
			eachInstr(fn, func(_ *ssa.BasicBlock, _ int, in2 ssa.Instruction) {
				mu, ok := in2.(*ssa.MapUpdate)
				if !ok {
					return
				}
				// the map that ends up in g
				stored := false
				for _, r := range refs(mu.Map) {
					if st, ok := r.(*ssa.Store); ok && st.Addr == ssa.Value(g) {
						stored = true
					}
				}
				k, isC := constInt(mu.Key)
				if !stored || !isC {
					return
				}
				var hf *ssa.Function
				switch v := mu.Value.(type) {
				case *ssa.Function:
					hf = v
				case *ssa.MakeClosure:
					hf, _ = v.Fn.(*ssa.Function)
				}
				if hf == nil {
					return
				}
				name := string(rune(k))
				if k == ' ' {
					name = "space"
				}
				tableFn[name] = hf
				tested[k] = true
			})
		}
	})
	for _, key := range docReadme {
		want := keymapHandlers[key]
		if hf := tableFn[key]; hf != nil && handled[key] == nil {
			// what the handler in the table calls, one level of the package's own helpers deep
			calls := map[string]bool{}
			seen := map[*ssa.Function]bool{}
			var walk func(f *ssa.Function, d int)
			walk = func(f *ssa.Function, d int) {
				if seen[f] || d > 2 {
					return
				}
				seen[f] = true
				for _, af := range f.AnonFuncs {
					walk(af, d)
				}
				eachInstr(f, func(_ *ssa.BasicBlock, _ int, in ssa.Instruction) {
					if cc := callOf(in); cc != nil {
						if fo := calleeObj(cc); fo != nil {
							calls[fo.Name()] = true
						}
						if sc := cc.StaticCallee(); sc != nil && P.PkgOf(sc) == "servitor/ui" && !anchorFuncs[anchorKeyOf(sc)] {
							walk(sc, d+1)
						}
					}
				})
			}
			walk(hf, 0)
			var got []string
			for k := range calls {
				got = append(got, k)
			}
			sort.Strings(got)
			wrong := ""
			for _, other := range []string{"MoveDown", "MoveUp", "MoveToCenter", "Back", "Forward"} {
				if other != want && calls[other] {
					wrong = other
				}
			}
			c.check(want != "" && calls[want] && wrong == "", "keymap/handler:"+key, P.Pos(hf.Pos()), FuncName(upd),
				"'"+key+"' calls "+want+" (handler found in the table Update indexes with the key)", fmt.Sprintf("the handler for key '%s' in the key table calls %v; the keymap says it calls %s (and none of the other movement functions)", key, got, want))
			continue
		}
		body, ok := handled[key]
		if !ok {
			c.bad("keymap/handles:"+key, P.Pos(upd.Pos()), FuncName(upd), "documented key '"+key+"' is not handled by Update")
			continue
		}
		if want == "" {
			c.bad("keymap/table:"+key, P.Pos(upd.Pos()), FuncName(upd), "documented key '"+key+"' has no entry in the checker's who-handles-what table")
			continue
		}
		// the case body (blocks dominated by it) calls the named function
		calls := map[string]bool{}
		for _, b := range upd.Blocks {
			if !body.Dominates(b) {
				continue
			}
			for _, in := range b.Instrs {
				if cc := callOf(in); cc != nil {
					if f := calleeObj(cc); f != nil {
						calls[f.Name()] = true
					}
				}
			}
		}
		var got []string
		for k := range calls {
			got = append(got, k)
		}
		sort.Strings(got)
		// the other navigation handlers must not be called instead
		wrong := ""
		for _, other := range []string{"MoveDown", "MoveUp", "MoveToCenter", "Back", "Forward"} {
			if other != want && calls[other] {
				wrong = other
			}
		}
		c.check(calls[want] && wrong == "", "keymap/handler:"+key, P.InstrPos(body.Instrs[0]), FuncName(upd),
			"'"+key+"' calls "+want, fmt.Sprintf("the case for key '%s' calls %v; the keymap says it calls %s (and none of the other movement functions)", key, got, want))
	}
	// non-letter keys
	for name, k := range map[string]int64{"Esc": 27, "Backspace": 127, "Enter": '\r', ":": ':', ".": '.', "0": '0', "9": '9'} {
		c.check(tested[k], "keymap/tests:"+name, P.Pos(upd.Pos()), FuncName(upd), "Update tests for "+name, "Update no longer tests for "+name)
	}
}

func c07R2(c *Ctx) {
	P := c.P
	// all explicit panics in the UI stack
	for _, fn := range P.FuncsIn("servitor/ui", "servitor/feed", "servitor/history") {
		eachInstr(fn, func(_ *ssa.BasicBlock, _ int, in ssa.Instruction) {
			p, ok := in.(*ssa.Panic)
			if !ok {
				return
			}
			msg := panicMessage(p)
			fname := FuncName(fn)
			switch {
			case fn.Name() == "view":
				ok, why := modesCovered(P)
				c.check(ok, fname+"/panic:mode", P.InstrPos(in), fname, "every constant stored to State.mode is handled by view", why)
			case fn.Name() == "switchTo":
				ok, why := switchToArgsCovered(P)
				c.check(ok, fname+"/panic:switchTo", P.InstrPos(in), fname, "every value passed to switchTo has a dynamic type it handles and is non-nil", why)
			case P.PkgOf(fn) == "servitor/feed" && fn.Name() == "Get":
				ok, why := feedGetGuarded(P)
				c.check(ok, fname+"/panic:feed.Get", P.InstrPos(in), fname, "every call of feed.Get is dominated by Contains of the same offset on the same feed", why)
			default:
				c.bad(fname+"/panic", P.InstrPos(in), fname, "explicit panic ("+msg+") in the key-handling stack without a static discharge: a panic that depends on typed text or loaded content can be triggered from the keyboard")
			}
		})
	}
	// ansi.ReplaceLastLine panics on a newline in the replacement
	rl := P.Func("servitor/ansi", "ReplaceLastLine")
	setLen := P.Func("servitor/ansi", "SetLength")
	for _, e := range P.Callers(rl) {
		if e.Site == nil {
			continue
		}
		arg := e.Site.Common().Args[1]
		okArg := false
		for d := 0; d < 4; d++ {
			call, ok := arg.(*ssa.Call)
			if !ok {
				break
			}
			sc := call.Call.StaticCallee()
			if sc == setLen {
				if s, isC := constString(call.Call.Args[2]); isC && !strings.Contains(s, "\n") {
					okArg = true
				}
				break
			}
			if sc == nil || P.PkgOf(sc) != "servitor/style" {
				break
			}
			arg = call.Call.Args[0]
		}
		c.check(okArg, FuncName(e.Caller.Func)+"/ReplaceLastLine-arg", P.InstrPos(e.Site), FuncName(e.Caller.Func),
			"the status line is ansi.SetLength(...) (newlines squashed), only styled afterwards", "ReplaceLastLine receives text that did not go through ansi.SetLength: a newline in it panics")
	}
	// SetLength squashes before anything else
	okSq := false
	eachInstr(setLen, func(_ *ssa.BasicBlock, _ int, in ssa.Instruction) {
		if call, ok := in.(*ssa.Call); ok {
			if sc := call.Call.StaticCallee(); sc != nil && sc.Name() == "Squash" {
				if inner, ok := call.Call.Args[0].(*ssa.Call); ok && inner.Call.StaticCallee() != nil && inner.Call.StaticCallee().Name() == "Scrub" && unwrapLoad(inner.Call.Args[0]) == ssa.Value(setLen.Params[0]) {
					okSq = true
				}
			}
		}
	})
	// every string SetLength returns is built from the squashed text
	if okSq {
		for _, b := range setLen.Blocks {
			if ret, ok := b.Instrs[len(b.Instrs)-1].(*ssa.Return); ok {
				if !builtFromSquashed(ret.Results[0], setLen, 0) {
					okSq = false
				}
			}
		}
	}
	c.check(okSq, FuncName(setLen)+"/squashes", P.Pos(setLen.Pos()), FuncName(setLen), "SetLength returns only text derived from Squash(Scrub(text)), its ellipsis and padding", "SetLength can return text that was not squashed (newlines survive)")
	sq := P.Func("servitor/ansi", "Squash")
	okBody := false
	eachInstr(sq, func(_ *ssa.BasicBlock, _ int, in ssa.Instruction) {
		if call, ok := in.(*ssa.Call); ok && isLibCall(&call.Call, "strings", "", "ReplaceAll") {
			a, _ := constString(call.Call.Args[1])
			b, _ := constString(call.Call.Args[2])
			if a == "\n" && !strings.Contains(b, "\n") {
				okBody = true
			}
		}
	})
	c.check(okBody, FuncName(sq)+"/body", P.Pos(sq.Pos()), FuncName(sq), "Squash replaces every newline", "Squash no longer replaces newlines")
}

func builtFromSquashed(v ssa.Value, fn *ssa.Function, d int) bool {
	if d > 8 {
		return false
	}
	switch x := v.(type) {
	case *ssa.Const:
		s, ok := constString(x)
		return ok && !strings.Contains(s, "\n")
	case *ssa.Parameter:
		return x == fn.Params[2] // the ellipsis (constant at call sites, checked there)
	case *ssa.BinOp:
		return builtFromSquashed(x.X, fn, d+1) && builtFromSquashed(x.Y, fn, d+1)
	case *ssa.Convert:
		return builtFromSquashed(x.X, fn, d+1)
	case *ssa.Slice:
		return builtFromSquashed(x.X, fn, d+1)
	case *ssa.Call:
		if sc := x.Call.StaticCallee(); sc != nil && sc.Name() == "Squash" {
			return true
		}
		if isLibCall(&x.Call, "strings", "", "Repeat") {
			s, ok := constString(x.Call.Args[0])
			return ok && !strings.Contains(s, "\n")
		}
	case *ssa.Phi:
		for _, e := range x.Edges {
			if !builtFromSquashed(e, fn, d+1) {
				return false
			}
		}
		return true
	}
	return false
}

func panicMessage(p *ssa.Panic) string {
	if mi, ok := p.X.(*ssa.MakeInterface); ok {
		if s, ok := constString(mi.X); ok {
			return s
		}
	}
	return "dynamic message"
}

// modesCovered: constants stored into State.mode ⊆ constants view handles.
func modesCovered(P *Program) (bool, string) {
	mf := P.Field("servitor/ui", "State", "mode")
	stored := map[int64]string{}
	nonConst := ""
	for _, fn := range P.FuncsIn("servitor/ui") {
		eachInstr(fn, func(_ *ssa.BasicBlock, _ int, in ssa.Instruction) {
			st, ok := in.(*ssa.Store)
			if !ok {
				return
			}
			fa, ok := st.Addr.(*ssa.FieldAddr)
			if !ok || fieldOf(fa) != mf {
				return
			}
			k, isC := constInt(st.Val)
			if !isC {
				nonConst = P.InstrPos(in)
				return
			}
			stored[k] = P.InstrPos(in)
		})
	}
	if nonConst != "" {
		return false, "a non-constant mode is stored at " + nonConst
	}
	view := P.Method("servitor/ui", "State", "view")
	handled := map[int64]bool{}
	eachInstr(view, func(_ *ssa.BasicBlock, _ int, in ssa.Instruction) {
		if cmp, ok := in.(*ssa.BinOp); ok && cmp.Op == token.EQL {
			if k, isC := constInt(cmp.Y); isC && strings.HasSuffix(path(cmp.X), ".&mode.*") {
				handled[k] = true
			}
		}
	})
	for k, pos := range stored {
		if !handled[k] {
			return false, fmt.Sprintf("mode %d is stored at %s but view has no case for it: the next frame panics", k, pos)
		}
	}
	return len(stored) >= 5, fmt.Sprintf("only %d modes found", len(stored))
}

// switchToArgsCovered: every argument of switchTo is (a) a concrete value of a
// handled type, or (b) an interface that is provably non-nil and whose possible
// dynamic types are handled.
func switchToArgsCovered(P *Program) (bool, string) {
	sw := P.Method("servitor/ui", "State", "switchTo")
	tangible := P.NamedType("servitor/pub", "Tangible").Underlying().(*types.Interface)
	container := P.NamedType("servitor/pub", "Container").Underlying().(*types.Interface)
	nn := newNonNil(P)
	handledType := func(t types.Type) bool {
		if sl, ok := t.Underlying().(*types.Slice); ok && isNamed(sl.Elem(), "servitor/pub", "Tangible") {
			return true
		}
		return types.Implements(t, tangible) || types.Implements(t, container)
	}
	for _, e := range P.Callers(sw) {
		if e.Site == nil {
			continue
		}
		arg := e.Site.Common().Args[1]
		mi, ok := arg.(*ssa.MakeInterface)
		if ok {
			if _, isIface := mi.X.Type().Underlying().(*types.Interface); !isIface {
				if !handledType(mi.X.Type()) {
					return false, "switchTo receives a " + typeString(mi.X.Type()) + " at " + P.InstrPos(e.Site)
				}
				if _, isPtr := mi.X.Type().Underlying().(*types.Pointer); isPtr && !nn.Value(mi.X, e.Site.Block(), 0) {
					return false, "switchTo may receive a nil " + typeString(mi.X.Type()) + " at " + P.InstrPos(e.Site)
				}
				continue
			}
		}
		// interface-typed argument (pub.Tangible or pub.Any converted to any)
		v := arg
		if ci, ok := arg.(*ssa.ChangeInterface); ok {
			v = ci.X
		}
		if ct, ok := arg.(*ssa.ChangeType); ok {
			v = ct.X
		}
		if mi != nil {
			v = mi.X
		}
		if !ifaceNonNil(P, nn, v, e.Site.Block()) {
			return false, "switchTo may receive a nil interface at " + P.InstrPos(e.Site) + " (its type switch falls through to the panic)"
		}
		if isNamed(v.Type(), "servitor/pub", "Tangible") {
			continue // every implementation is handled by the Tangible case
		}
		// pub.Any: the producers' dynamic types (decided for FetchUserInput/New by C11.R2's walk)
		f := c01FlowCached(P)
		_, visited := f.Backward(f.val(v), nil)
		for n := range visited {
			k := f.keys[n]
			if k.kind != nValue {
				continue
			}
			if m2, ok := k.v.(*ssa.MakeInterface); ok {
				if _, isIface := m2.X.Type().Underlying().(*types.Interface); isIface {
					continue
				}
				nt := namedOf(m2.X.Type())
				if nt == nil || nt.Obj().Pkg() == nil || nt.Obj().Pkg().Path() != "servitor/pub" {
					continue
				}
				if !isEmptyInterface(m2.Type()) && !isNamed(m2.Type(), "servitor/pub", "Tangible") {
					continue
				}
				if !handledType(m2.X.Type()) {
					return false, "a " + typeString(m2.X.Type()) + " can reach switchTo at " + P.InstrPos(e.Site)
				}
			}
		}
	}
	return true, ""
}

// ifaceNonNil: the interface value v is non-nil at block b: a dominating
// v != nil test, or it is the result of a function that never returns a nil
// interface (every return is a conversion of a non-nil value).
func ifaceNonNil(P *Program, nn *nonNil, v ssa.Value, b *ssa.BasicBlock) bool {
	if knownNonNil(v, b) {
		return true
	}
	switch x := v.(type) {
	case *ssa.MakeInterface:
		return true
	case *ssa.Call:
		callees := P.Callees(x)
		if len(callees) == 0 {
			return false
		}
		for _, callee := range callees {
			if !P.IsServitorFunc(callee) || !neverReturnsNilIface(P, nn, callee, map[*ssa.Function]bool{}) {
				return false
			}
		}
		return true
	case *ssa.Phi:
		for k, e := range x.Edges {
			ok := false
			withEdge(x.Block().Preds[k], x.Block(), func() { ok = ifaceNonNil(P, nn, e, x.Block().Preds[k]) })
			if !ok {
				return false
			}
		}
		return true
	}
	return false
}

func neverReturnsNilIface(P *Program, nn *nonNil, fn *ssa.Function, seen map[*ssa.Function]bool) bool {
	if seen[fn] {
		return true
	}
	seen[fn] = true
	if len(fn.Blocks) == 0 {
		return false
	}
	for _, b := range fn.Blocks {
		ret, ok := b.Instrs[len(b.Instrs)-1].(*ssa.Return)
		if !ok || len(ret.Results) == 0 {
			continue
		}
		v := ret.Results[0]
		if ci, ok := v.(*ssa.ChangeInterface); ok {
			v = ci.X
		}
		if ct, ok := v.(*ssa.ChangeType); ok {
			v = ct.X
		}
		switch x := v.(type) {
		case *ssa.MakeInterface:
			if _, isPtr := x.X.Type().Underlying().(*types.Pointer); isPtr && !nn.Value(x.X, b, 0) {
				if os.Getenv("SERVCHECK_DEBUG") != "" {
					fmt.Println("DEBUG neverReturnsNilIface: ", fn, P.InstrPos(ret), x.X)
				}
				return false
			}
		case *ssa.Call:
			for _, callee := range P.Callees(x) {
				if !P.IsServitorFunc(callee) || !neverReturnsNilIface(P, nn, callee, seen) {
					return false
				}
			}
			if len(P.Callees(x)) == 0 {
				return false
			}
		case *ssa.Extract:
			// result #i of an (interface, error) producer, used where the error is nil
			okEx := false
			if call, isCall := x.Tuple.(*ssa.Call); isCall {
				n := call.Call.Signature().Results().Len()
				if e := resultValue(call, n-1); n >= 2 && e != nil && isErrorType(e.Type()) && knownNil(e, b) {
					okEx = len(P.Callees(call)) > 0
					for _, callee := range P.Callees(call) {
						if !P.IsServitorFunc(callee) || !ifaceProducerSound(P, nn, callee, x.Index) {
							okEx = false
						}
					}
				}
			}
			if !okEx && !knownNonNil(v, b) {
				return false
			}
		default:
			if !knownNonNil(v, b) {
				if os.Getenv("SERVCHECK_DEBUG") != "" {
					fmt.Println("DEBUG neverReturnsNilIface default: ", fn, P.InstrPos(ret), v)
				}
				return false
			}
		}
	}
	return true
}

// ifaceProducerSound: every return of fn whose error may be nil returns, at
// index idx, an interface that holds a non-nil value: a conversion of a
// provably non-nil pointer, or of the pointer result of a sound (value, error)
// producer whose error is returned alongside.
func ifaceProducerSound(P *Program, nn *nonNil, fn *ssa.Function, idx int) bool {
	if len(fn.Blocks) == 0 {
		return false
	}
	for _, b := range fn.Blocks {
		ret, ok := b.Instrs[len(b.Instrs)-1].(*ssa.Return)
		if !ok {
			continue
		}
		e := ret.Results[len(ret.Results)-1]
		if provablyNonNilErr(e, b, 0) {
			continue
		}
		mi, ok := ret.Results[idx].(*ssa.MakeInterface)
		if !ok {
			return false
		}
		if _, isPtr := mi.X.Type().Underlying().(*types.Pointer); !isPtr {
			continue
		}
		if nn.Value(mi.X, b, 0) {
			continue
		}
		paired := false
		if ex, ok := mi.X.(*ssa.Extract); ok {
			if call, ok := ex.Tuple.(*ssa.Call); ok {
				if eex, ok := e.(*ssa.Extract); ok && eex.Tuple == ssa.Value(call) {
					paired = len(P.Callees(call)) > 0
					for _, callee := range P.Callees(call) {
						if !P.IsServitorFunc(callee) || !nn.producerSound(callee, ex.Index) {
							paired = false
						}
					}
				}
			}
		}
		if !paired {
			return false
		}
	}
	return true
}

// feedGetGuarded: every call of (*Feed).Get is dominated by Contains(offset) ==
// true with the same offset and the same feed expression.
func feedGetGuarded(P *Program) (bool, string) {
	get := P.Method("servitor/feed", "Feed", "Get")
	for _, e := range P.Callers(get) {
		if e.Site == nil {
			continue
		}
		args := e.Site.Common().Args
		feedP, off := path(args[0]), args[1]
		ok := false
		for _, f := range factsOf(e.Caller.Func).At(e.Site.Block()) {
			call, isCall := f.Cond.(*ssa.Call)
			if !isCall || !f.Truth {
				continue
			}
			sc := call.Call.StaticCallee()
			if sc == nil || sc.Name() != "Contains" {
				continue
			}
			if path(call.Call.Args[0]) == feedP && (call.Call.Args[1] == off || path(call.Call.Args[1]) == path(off)) {
				ok = true
			}
		}
		if !ok {
			return false, "feed.Get at " + P.InstrPos(e.Site) + " is not dominated by Contains of the same offset on the same feed"
		}
	}
	return true, ""
}

func c07R3(c *Ctx) {
	P := c.P
	cur := P.Method("servitor/feed", "Feed", "Current")
	sw := P.Method("servitor/ui", "State", "switchTo")
	for _, e := range P.Callers(cur) {
		if e.Site == nil {
			continue
		}
		v := e.Site.Value()
		fn := e.Caller.Func
		if v == nil {
			continue
		}
		for _, r := range refs(v) {
			var risky string
			switch x := r.(type) {
			case ssa.CallInstruction:
				cc := x.Common()
				if cc.IsInvoke() && unwrapLoad(cc.Value) == ssa.Value(v) {
					risky = "used as the receiver of " + cc.Method.Name()
				}
			case *ssa.MakeInterface, *ssa.ChangeInterface:
				for _, rr := range refs(x.(ssa.Value)) {
					if ci, ok := rr.(ssa.CallInstruction); ok && ci.Common().StaticCallee() == sw {
						risky = "passed to switchTo"
						r = rr
					}
				}
			case *ssa.TypeAssert, *ssa.BinOp, *ssa.Phi, *ssa.Store:
			}
			if risky == "" {
				c.ok(FuncName(fn)+"/current-use", P.InstrPos(r), FuncName(fn), "comma-ok assertion / comparison: safe on a nil item")
				continue
			}
			c.check(knownNonNil(v, r.Block()), FuncName(fn)+"/current-use", P.InstrPos(r), FuncName(fn),
				"the highlighted item is known non-nil here", "the highlighted item ("+trimPkg(cur.String())+" returns nil on an empty page) is "+risky+" without a nil check: the key crashes the UI on a page opened from an empty collection")
		}
	}
}

func c07R4(c *Ctx) {
	P := c.P
	upd := P.Method("servitor/ui", "State", "Update")
	la := NewLockAnalysis(P)
	fi := la.info[upd]
	// the loading test
	var guard *ssa.If
	eachInstr(upd, func(_ *ssa.BasicBlock, _ int, in ssa.Instruction) {
		iff, ok := in.(*ssa.If)
		if !ok || guard != nil {
			return
		}
		cmp, ok := iff.Cond.(*ssa.BinOp)
		if !ok || cmp.Op != token.EQL || !strings.HasSuffix(path(cmp.X), ".&mode.*") {
			return
		}
		if k, isC := cmp.Y.(*ssa.Const); isC && k.Value != nil && k.Value.Kind() == constant.Int {
			if kv, _ := constant.Int64Val(k.Value); kv == 0 {
				guard = iff
			}
		}
	})
	if guard == nil {
		c.bad(FuncName(upd)+"/loading-guard", P.Pos(upd.Pos()), FuncName(upd), "Update no longer returns early while the mode is loading")
		return
	}
	tb := guard.Block().Succs[0]
	_, isRet := tb.Instrs[len(tb.Instrs)-1].(*ssa.Return)
	okAll := isRet && len(tb.Instrs) <= 2
	why := "the loading branch does more than return"
	for _, ga := range fi.accesses {
		if ga.in.Block() == guard.Block() && instrIndex(ga.in) < instrIndex(guard) {
			continue // the read of mode itself
		}
		if !guard.Block().Succs[1].Dominates(ga.in.Block()) {
			okAll = false
			why = "state is touched at " + P.InstrPos(ga.in) + " before (or regardless of) the loading test"
		}
	}
	c.check(okAll, FuncName(upd)+"/loading-guard", P.InstrPos(guard), FuncName(upd), "while loading, Update returns before reading or writing any other state", why)
}

// c07R5: the typed buffer grows by string(key) — one rune, one or two bytes —
// per key press; Backspace must therefore shorten it by one rune: the value
// stored back is a conversion of a []rune slice, never a byte-slice of the
// string (which would leave half a character and keep the mode from returning
// to normal).
func c07R5(c *Ctx) {
	P := c.P
	upd := P.Method("servitor/ui", "State", "Update")
	bf := P.Field("servitor/ui", "State", "buffer")
	nAppend, nErase := 0, 0
	eachInstr(upd, func(_ *ssa.BasicBlock, _ int, in ssa.Instruction) {
		st, ok := in.(*ssa.Store)
		if !ok {
			return
		}
		fa, ok := st.Addr.(*ssa.FieldAddr)
		if !ok || fieldOf(fa) != bf {
			return
		}
		switch v := st.Val.(type) {
		case *ssa.BinOp:
			// buffer += string(input)
			if cv, ok := v.Y.(*ssa.Convert); ok && v.Op == token.ADD {
				if b, ok := cv.X.Type().Underlying().(*types.Basic); ok && b.Info()&types.IsInteger != 0 {
					nAppend++
					c.ok(FuncName(upd)+"/buffer-append", P.InstrPos(in), FuncName(upd), "one key press appends one rune")
				}
			}
		case *ssa.Slice:
			nErase++
			c.bad(FuncName(upd)+"/buffer-erase", P.InstrPos(in), FuncName(upd), "Backspace shortens the buffer by one byte of the string although a key press appends a whole rune (bytes >= 0x80 occupy two): the buffer keeps half a character and the mode does not return to normal when it should")
		case *ssa.Convert:
			if sl, ok := v.X.(*ssa.Slice); ok {
				if st, ok := sl.X.Type().Underlying().(*types.Slice); ok && types.Identical(st.Elem().Underlying(), types.Typ[types.Int32]) {
					nErase++
					c.ok(FuncName(upd)+"/buffer-erase", P.InstrPos(in), FuncName(upd), "Backspace removes the last rune")
				}
			}
		}
	})
	c.check(nAppend >= 1 && nErase >= 1, FuncName(upd)+"/buffer-editing", P.Pos(upd.Pos()), FuncName(upd),
		fmt.Sprintf("%d append site(s) and %d erase site(s) analysed", nAppend, nErase), "Update no longer appends typed keys to / erases from the buffer in a recognisable way")
}

// c07R6: the keymap speaks about pages as independent things: opening an item
// shows it with the cursor on it, and going back shows the previous page as it
// was left. Both rest on every entry of the history being a page of its own.
// Every value added to the history must therefore be a Page allocated by the
// function that adds it (through every phi edge); a page taken from a field, a
// map or a cache is shared between entries, so moving on one moves the other
// and a re-opened item starts where the old page was left.
func c07R6(c *Ctx) {
	P := c.P
	n := 0
	for _, fn := range P.FuncsIn("servitor/ui") {
		fname := FuncName(fn)
		eachInstr(fn, func(_ *ssa.BasicBlock, _ int, in ssa.Instruction) {
			call, ok := in.(*ssa.Call)
			if !ok {
				return
			}
			fo := calleeObj(&call.Call)
			if fo == nil || fo.Name() != "Add" || fo.Pkg() == nil || fo.Pkg().Path() != "servitor/history" || len(call.Call.Args) != 2 {
				return
			}
			n++
			var fresh func(v ssa.Value, depth int) bool
			fresh = func(v ssa.Value, depth int) bool {
				v = unwrapLoad(v)
				if depth > 6 {
					return false
				}
				switch x := v.(type) {
				case *ssa.Alloc:
					return x.Heap && x.Parent() == fn
				case *ssa.Const:
					return x.Value == nil // "no page" (tested before the entry is added): not an existing page either
				case *ssa.Phi:
					for _, e := range x.Edges {
						if !fresh(e, depth+1) {
							return false
						}
					}
					return true
				}
				return false
			}
			c.check(fresh(call.Call.Args[1], 0), fname+"/history-entry", P.InstrPos(in), fname, "a page allocated for this entry",
				"a page that already exists (from a field, map or cache) is added to the history: two entries then share cursor and contents, a re-opened item does not start on the opened item and moving on one page moves the other")
		})
	}
	c.info("history_adds", n)
}

// anchorKeyOf: the key of fn in the anchor inventory ("pkg.Name" or "pkg.(T).Name").
func anchorKeyOf(fn *ssa.Function) string {
	if fn.Pkg == nil {
		return ""
	}
	if recv := fn.Signature.Recv(); recv != nil {
		if n := namedOf(recv.Type()); n != nil {
			return fn.Pkg.Pkg.Path() + ".(" + n.Obj().Name() + ")." + fn.Name()
		}
	}
	return fn.Pkg.Pkg.Path() + "." + fn.Name()
}

// c07R9: while the media hook runs the UI stays usable (mode `opening` accepts
// keys), so the goroutine that waits for the hook must leave mode and buffer
// alone unless the UI is still in `opening` when the hook ends — otherwise a
// command being typed is wiped and the rest of it runs as navigation keys
// (seed C07-1r9: the reset moved into a `defer` registered above the guard).
// Every store into State.mode / State.buffer in the goroutine(s) started by
// openExternally is dominated by the fact `s.mode == K`, K being the mode
// openExternally itself sets before it starts them; a store inside a deferred
// closure is not dominated by anything that happens after the defer statement.
func c07R9(c *Ctx) {
	P := c.P
	fn := P.Method("servitor/ui", "State", "openExternally")
	modeF := P.Field("servitor/ui", "State", "mode")
	bufF := P.Field("servitor/ui", "State", "buffer")
	// K: the constant stored into mode by openExternally itself
	var K *ssa.Const
	eachInstr(fn, func(_ *ssa.BasicBlock, _ int, in ssa.Instruction) {
		if st, ok := in.(*ssa.Store); ok {
			if fa, ok := st.Addr.(*ssa.FieldAddr); ok && fieldOf(fa) == modeF && K == nil {
				K, _ = st.Val.(*ssa.Const)
			}
		}
	})
	if K == nil {
		c.bad(FuncName(fn)+"/opening-mode", P.Pos(fn.Pos()), FuncName(fn), "openExternally does not set a constant mode before it starts the hook")
		return
	}
	var goroutines []*ssa.Function
	eachInstr(fn, func(_ *ssa.BasicBlock, _ int, in ssa.Instruction) {
		if g, ok := in.(*ssa.Go); ok {
			if mc, ok := g.Call.Value.(*ssa.MakeClosure); ok {
				goroutines = append(goroutines, mc.Fn.(*ssa.Function))
			} else if sc := g.Call.StaticCallee(); sc != nil && P.IsServitorFunc(sc) {
				goroutines = append(goroutines, sc)
			}
		}
	})
	n := 0
	for _, g := range goroutines {
		// deferred closures of g
		deferred := map[*ssa.Function]bool{}
		eachInstr(g, func(_ *ssa.BasicBlock, _ int, in ssa.Instruction) {
			if d, ok := in.(*ssa.Defer); ok {
				if mc, ok := d.Call.Value.(*ssa.MakeClosure); ok {
					deferred[mc.Fn.(*ssa.Function)] = true
				}
			}
		})
		for _, f := range append([]*ssa.Function{g}, Closures(g)...) {
			fname := FuncName(f)
			eachInstr(f, func(b *ssa.BasicBlock, _ int, in ssa.Instruction) {
				st, ok := in.(*ssa.Store)
				if !ok {
					return
				}
				fa, ok := st.Addr.(*ssa.FieldAddr)
				if !ok || (fieldOf(fa) != modeF && fieldOf(fa) != bufF) {
					return
				}
				n++
				okGuard := false
				if !deferred[f] && f == g {
					for _, fact := range factsOf(f).At(b) {
						cmp, ok := fact.Cmp()
						if !ok || cmp.Op != token.EQL {
							continue
						}
						for _, side := range [][2]ssa.Value{{cmp.X, cmp.Y}, {cmp.Y, cmp.X}} {
							k, isC := side[1].(*ssa.Const)
							if isC && k.Value != nil && K.Value != nil && k.Value.ExactString() == K.Value.ExactString() && loadedField(side[0]) == modeF {
								okGuard = true
							}
						}
					}
				}
				c.check(okGuard, fname+"/hook-end:"+fieldOf(fa).Name(), P.InstrPos(in), fname, "written only where the UI is known to be still in the mode openExternally set",
					"when the media hook ends, State."+fieldOf(fa).Name()+" is written on a path that does not know the UI to be still in `opening` (a deferred reset runs on the early return too): a command the user is typing meanwhile is wiped and its remaining keys act as navigation")
			})
		}
	}
	if n == 0 {
		c.bad(FuncName(fn)+"/hook-end", P.Pos(fn.Pos()), FuncName(fn), "the goroutine that waits for the media hook and resets the mode is not found")
	}
}

// c07R12: every block of Update that handles a key of the plain keymap (the
// taken side of `input == K`) is dominated, as far as the mode is concerned,
// only by `mode != loading`, `mode != command` and `mode != selection` — the
// three modes with a keymap of their own. A handler that sits under `mode ==
// normal`, or behind any other exclusion, is dead in the opening and problem
// modes, where the keymap says the key works.
func c07R12(c *Ctx) {
	P := c.P
	upd := P.Method("servitor/ui", "State", "Update")
	input := upd.Params[1]
	modeF := P.Field("servitor/ui", "State", "mode")
	own := map[int64]string{}
	for _, n := range []string{"loading", "command", "selection"} {
		k, ok := P.Package("servitor/ui").Types.Scope().Lookup(n).(*types.Const)
		if !ok {
			c.bad("servitor/ui/modes", "ui", "servitor/ui", "the mode constant "+n+" is not found")
			return
		}
		v, _ := constant.Int64Val(k.Val())
		own[v] = n
	}
	// what the mode facts in front of block h say about a handler there
	modeNarrowing := func(h *ssa.BasicBlock) (why string, ownMode bool) {
		for _, f := range factsOf(upd).At(h) {
			fc, ok := f.Cmp()
			if !ok {
				continue
			}
			for _, side := range [][2]ssa.Value{{fc.X, fc.Y}, {fc.Y, fc.X}} {
				ld, ok := side[0].(*ssa.UnOp)
				if !ok || ld.Op != token.MUL {
					continue
				}
				fa, ok := ld.X.(*ssa.FieldAddr)
				if !ok || fieldOf(fa) != modeF {
					continue
				}
				m, isK := constInt(side[1])
				if !isK {
					why = "a test of the mode against something that is not a constant"
					continue
				}
				if fc.Op == token.NEQ && own[m] != "" {
					continue
				}
				if fc.Op == token.EQL && own[m] != "" {
					ownMode = true
					continue
				}
				why = fmt.Sprintf("the handler is only reached when mode %s %d", fc.Op, m)
			}
		}
		return why, ownMode
	}
	// a table of handlers indexed with the key: the place of the lookup stands for every key in the table
	eachInstr(upd, func(b *ssa.BasicBlock, _ int, in ssa.Instruction) {
		lk, ok := in.(*ssa.Lookup)
		if !ok || unwrapLoad(lk.Index) != ssa.Value(input) {
			return
		}
		u, ok := lk.X.(*ssa.UnOp)
		if !ok {
			return
		}
		g, ok := u.X.(*ssa.Global)
		if !ok || !effectivelyConstGlobal(P, g) {
			return
		}
		why, ownMode := modeNarrowing(b)
		if ownMode {
			return
		}
		for _, fn := range P.Funcs {
			if fn.Synthetic == "" || fn.Name() != "init" || fn.Pkg != g.Pkg {
				continue
			}
			eachInstr(fn, func(_ *ssa.BasicBlock, _ int, in2 ssa.Instruction) {
				mu, ok := in2.(*ssa.MapUpdate)
				if !ok {
					return
				}
				stored := false
				for _, r := range refs(mu.Map) {
					if st, ok := r.(*ssa.Store); ok && st.Addr == ssa.Value(g) {
						stored = true
					}
				}
				k, isC := constInt(mu.Key)
				if !stored || !isC {
					return
				}
				name := fmt.Sprintf("%q", rune(k))
				c.check(why == "", FuncName(upd)+"/key:"+name, P.InstrPos(lk), FuncName(upd), "looked up in the table of handlers in every mode that has no keymap of its own",
					"key "+name+" is not handled in every mode that uses the plain keymap: "+why+" (in the other modes the key press is dropped)")
			})
		}
	})
	seen := map[*ssa.BasicBlock]bool{}
	eachInstr(upd, func(b *ssa.BasicBlock, _ int, in ssa.Instruction) {
		cmp, ok := in.(*ssa.BinOp)
		if !ok || cmp.Op != token.EQL || unwrapLoad(cmp.X) != ssa.Value(input) {
			return
		}
		k, isC := constInt(cmp.Y)
		if !isC {
			return
		}
		for _, r := range refs(cmp) {
			iff, ok := r.(*ssa.If)
			if !ok || seen[iff.Block().Succs[0]] {
				continue
			}
			h := iff.Block().Succs[0]
			seen[h] = true
			name := fmt.Sprintf("%q", rune(k))
			why, ownMode := modeNarrowing(h)
			// the escape, backspace and enter keys belong to the modes themselves
			if k == 27 || k == 127 || k == 8 || k == 13 || k == 10 || ownMode {
				continue
			}
			c.check(why == "", FuncName(upd)+"/key:"+name, P.InstrPos(iff), FuncName(upd), "handled in every mode that has no keymap of its own",
				"key "+name+" is not handled in every mode that uses the plain keymap: "+why+" (in the other modes the key press is dropped)")
		}
	})
}

// c07R15: space, c, r, a and the link keys open a Container through switchTo,
// which fills the new page with one Harvest. The keys that follow (j, k, space
// again) act on the highlighted item, so the page must hold at least that one.
// config accepts preload_amount >= 0 (C19.R3); the amount asked of the first
// Harvest must therefore be at least 1 for every such value — on the pinned
// tree it is preload_amount + 1 (seed C07-2r12 reused the helper of the
// background loaders, which asks for preload_amount: zero items for 0).
func c07R15(c *Ctx) {
	P := c.P
	fn := P.Method("servitor/ui", "State", "switchTo")
	fname := FuncName(fn)
	n := 0
	eachInstr(fn, func(_ *ssa.BasicBlock, _ int, in ssa.Instruction) {
		call, ok := in.(*ssa.Call)
		if !ok {
			return
		}
		name := ""
		if call.Call.IsInvoke() {
			name = call.Call.Method.Name()
		} else if sc := call.Call.StaticCallee(); sc != nil {
			name = sc.Name()
		}
		if name != "Harvest" {
			return
		}
		args := call.Call.Args
		if !call.Call.IsInvoke() {
			args = args[1:]
		}
		if len(args) < 1 {
			return
		}
		n++
		amount := args[0]
		g := lin(amount)
		g.c -= 1
		// the configured context is not negative
		nonNeg := map[string]bool{}
		var walk func(v ssa.Value, d int)
		walk = func(v ssa.Value, d int) {
			if d > 8 {
				return
			}
			switch x := v.(type) {
			case *ssa.UnOp:
				if x.Op == token.MUL {
					if fp, ok := configFieldPath(x.X); ok && fp == "Network.Context" {
						for k := range lin(x).coef {
							nonNeg[k] = true
						}
					}
					return
				}
				walk(x.X, d+1)
			case *ssa.BinOp:
				walk(x.X, d+1)
				walk(x.Y, d+1)
			case *ssa.Convert:
				walk(x.X, d+1)
			case *ssa.ChangeType:
				walk(x.X, d+1)
			}
		}
		walk(amount, 0)
		okA := proveNonNeg(g, nil, nonNeg)
		c.check(okA, fname+"/first-harvest", P.InstrPos(in), fname, "asks for "+lin(amount).String()+" items: at least one for every preload_amount >= 0",
			"the page of a newly opened list is filled with a harvest of "+lin(amount).String()+" items, which is not at least one for every accepted preload_amount (0 is accepted): the page stays empty, nothing is highlighted and the keys that act on the highlighted item do nothing")
	})
	if n == 0 {
		c.bad(fname+"/first-harvest", P.Pos(fn.Pos()), fname, "switchTo no longer fills the page of a Container with a Harvest")
	}
}
