package main

import (
	"bytes"
	"fmt"
	"go/ast"
	"go/parser"
	"go/token"
	"go/types"
	"os"
	"sort"
	"strings"

	"golang.org/x/tools/go/packages"
)

// Normalisation by inlining.
//
// Most rules are anchored on the functions that existed when they were
// written (jtp.Get, client.FetchUnknown, ui.(*State).Update, …). The commonest
// behaviour-preserving edit — extracting part of such a function into a new
// helper — would move the constructs a rule looks for out of its sight. Before
// the rules run, every call of a function that is *not* in the anchor list
// (i.e. that did not exist on the pinned tree), is not recursive and has a
// body, is replaced in memory by that function's body (parameters bound to
// the arguments, returns turned into assignments to result variables plus a
// jump to the end). The rewritten files are handed to go/packages as an
// overlay; nothing is written to disk and nothing is executed. The rules then
// see the program as if the helper had never been extracted — including any
// defect that sits inside the helper.

const maxInlineRounds = 12
const maxSitesPerHelper = 8

type inlineSite struct {
	pkg    *packages.Package
	file   *ast.File
	caller *ast.FuncDecl
	call   *ast.CallExpr
	value  ast.Expr // form "value": the function or method value being used
	stmt   ast.Stmt // the statement (direct element of a statement list) containing the call
	form   string
	next   ast.Stmt // the statement that follows stmt in its list, if any
	helper *ast.FuncDecl
	hpkg   *packages.Package
}

func funcKey(pkgPath string, fd *ast.FuncDecl) string {
	if fd.Recv != nil && len(fd.Recv.List) == 1 {
		t := fd.Recv.List[0].Type
		if s, ok := t.(*ast.StarExpr); ok {
			t = s.X
		}
		if ix, ok := t.(*ast.IndexExpr); ok {
			t = ix.X
		}
		if id, ok := t.(*ast.Ident); ok {
			return pkgPath + ".(" + id.Name + ")." + fd.Name.Name
		}
	}
	return pkgPath + "." + fd.Name.Name
}

// inlinable: structural restrictions on the helper itself.
func inlinableHelper(pkg *packages.Package, fd *ast.FuncDecl) bool {
	if fd.Body == nil {
		return false
	}
	// a generic helper is inlined with the type arguments of each call (expandSite)
	if fd.Name.Name == "init" || fd.Name.Name == "main" {
		return false
	}
	// a variadic last parameter is bound to a slice literal of the arguments (calls that spread a slice are refused at the site)
	return true
}

// needsOwnFrame: the helper defers or recovers, which is tied to its own
// function frame: it can only be inlined where it is the target of a go or
// defer statement (the function literal that replaces it is a frame of its own).
func needsOwnFrame(fd *ast.FuncDecl) bool {
	need := false
	ast.Inspect(fd.Body, func(n ast.Node) bool {
		switch x := n.(type) {
		case *ast.FuncLit:
			return false
		case *ast.DeferStmt:
			need = true
		case *ast.CallExpr:
			if id, isId := x.Fun.(*ast.Ident); isId && id.Name == "recover" {
				need = true
			}
		}
		return true
	})
	return need
}

// Normalise returns an overlay (path -> content) in which helpers unknown to
// the anchor list have been inlined, or nil if there is nothing to do.
func Normalise(opt LoadOptions, testIdents map[string]bool, loadFn func(map[string][]byte) []*packages.Package) (map[string][]byte, []string) {
	overlay := map[string][]byte{}
	for k, v := range opt.Overlay {
		overlay[k] = v
	}
	var log []string
	changed := false
	var prev map[string][]byte
	counter := 0
	// a pass whose edits do not type-check is switched off for the rest of the
	// run and its round taken back; the other passes carry on
	disabled := map[string]bool{}
	lastPass := ""
	renamePrivatiseOff = false
	rounds := maxInlineRounds
	for round := 0; round <= rounds; round++ {
		pkgs := loadFn(overlay)
		if pkgs == nil {
			return nil, append(log, "load failed; not normalised")
		}
		typeErr := ""
		packages.Visit(pkgs, nil, func(p *packages.Package) {
			if isServitorPath(p.PkgPath) && len(p.Errors) > 0 && typeErr == "" {
				typeErr = strings.ReplaceAll(fmt.Sprint(p.Errors), "\n", " / ")
			}
		})
		if typeErr != "" {
			if prev == nil || lastPass == "" {
				return nil, log // the tree itself does not type-check; Load reports it
			}
			// the last round of edits produced an ill-typed program: take it back
			overlay = prev
			if lastPass == "rename" && !renamePrivatiseOff {
				renamePrivatiseOff = true // once more, without private copies of shared types
				log = append(log, "round of pass rename undone (result did not type-check: "+typeErr+"); retried without private copies of shared types")
			} else {
				disabled[lastPass] = true
				log = append(log, "round of pass "+lastPass+" undone (result did not type-check: "+typeErr+"); pass switched off")
			}
			lastPass = ""
			if rounds < maxInlineRounds+3 {
				rounds++
			}
			continue
		}
		if round == rounds {
			break
		}
		type pass struct {
			name string
			run  func() (map[string][]byte, []string)
		}
		stop := false
		passes := []pass{
			// names that were renamed are renamed back first, so that renamed anchors
			// are neither inlined as if they were new helpers nor missed by the rules
			{"rename", func() (map[string][]byte, []string) { return renameRound(pkgs, overlay) }},
			{"reshape", func() (map[string][]byte, []string) { return reshapeRound(pkgs, overlay) }},
			{"unembed", func() (map[string][]byte, []string) { return unembedRound(pkgs, overlay) }},
			{"table", func() (map[string][]byte, []string) { return tableRound(pkgs, overlay, &counter) }},
			{"untype", func() (map[string][]byte, []string) { return untypeRound(pkgs, overlay) }},
			{"unrollcounted", func() (map[string][]byte, []string) { return unrollCountedRound(pkgs, overlay) }},
			{"exprhelper", func() (map[string][]byte, []string) { return exprHelperRound(pkgs, overlay, testIdents) }},
			{"closure", func() (map[string][]byte, []string) { return closureRound(pkgs, overlay) }},
			{"closurelift", func() (map[string][]byte, []string) { return liftClosureRound(pkgs, overlay) }},
			{"funcvar", func() (map[string][]byte, []string) { return funcVarRound(pkgs, overlay) }},
			{"splitcond", func() (map[string][]byte, []string) { return splitCondRound(pkgs, overlay, &counter) }},
			{"inline", func() (map[string][]byte, []string) {
				e, m, bad := inlineRound(pkgs, overlay, testIdents, &counter)
				if bad {
					stop = true
					return nil, m
				}
				return e, m
			}},
			// nothing left to inline: unbox results of new struct types, then
			// replace locals of new struct types by their fields
			{"unroll", func() (map[string][]byte, []string) { return unrollRound(pkgs, overlay) }},
			{"unbox", func() (map[string][]byte, []string) { return unboxRound(pkgs, overlay, &counter) }},
			{"unboxparams", func() (map[string][]byte, []string) { return unboxParamsRound(pkgs, overlay) }},
			{"sra", func() (map[string][]byte, []string) { return sraRound(pkgs, overlay) }},
			{"ptrsra", func() (map[string][]byte, []string) { return ptrSraRound(pkgs, overlay) }},
		}
		var edits map[string][]byte
		for _, ps := range passes {
			if disabled[ps.name] {
				continue
			}
			e, msgs := ps.run()
			if len(e) > 0 || ps.name == "closure" || ps.name == "inline" || ps.name == "unroll" || ps.name == "unrollcounted" || ps.name == "unbox" || ps.name == "unboxparams" || ps.name == "sra" || ps.name == "ptrsra" || ps.name == "unembed" || ps.name == "untype" || ps.name == "table" {
				log = append(log, msgs...) // these passes also say why something was left alone
			}
			if stop {
				break
			}
			if len(e) > 0 {
				edits, lastPass = e, ps.name
				break
			}
		}
		if stop || len(edits) == 0 {
			break
		}
		prev = map[string][]byte{}
		for k, v := range overlay {
			prev[k] = v
		}
		for path, content := range edits {
			overlay[path] = content
		}
		changed = true
	}
	if !changed || (prev != nil && len(overlay) == len(opt.Overlay) && sameOverlay(overlay, opt.Overlay)) {
		return nil, log
	}
	return overlay, log
}

func sameOverlay(a, b map[string][]byte) bool {
	if len(a) != len(b) {
		return false
	}
	for k, v := range a {
		if w, ok := b[k]; !ok || !bytes.Equal(v, w) {
			return false
		}
	}
	return true
}

func readSource(path string, overlay map[string][]byte) []byte {
	if b, ok := overlay[path]; ok {
		return b
	}
	b, _ := os.ReadFile(path)
	return b
}

func inlineRound(pkgs []*packages.Package, overlay map[string][]byte, testIdents map[string]bool, counterp *int) (map[string][]byte, []string, bool) {
	var log []string
	computeSentinelErrs(pkgs)
	// index declarations
	decls := map[types.Object]*declInfo{}
	for _, pkg := range pkgs {
		if !isServitorPath(pkg.PkgPath) || len(pkg.Errors) > 0 {
			if isServitorPath(pkg.PkgPath) && len(pkg.Errors) > 0 {
				return nil, append(log, "package "+pkg.PkgPath+" has type errors; not normalised"), true
			}
			continue
		}
		for _, f := range pkg.Syntax {
			if strings.HasSuffix(pkg.Fset.File(f.Pos()).Name(), "_test.go") {
				continue
			}
			for _, d := range f.Decls {
				fd, ok := d.(*ast.FuncDecl)
				if !ok {
					continue
				}
				obj := pkg.TypesInfo.Defs[fd.Name]
				if obj != nil {
					decls[obj] = &declInfo{pkg, fd, obj}
				}
			}
		}
	}
	// candidate helpers: unknown to the anchor list
	cand := map[types.Object]*declInfo{}
	moved := movedAnchorNames(pkgs)
	for obj, d := range decls {
		key := funcKey(d.pkg.PkgPath, d.fd)
		if anchorFuncs[key] {
			continue
		}
		if from, isMoved := moved[strings.ToLower(d.fd.Name.Name)]; isMoved && from != d.pkg.PkgPath {
			log = append(log, "not inlined (has the name of an anchor that is gone from its package: taken to be that anchor, moved): "+key)
			continue
		}
		if !inlinableHelper(d.pkg, d.fd) {
			log = append(log, "not inlined (shape): "+key)
			continue
		}
		// a method must not be needed to satisfy an interface of the module
		if d.fd.Recv != nil && interfaceMethodName(pkgs, d.fd.Name.Name) {
			continue
		}
		if testIdents[d.pkg.PkgPath+"\x00"+d.fd.Name.Name] {
			log = append(log, "not inlined (named in a test file): "+key)
			continue
		}
		cand[obj] = d
	}
	if len(cand) == 0 {
		return nil, log, false
	}
	// uses of the candidates
	uses := map[types.Object][]*inlineSite{}
	blocked := map[types.Object]string{}
	for _, pkg := range pkgs {
		if !isServitorPath(pkg.PkgPath) {
			continue
		}
		for _, f := range pkg.Syntax {
			if strings.HasSuffix(pkg.Fset.File(f.Pos()).Name(), "_test.go") {
				continue
			}
			for _, d := range f.Decls {
				fd, ok := d.(*ast.FuncDecl)
				if gd, isGen := d.(*ast.GenDecl); isGen {
					// a helper named in a package-level declaration stays
					ast.Inspect(gd, func(n ast.Node) bool {
						if id, ok := n.(*ast.Ident); ok {
							if obj := originOf(pkg.TypesInfo.Uses[id]); obj != nil && cand[obj] != nil {
								blocked[obj] = "used in a package-level declaration"
							}
						}
						return true
					})
				}
				if !ok || fd.Body == nil {
					continue
				}
				collectSites(pkg, f, fd, cand, func(obj types.Object, s *inlineSite, why string) {
					if why != "" {
						blocked[obj] = why
						return
					}
					d := cand[obj]
					s.helper, s.hpkg = d.fd, d.pkg
					uses[obj] = append(uses[obj], s)
				})
			}
		}
	}
	// choose helpers to inline this round: all uses supported, caller in the same
	// package, helper body contains no call of another candidate (leaf first),
	// helper not called from itself
	var chosen []types.Object
	for obj, d := range cand {
		key := funcKey(d.pkg.PkgPath, d.fd)
		if why, isBlocked := blocked[obj]; isBlocked {
			log = append(log, "not inlined ("+why+"): "+key)
			continue
		}
		sites := uses[obj]
		limit := maxSitesPerHelper
		if d.fd.Body != nil && len(d.fd.Body.List) <= 4 {
			limit = 4 * maxSitesPerHelper // a tiny helper (a setter, a reset) may be used all over a function
		}
		if len(sites) == 0 {
			continue
		}
		if len(sites) > limit {
			log = append(log, fmt.Sprintf("not inlined (%d call sites): %s", len(sites), key))
			continue
		}
		okAll := true
		for _, s := range sites {
			if s.pkg != d.pkg || s.caller == d.fd {
				okAll = false
			}
		}
		if needsOwnFrame(d.fd) {
			ownFrame := true
			for _, s := range sites {
				if s.form != "go" && s.form != "defer" {
					ownFrame = false
				}
			}
			if !ownFrame {
				log = append(log, "not inlined (defers or recovers, and is called outside go/defer statements): "+key)
				continue
			}
		}
		callsCandidate := false
		ast.Inspect(d.fd.Body, func(n ast.Node) bool {
			if id, ok := n.(*ast.Ident); ok {
				if o := originOf(d.pkg.TypesInfo.Uses[id]); o != nil && cand[o] != nil && o != obj {
					// a helper that cannot be inlined itself (some call of it stands where
					// the inliner cannot put its body) does not hold up its callers
					if _, isBlocked := blocked[o]; !isBlocked {
						callsCandidate = true
					}
				}
			}
			return true
		})
		if !okAll {
			log = append(log, "not inlined (caller in another package or recursive): "+key)
			continue
		}
		if callsCandidate {
			continue // next round
		}
		chosen = append(chosen, obj)
	}
	if len(chosen) == 0 {
		return nil, log, false
	}
	sort.Slice(chosen, func(i, j int) bool { return chosen[i].Pos() < chosen[j].Pos() })
	// sites must not be nested in each other's statements within one file: keep
	// one site per statement, others wait for the next round
	type splice struct {
		start, end int
		text       string
	}
	perFile := map[string][]splice{}
	newImports := map[string]map[string]string{}
	fileOf := map[string]*ast.File{}
	pkgOfFile := map[string]*packages.Package{}
	usedStmt := map[ast.Stmt]bool{}
	counter := *counterp
	defer func() { *counterp = counter }()
	inlinedAll := map[types.Object]bool{}
	for _, obj := range chosen {
		d := cand[obj]
		all := true
		for _, s := range uses[obj] {
			if usedStmt[s.stmt] {
				all = false
				continue
			}
			// a statement of a helper that is itself being removed this round is not rewritten
			if cand[s.pkg.TypesInfo.Defs[s.caller.Name]] != nil && containsObj(chosen, s.pkg.TypesInfo.Defs[s.caller.Name]) {
				all = false
				continue
			}
			counter++
			if s.next != nil && usedStmt[s.next] {
				all = false
				continue
			}
			{
				fnm := s.pkg.Fset.File(s.file.Pos()).Name()
				lo, hi := s.pkg.Fset.Position(s.stmt.Pos()).Offset, s.pkg.Fset.Position(s.stmt.End()).Offset
				if s.next != nil {
					hi = s.pkg.Fset.Position(s.next.End()).Offset
				}
				clash := false
				for _, sp := range perFile[fnm] {
					if lo < sp.end && sp.start < hi {
						clash = true
					}
				}
				if clash {
					all = false
					continue
				}
			}
			ex, err := expandSiteSafe(s, counter, overlay)
			if err != nil {
				log = append(log, fmt.Sprintf("not inlined (%v): %s", err, funcKey(d.pkg.PkgPath, d.fd)))
				all = false
				continue
			}
			usedStmt[s.stmt] = true
			endPos := s.stmt.End()
			if ex.consumedNext {
				usedStmt[s.next] = true
				endPos = s.next.End()
			}
			text := ex.text
			fn := s.pkg.Fset.File(s.file.Pos()).Name()
			fileOf[fn] = s.file
			pkgOfFile[fn] = s.pkg
			for path, name := range ex.addImports {
				if newImports[fn] == nil {
					newImports[fn] = map[string]string{}
				}
				newImports[fn][path] = name
			}
			perFile[fn] = append(perFile[fn], splice{s.pkg.Fset.Position(s.stmt.Pos()).Offset, s.pkg.Fset.Position(endPos).Offset, text})
		}
		inlinedAll[obj] = all
	}
	// remove the declarations of helpers whose every use was inlined
	for _, obj := range chosen {
		if !inlinedAll[obj] {
			continue
		}
		d := cand[obj]
		fn := d.pkg.Fset.File(d.fd.Pos()).Name()
		start := d.pkg.Fset.Position(d.fd.Pos()).Offset
		if d.fd.Doc != nil {
			start = d.pkg.Fset.Position(d.fd.Doc.Pos()).Offset
		}
		end := d.pkg.Fset.Position(d.fd.End()).Offset
		for _, f := range d.pkg.Syntax {
			if d.pkg.Fset.File(f.Pos()).Name() == fn {
				fileOf[fn] = f
			}
		}
		pkgOfFile[fn] = d.pkg
		perFile[fn] = append(perFile[fn], splice{start, end, ""})
		log = append(log, "inlined: "+funcKey(d.pkg.PkgPath, d.fd))
	}
	out := map[string][]byte{}
	for fn, sp := range perFile {
		src := readSource(fn, overlay)
		sort.Slice(sp, func(i, j int) bool { return sp[i].start > sp[j].start })
		okFile := true
		for i := 1; i < len(sp); i++ {
			if sp[i].end > sp[i-1].start {
				okFile = false // overlapping edits: give up on this file this round
			}
		}
		if !okFile {
			log = append(log, "overlapping inline edits in "+fn+"; skipped")
			continue
		}
		buf := append([]byte{}, src...)
		for _, e := range sp {
			buf = append(buf[:e.start], append([]byte(e.text), buf[e.end:]...)...)
		}
		// imports the inlined bodies need in this file: a declaration of their own right after the package clause
		if imps := newImports[fn]; len(imps) > 0 {
			if f := fileOf[fn]; f != nil {
				at := pkgOfFile[fn].Fset.Position(f.Name.End()).Offset
				// the package clause lies before every splice (edits do not move it)
				var decl strings.Builder
				var paths []string
				for p := range imps {
					paths = append(paths, p)
				}
				sort.Strings(paths)
				for _, p := range paths {
					fmt.Fprintf(&decl, "\nimport %s %q", imps[p], p)
				}
				buf = append(buf[:at], append([]byte(decl.String()), buf[at:]...)...)
			}
		}
		out[fn] = pruneImports(buf, pkgOfFile[fn])
	}
	return out, log, false
}

func containsObj(xs []types.Object, o types.Object) bool {
	for _, x := range xs {
		if x == o {
			return true
		}
	}
	return false
}

func interfaceMethodName(pkgs []*packages.Package, name string) bool {
	for _, pkg := range pkgs {
		if !isServitorPath(pkg.PkgPath) || pkg.Types == nil {
			continue
		}
		sc := pkg.Types.Scope()
		for _, n := range sc.Names() {
			if tn, ok := sc.Lookup(n).(*types.TypeName); ok {
				if it, ok := tn.Type().Underlying().(*types.Interface); ok {
					for i := 0; i < it.NumMethods(); i++ {
						if it.Method(i).Name() == name {
							return true
						}
					}
				}
			}
		}
	}
	// methods of well-known library interfaces
	switch name {
	case "String", "Error", "Read", "Write", "Close", "Len", "Less", "Swap":
		return true
	}
	return false
}

type declInfo struct {
	pkg *packages.Package
	fd  *ast.FuncDecl
	obj types.Object
}

// collectSites finds the uses of candidate helpers inside caller and classifies
// the statement form. Unsupported uses block the helper.
func collectSites(pkg *packages.Package, file *ast.File, caller *ast.FuncDecl, cand map[types.Object]*declInfo, report func(obj types.Object, s *inlineSite, why string)) {
	info := pkg.TypesInfo
	var stack []ast.Node
	// the innermost enclosing statement that is a direct element of a statement list
	enclosing := func() (ast.Stmt, ast.Stmt) {
		var stmt ast.Stmt
		var parentOfStmt ast.Node
		for i := len(stack) - 2; i >= 1; i-- {
			st, isStmt := stack[i].(ast.Stmt)
			if !isStmt {
				continue
			}
			switch stack[i-1].(type) {
			case *ast.BlockStmt, *ast.CaseClause, *ast.CommClause:
				stmt, parentOfStmt = st, stack[i-1]
			}
			if stmt != nil {
				break
			}
		}
		if stmt == nil {
			return nil, nil
		}
		var next ast.Stmt
		var list []ast.Stmt
		switch p := parentOfStmt.(type) {
		case *ast.BlockStmt:
			list = p.List
		case *ast.CaseClause:
			list = p.Body
		case *ast.CommClause:
			list = p.Body
		}
		for i, st := range list {
			if st == stmt && i+1 < len(list) {
				next = list[i+1]
			}
		}
		return stmt, next
	}
	ast.Inspect(caller, func(n ast.Node) bool {
		if n == nil {
			stack = stack[:len(stack)-1]
			return true
		}
		stack = append(stack, n)
		id, ok := n.(*ast.Ident)
		if !ok {
			return true
		}
		obj := originOf(info.Uses[id])
		if obj == nil || cand[obj] == nil {
			return true
		}
		// the expression that denotes the function: id, or x.id
		var fexpr ast.Expr = id
		up := len(stack) - 2
		if up >= 0 {
			if sel, ok := stack[up].(*ast.SelectorExpr); ok && sel.Sel == id {
				fexpr = sel
				up--
			}
		}
		var call *ast.CallExpr
		if up >= 0 {
			if c, ok := stack[up].(*ast.CallExpr); ok && c.Fun == fexpr {
				call = c
			}
		}
		stmt, next := enclosing()
		if stmt == nil {
			report(obj, nil, "use in an unsupported position")
			return true
		}
		if call != nil {
			form := classifyForm(stmt, call)
			if form == "" {
				report(obj, nil, "call in an unsupported statement form")
				return true
			}
			report(obj, &inlineSite{pkg: pkg, file: file, caller: caller, call: call, stmt: stmt, form: form, next: next}, "")
			return true
		}
		// a function value
		if sel, ok := fexpr.(*ast.SelectorExpr); ok {
			if si := info.Selections[sel]; si == nil || si.Kind() != types.MethodVal || len(si.Index()) != 1 {
				report(obj, nil, "method expression or promoted method used as a value")
				return true
			}
			// the receiver is evaluated where the method value is: hoisting it in
			// front of the statement must not reorder anything
			okStmt := false
			switch stmt.(type) {
			case *ast.AssignStmt, *ast.ReturnStmt, *ast.ExprStmt:
				okStmt = true
			}
			if !okStmt || exprInsideFuncLit(stmt, fexpr) || exprInLaterOperand(stmt, fexpr) || exprCallBefore(stmt, fexpr) {
				report(obj, nil, "method value in a position where its receiver cannot be hoisted")
				return true
			}
		}
		switch stmt.(type) {
		case *ast.AssignStmt, *ast.ReturnStmt, *ast.ExprStmt, *ast.GoStmt, *ast.DeferStmt, *ast.IfStmt, *ast.SendStmt:
		default:
			report(obj, nil, "function value in an unsupported statement")
			return true
		}
		if is, ok := stmt.(*ast.IfStmt); ok && (nodeContains(is.Body, fexpr) || (is.Else != nil && nodeContains(is.Else, fexpr))) {
			report(obj, nil, "function value in an unsupported statement")
			return true
		}
		report(obj, &inlineSite{pkg: pkg, file: file, caller: caller, value: fexpr, stmt: stmt, form: "value", next: next}, "")
		return true
	})
}

func exprInsideFuncLit(stmt ast.Stmt, e ast.Expr) bool {
	inside := false
	ast.Inspect(stmt, func(n ast.Node) bool {
		if fl, ok := n.(*ast.FuncLit); ok && nodeContains(fl, e) {
			inside = true
		}
		return !inside
	})
	return inside
}

func exprInLaterOperand(stmt ast.Stmt, e ast.Expr) bool {
	bad := false
	ast.Inspect(stmt, func(n ast.Node) bool {
		if be, ok := n.(*ast.BinaryExpr); ok && (be.Op == token.LAND || be.Op == token.LOR) && nodeContains(be.Y, e) {
			bad = true
		}
		return true
	})
	return bad
}

func exprCallBefore(root ast.Node, e ast.Expr) bool {
	bad := false
	ast.Inspect(root, func(n ast.Node) bool {
		switch x := n.(type) {
		case *ast.CallExpr:
			if x.Pos() < e.Pos() && !nodeContains(e, x) && !nodeContains(x, e) {
				bad = true
			}
		case *ast.UnaryExpr:
			if x.Op == token.ARROW && x.Pos() < e.Pos() && !nodeContains(e, x) && !nodeContains(x, e) {
				bad = true
			}
		}
		return true
	})
	return bad
}

// classifyForm: how the call sits in its statement.
func classifyForm(stmt ast.Stmt, call *ast.CallExpr) string {
	switch s := stmt.(type) {
	case *ast.AssignStmt:
		if len(s.Rhs) == 1 && s.Rhs[0] == ast.Expr(call) && (s.Tok == token.ASSIGN || s.Tok == token.DEFINE) {
			return "assign"
		}
	case *ast.ReturnStmt:
		if len(s.Results) == 1 && s.Results[0] == ast.Expr(call) {
			return "return"
		}
	case *ast.ExprStmt:
		if s.X == ast.Expr(call) {
			return "expr"
		}
	case *ast.GoStmt:
		if s.Call == call {
			return "go"
		}
	case *ast.DeferStmt:
		if s.Call == call {
			return "defer"
		}
	case *ast.IfStmt:
		if as, ok := s.Init.(*ast.AssignStmt); ok && len(as.Rhs) == 1 && as.Rhs[0] == ast.Expr(call) {
			return "if-init"
		}
	}
	// anywhere else inside a simple statement: hoist into a temporary first
	switch st := stmt.(type) {
	case *ast.AssignStmt, *ast.ReturnStmt, *ast.ExprStmt, *ast.IncDecStmt, *ast.SendStmt:
		if !insideFuncLit(stmt, call) && !inLaterOperand(stmt, call) && !callBefore(stmt, call) {
			return "hoist"
		}
	case *ast.DeclStmt:
		// var x T = f(…): the call is hoisted in front of the declaration
		if gd, ok := st.Decl.(*ast.GenDecl); ok && gd.Tok == token.VAR && len(gd.Specs) == 1 {
			if !insideFuncLit(stmt, call) && !inLaterOperand(stmt, call) && !callBefore(stmt, call) {
				return "hoist"
			}
		}
	case *ast.IfStmt:
		if st.Init == nil && st.Else == nil {
			if be, ok := st.Cond.(*ast.BinaryExpr); ok && be.Op == token.LAND && !nodeContains(be.X, call) {
				y := be.Y
				for {
					if p, ok := y.(*ast.ParenExpr); ok {
						y = p.X
					} else if u, ok := y.(*ast.UnaryExpr); ok && u.Op == token.NOT {
						y = u.X
					} else {
						break
					}
				}
				if y == ast.Expr(call) {
					return "cond"
				}
			}
		}
		if st.Init == nil && nodeContains(st.Cond, call) && !insideFuncLit(stmt, call) && !inLaterOperand(stmt, call) && !callBefore(st.Cond, call) {
			return "hoist"
		}
	case *ast.SwitchStmt:
		if st.Init == nil && st.Tag != nil && nodeContains(st.Tag, call) && !insideFuncLit(stmt, call) && !inLaterOperandExpr(st.Tag, call) && !callBefore(st.Tag, call) {
			return "hoist"
		}
	case *ast.RangeStmt:
		if nodeContains(st.X, call) && !insideFuncLit(stmt, call) && !inLaterOperandExpr(st.X, call) && !callBefore(st.X, call) {
			return "hoist"
		}
	}
	return ""
}

func nodeContains(n ast.Node, target ast.Node) bool {
	found := false
	if n == nil {
		return false
	}
	ast.Inspect(n, func(m ast.Node) bool {
		if m == target {
			found = true
		}
		return !found
	})
	return found
}

// callBefore: some other call or receive in root is evaluated before call
// (hoisting would reorder effects).
func callBefore(root ast.Node, call *ast.CallExpr) bool {
	bad := false
	ast.Inspect(root, func(n ast.Node) bool {
		switch x := n.(type) {
		case *ast.CallExpr:
			if x != call && x.Pos() < call.Pos() && !nodeContains(call, x) && !nodeContains(x, call) {
				bad = true
			}
		case *ast.UnaryExpr:
			if x.Op == token.ARROW && x.Pos() < call.Pos() && !nodeContains(call, x) && !nodeContains(x, call) {
				bad = true
			}
		}
		return true
	})
	return bad
}

func inLaterOperandExpr(root ast.Node, call *ast.CallExpr) bool {
	bad := false
	ast.Inspect(root, func(n ast.Node) bool {
		if be, ok := n.(*ast.BinaryExpr); ok && (be.Op == token.LAND || be.Op == token.LOR) && nodeContains(be.Y, call) {
			bad = true
		}
		return true
	})
	return bad
}

func insideFuncLit(stmt ast.Stmt, call *ast.CallExpr) bool {
	inside := false
	ast.Inspect(stmt, func(n ast.Node) bool {
		if fl, ok := n.(*ast.FuncLit); ok {
			ast.Inspect(fl, func(m ast.Node) bool {
				if m == ast.Node(call) {
					inside = true
				}
				return true
			})
			return false
		}
		return true
	})
	return inside
}

// inLaterOperand: the call sits in the body / else part of an if statement or in
// the right operand of && / || (hoisting would evaluate it unconditionally).
func inLaterOperand(stmt ast.Stmt, call *ast.CallExpr) bool {
	bad := false
	contains := func(n ast.Node) bool {
		found := false
		if n == nil {
			return false
		}
		ast.Inspect(n, func(m ast.Node) bool {
			if m == ast.Node(call) {
				found = true
			}
			return !found
		})
		return found
	}
	if is, ok := stmt.(*ast.IfStmt); ok {
		if contains(is.Body) || (is.Else != nil && contains(is.Else)) {
			return true
		}
	}
	ast.Inspect(stmt, func(n ast.Node) bool {
		if be, ok := n.(*ast.BinaryExpr); ok && (be.Op == token.LAND || be.Op == token.LOR) && contains(be.Y) {
			bad = true
		}
		return true
	})
	return bad
}

// copyBlock makes a deep copy of the helper's body by re-parsing its source
// text; identifiers of the copy correspond one to one, in traversal order, to
// those of the original.
func copyBlock(fset *token.FileSet, b *ast.BlockStmt, src []byte) (*ast.BlockStmt, *token.FileSet, error) {
	lo, hi := fset.Position(b.Lbrace).Offset, fset.Position(b.Rbrace).Offset+1
	if lo < 0 || hi > len(src) || lo >= hi {
		return nil, nil, fmt.Errorf("helper body out of range")
	}
	fs := token.NewFileSet()
	f, err := parser.ParseFile(fs, "", "package p\nfunc _() "+string(src[lo:hi]), 0)
	if err != nil {
		return nil, nil, err
	}
	return f.Decls[0].(*ast.FuncDecl).Body, fs, nil
}

// pruneImports blanks out import specs whose name no longer qualifies anything
// in the file (a helper was removed from it).
func pruneImports(src []byte, pkg *packages.Package) []byte {
	fs := token.NewFileSet()
	f, err := parser.ParseFile(fs, "", src, parser.SkipObjectResolution)
	if err != nil {
		return src
	}
	used := map[string]bool{}
	ast.Inspect(f, func(n ast.Node) bool {
		if sel, ok := n.(*ast.SelectorExpr); ok {
			if id, ok := sel.X.(*ast.Ident); ok {
				used[id.Name] = true
			}
		}
		return true
	})
	type span struct{ lo, hi int }
	var cut []span
	for _, d := range f.Decls {
		gd, ok := d.(*ast.GenDecl)
		if !ok || gd.Tok != token.IMPORT {
			continue
		}
		dead := 0
		for _, sp := range gd.Specs {
			im := sp.(*ast.ImportSpec)
			path := strings.Trim(im.Path.Value, "\"")
			name := ""
			if im.Name != nil {
				name = im.Name.Name
			} else if pkg != nil && pkg.Imports[path] != nil {
				name = pkg.Imports[path].Name
			} else {
				name = path[strings.LastIndex(path, "/")+1:]
			}
			if name == "_" || name == "." || used[name] {
				continue
			}
			dead++
			cut = append(cut, span{fs.Position(im.Pos()).Offset, fs.Position(im.End()).Offset})
		}
		if dead == len(gd.Specs) && !gd.Lparen.IsValid() {
			cut[len(cut)-1] = span{fs.Position(gd.Pos()).Offset, fs.Position(gd.End()).Offset}
		}
	}
	out := append([]byte{}, src...)
	for _, c := range cut {
		for i := c.lo; i < c.hi && i < len(out); i++ {
			if out[i] != '\n' {
				out[i] = ' '
			}
		}
	}
	return out
}

// hasNewFunctions is the cheap syntactic pre-scan: does the tree declare a
// function the anchor list does not know?
func hasNewFunctions(repo string, overlay map[string][]byte) (bool, map[string]bool) {
	testIdents := map[string]bool{} // "dir\x00name" for identifiers used in _test.go files
	presentKeys := map[string]bool{}
	found := false
	var walk func(dir, pkgPath string)
	walk = func(dir, pkgPath string) {
		ents, err := os.ReadDir(dir)
		if err != nil {
			return
		}
		for _, e := range ents {
			name := e.Name()
			full := dir + "/" + name
			if e.IsDir() {
				if strings.HasPrefix(name, ".") || strings.HasPrefix(name, "_") || name == "vendor" || name == "testdata" {
					continue
				}
				walk(full, pkgPath+"/"+name)
				continue
			}
			if !strings.HasSuffix(name, ".go") {
				continue
			}
			fs := token.NewFileSet()
			if strings.HasSuffix(name, "_test.go") {
				// names the test file does not declare itself (its own locals, parameters and functions resolve within the file)
				f, err := parser.ParseFile(fs, full, readSource(full, overlay), 0)
				if err != nil {
					continue
				}
				ast.Inspect(f, func(n ast.Node) bool {
					if id, ok := n.(*ast.Ident); ok && id.Obj == nil {
						testIdents[pkgPath+"\x00"+id.Name] = true
					}
					return true
				})
				continue
			}
			f, err := parser.ParseFile(fs, full, readSource(full, overlay), parser.SkipObjectResolution)
			if err != nil {
				continue
			}
			// loops with a constant number of trips (`for i := range 3`, `for i := range a` with
			// `var a [3]T` in the same file, `for i := 1; i < 7; i += 2`) are unrolled by the
			// normaliser: their presence starts it, like a new name does
			arrays := map[string]bool{}
			ast.Inspect(f, func(n ast.Node) bool {
				if vs, ok := n.(*ast.ValueSpec); ok {
					if at, ok := vs.Type.(*ast.ArrayType); ok {
						if _, lit := at.Len.(*ast.BasicLit); lit {
							for _, nm := range vs.Names {
								arrays[nm.Name] = true
							}
						}
					}
				}
				return true
			})
			ast.Inspect(f, func(n ast.Node) bool {
				switch x := n.(type) {
				case *ast.RangeStmt:
					if x.Value == nil && x.Key != nil && x.Tok == token.DEFINE {
						if bl, ok := x.X.(*ast.BasicLit); ok && bl.Kind == token.INT {
							found = true
						}
						if id, ok := x.X.(*ast.Ident); ok && arrays[id.Name] {
							found = true
						}
					}
				case *ast.ForStmt:
					init, ok1 := x.Init.(*ast.AssignStmt)
					cond, ok2 := x.Cond.(*ast.BinaryExpr)
					if ok1 && ok2 && x.Post != nil && init.Tok == token.DEFINE && len(init.Rhs) == 1 {
						_, l1 := init.Rhs[0].(*ast.BasicLit)
						_, l2 := cond.Y.(*ast.BasicLit)
						if l1 && l2 {
							found = true
						}
					}
				}
				return true
			})
			ast.Inspect(f, func(n ast.Node) bool {
				// a local closure without results that could be called as a statement
				if as, ok := n.(*ast.AssignStmt); ok && as.Tok == token.DEFINE && len(as.Rhs) == 1 {
					if _, ok := as.Rhs[0].(*ast.FuncLit); ok {
						if key := pkgPath + "\x00closure\x00" + identName(as.Lhs[0]); !anchorClosures[key] {
							found = true
						}
					}
				}
				return true
			})
			for _, d := range f.Decls {
				// what is present, by inventory key (to notice names that disappeared: renames)
				switch x := d.(type) {
				case *ast.FuncDecl:
					presentKeys[funcKey(pkgPath, x)] = true
					if want, ok := anchorSigs["syn:"+funcKey(pkgPath, x)]; ok && want != synSig(fs, x, readSource(full, overlay)) {
						found = true // same name, other signature as written
					}
				case *ast.GenDecl:
					for _, sp := range x.Specs {
						switch y := sp.(type) {
						case *ast.ValueSpec:
							for _, nm := range y.Names {
								presentKeys["var:"+pkgPath+"."+nm.Name] = true
							}
						case *ast.TypeSpec:
							presentKeys["type:"+pkgPath+"."+y.Name.Name] = true
							switch t := y.Type.(type) {
							case *ast.StructType:
								for _, fl := range t.Fields.List {
									for _, nm := range fl.Names {
										presentKeys["field:"+pkgPath+"."+y.Name.Name+"."+nm.Name] = true
									}
									if len(fl.Names) == 0 {
										e := fl.Type
										if st, ok := e.(*ast.StarExpr); ok {
											e = st.X
										}
										if se, ok := e.(*ast.SelectorExpr); ok {
											presentKeys["field:"+pkgPath+"."+y.Name.Name+"."+se.Sel.Name] = true
										} else if id, ok := e.(*ast.Ident); ok {
											presentKeys["field:"+pkgPath+"."+y.Name.Name+"."+id.Name] = true
										}
									}
								}
							case *ast.InterfaceType:
								for _, fl := range t.Methods.List {
									for _, nm := range fl.Names {
										presentKeys["imethod:"+pkgPath+"."+y.Name.Name+"."+nm.Name] = true
									}
								}
							}
						}
					}
				}
				if fd, ok := d.(*ast.FuncDecl); ok && fd.Name.Name != "init" && fd.Name.Name != "_" {
					if !anchorFuncs[funcKey(pkgPath, fd)] {
						found = true
					}
				}
				if gd, ok := d.(*ast.GenDecl); ok && gd.Tok == token.TYPE {
					for _, sp := range gd.Specs {
						if ts := sp.(*ast.TypeSpec); !anchorTypes[pkgPath+"."+ts.Name.Name] {
							if _, isStruct := ts.Type.(*ast.StructType); isStruct {
								found = true
							}
						}
					}
				}
			}
		}
	}
	walk(repo, modulePath)
	for k := range anchorSigs {
		if !presentKeys[k] && !strings.HasPrefix(k, "names:") && !strings.HasPrefix(k, "syn:") {
			found = true // a name the rules know has disappeared: possibly renamed
		}
	}
	return found, testIdents
}

// normaliseGoArgs rewrites `go func(p T) { … }(arg)` (and the same with defer)
// into `{ var p T = arg; go func() { … }() }`: the arguments are still evaluated
// at the go statement, in order, into variables that are fresh for this
// execution of the statement, and the literal captures them. The fan-out rules
// then see the familiar "per-iteration copy captured by the goroutine" shape
// whichever way the goroutine was handed its inputs. Purely syntactic; returns
// the files that changed.
func normaliseGoArgs(repo string, overlay map[string][]byte) map[string][]byte {
	out := map[string][]byte{}
	var walk func(dir string)
	walk = func(dir string) {
		ents, err := os.ReadDir(dir)
		if err != nil {
			return
		}
		for _, e := range ents {
			name := e.Name()
			full := dir + "/" + name
			if e.IsDir() {
				if strings.HasPrefix(name, ".") || strings.HasPrefix(name, "_") || name == "vendor" || name == "testdata" {
					continue
				}
				walk(full)
				continue
			}
			if !strings.HasSuffix(name, ".go") || strings.HasSuffix(name, "_test.go") {
				continue
			}
			src := readSource(full, overlay)
			changed := false
			for round := 0; round < 8; round++ {
				next, ok := goArgsOnce(full, src)
				if !ok {
					break
				}
				src, changed = next, true
			}
			if changed {
				out[full] = src
			}
		}
	}
	walk(repo)
	return out
}

// goArgsOnce rewrites the outermost go/defer literals with arguments of one file.
func goArgsOnce(filename string, src []byte) ([]byte, bool) {
	fs := token.NewFileSet()
	f, err := parser.ParseFile(fs, filename, src, parser.SkipObjectResolution)
	if err != nil {
		return nil, false
	}
	type edit struct {
		lo, hi int
		text   string
	}
	var edits []edit
	var visit func(n ast.Node) bool
	visit = func(n ast.Node) bool {
		var call *ast.CallExpr
		kw := ""
		switch s := n.(type) {
		case *ast.GoStmt:
			call, kw = s.Call, "go"
		case *ast.DeferStmt:
			call, kw = s.Call, "defer"
		default:
			return true
		}
		lit, ok := call.Fun.(*ast.FuncLit)
		if !ok || lit.Type.Params == nil || len(lit.Type.Params.List) == 0 || call.Ellipsis.IsValid() {
			return true
		}
		var names []string
		var typs []ast.Expr
		for _, fld := range lit.Type.Params.List {
			if _, variadic := fld.Type.(*ast.Ellipsis); variadic {
				return true
			}
			if len(fld.Names) == 0 {
				names = append(names, "_")
				typs = append(typs, fld.Type)
			}
			for _, nm := range fld.Names {
				names = append(names, nm.Name)
				typs = append(typs, fld.Type)
			}
		}
		if len(names) != len(call.Args) {
			return true
		}
		off := func(p token.Pos) int { return fs.Position(p).Offset }
		var b bytes.Buffer
		b.WriteString("{\n")
		for i, nm := range names {
			arg := string(src[off(call.Args[i].Pos()):off(call.Args[i].End())])
			typ := string(src[off(typs[i].Pos()):off(typs[i].End())])
			if nm == "_" {
				fmt.Fprintf(&b, "var _ %s = %s\n", typ, arg)
			} else {
				fmt.Fprintf(&b, "var %s %s = %s\n_ = %s\n", nm, typ, arg, nm)
			}
		}
		results := ""
		if lit.Type.Results != nil {
			results = " " + string(src[off(lit.Type.Results.Pos()):off(lit.Type.Results.End())])
		}
		pos := fs.Position(n.Pos())
		fmt.Fprintf(&b, "//line %s:%d\n", pos.Filename, pos.Line)
		fmt.Fprintf(&b, "%s func()%s %s()\n}", kw, results, string(src[off(lit.Body.Pos()):off(lit.Body.End())]))
		end := fs.Position(n.End())
		fmt.Fprintf(&b, "\n//line %s:%d", end.Filename, end.Line)
		edits = append(edits, edit{off(n.Pos()), off(n.End()), b.String()})
		return false // nested ones wait for the next round
	}
	ast.Inspect(f, visit)
	if len(edits) == 0 {
		return nil, false
	}
	sort.Slice(edits, func(i, j int) bool { return edits[i].lo > edits[j].lo })
	buf := append([]byte{}, src...)
	for _, e := range edits {
		buf = append(buf[:e.lo], append([]byte(e.text), buf[e.hi:]...)...)
	}
	return buf, true
}

// synSig: the parameter and result lists of a declaration as written, blanks
// collapsed — a cheap way for the pre-scan to notice that a function the rules
// know has changed its signature (permuted parameters, say).
func synSig(fs *token.FileSet, fd *ast.FuncDecl, src []byte) string {
	off := func(p token.Pos) int { return fs.Position(p).Offset }
	end := fd.Type.End()
	if fd.Type.Params == nil {
		return ""
	}
	txt := string(src[off(fd.Type.Params.Pos()):off(end)])
	return strings.Join(strings.Fields(txt), " ")
}

func identName(e ast.Expr) string {
	if id, ok := e.(*ast.Ident); ok {
		return id.Name
	}
	return ""
}

// anchorClosures: local closures of the pinned tree that are values (passed
// on, not just called) and must not trigger normalisation by themselves.
var anchorClosures = map[string]bool{
	"servitor/pub\x00closure\x00constructComment": true,
}

// movedAnchorNames: the (lower-cased) names of the functions and methods of the
// inventory that are no longer declared where the inventory has them. A new
// function of such a name is taken to be the anchor itself, moved to another
// package or turned from a method into a function there (Program.movedFunc
// resolves it for the rules), and is not inlined away.
func movedAnchorNames(pkgs []*packages.Package) map[string]string {
	present := map[string]bool{}
	for _, pkg := range pkgs {
		if !isServitorPath(pkg.PkgPath) {
			continue
		}
		for _, f := range pkg.Syntax {
			for _, d := range f.Decls {
				if fd, ok := d.(*ast.FuncDecl); ok {
					present[funcKey(pkg.PkgPath, fd)] = true
				}
			}
		}
	}
	// name -> the package the anchor is gone from (a function of that name in the
	// SAME package is a method turned function or the reverse: reshapeRound's job)
	out := map[string]string{}
	for key := range anchorFuncs {
		if !present[key] {
			pkgPath := key[:strings.LastIndex(key, ".")]
			if i := strings.Index(pkgPath, ".("); i >= 0 {
				pkgPath = pkgPath[:i]
			}
			out[strings.ToLower(key[strings.LastIndex(key, ".")+1:])] = pkgPath
		}
	}
	return out
}

// expandSiteSafe: a crash while expanding one call site leaves that helper
// where it is (the rules then run on the program as written) instead of
// taking the whole check down.
func expandSiteSafe(s *inlineSite, k int, overlay map[string][]byte) (ex *expansion, err error) {
	defer func() {
		if e := recover(); e != nil {
			if b, ok := e.(BrokenError); ok {
				panic(b)
			}
			ex, err = nil, fmt.Errorf("internal error while expanding: %v", e)
		}
	}()
	return expandSite(s, k, overlay)
}
