package main

import (
	"fmt"
	"go/token"
	"go/types"
	"strings"

	"golang.org/x/tools/go/ssa"
)

// Rules added after seeding round 6.

// c10R7: the reader keeps the continuation together. Harvest returns the items,
// the collection to go on with, and the offset to go on from; the two belong
// together. At every call of a Harvest method outside the packages that
// implement it, results #1 and #2 are both used, and they end up in fields of
// the same page (the Container-typed and the unsigned one) — or are returned on
// together. Dropping the offset makes the next load start the same page from 0
// again (seeded change C07-2r6).
func c10R7(c *Ctx) {
	P := c.P
	n := 0
	for _, fn := range P.Funcs {
		pkg := P.PkgOf(fn)
		if !strings.HasPrefix(pkg, "servitor") || pkg == "servitor/pub" || pkg == "servitor/splicer" || len(fn.Blocks) == 0 {
			continue
		}
		fname := FuncName(fn)
		eachInstr(fn, func(_ *ssa.BasicBlock, _ int, in ssa.Instruction) {
			call, ok := in.(*ssa.Call)
			if !ok {
				return
			}
			name := ""
			if call.Call.IsInvoke() {
				name = call.Call.Method.Name()
			} else if sc := call.Call.StaticCallee(); sc != nil && sc.Signature.Recv() != nil {
				name = sc.Name()
			}
			tup, isTup := call.Type().(*types.Tuple)
			if name != "Harvest" || !isTup || tup.Len() != 3 {
				return
			}
			n++
			var next, off *ssa.Extract
			for _, r := range refs(call) {
				if ex, ok := r.(*ssa.Extract); ok {
					switch ex.Index {
					case 1:
						next = ex
					case 2:
						off = ex
					}
				}
			}
			// where a value ends up: the (resolved) struct a field store writes into
			dest := func(ex *ssa.Extract) (bases []ssa.Value, returned bool) {
				if ex == nil {
					return nil, false
				}
				seen := map[ssa.Value]bool{}
				var walk func(v ssa.Value, d int)
				walk = func(v ssa.Value, d int) {
					if d > 6 || seen[v] {
						return
					}
					seen[v] = true
					for _, r := range refs(v) {
						switch x := r.(type) {
						case *ssa.Store:
							if x.Val != v {
								continue
							}
							if fa, ok := x.Addr.(*ssa.FieldAddr); ok {
								bases = append(bases, unwrapLoad(fa.X))
								continue
							}
							if al, ok := x.Addr.(*ssa.Alloc); ok {
								// a local variable: follow its loads
								for _, rr := range refs(al) {
									if ld, ok := rr.(*ssa.UnOp); ok && ld.Op == token.MUL {
										walk(ld, d+1)
									}
								}
								// and loads in closures that capture it
								for _, cl := range Closures(fn) {
									for _, fv := range cl.FreeVars {
										if binding(fv) == ssa.Value(al) {
											for _, rr := range refs(fv) {
												if ld, ok := rr.(*ssa.UnOp); ok && ld.Op == token.MUL {
													walk(ld, d+1)
												}
											}
										}
									}
								}
							}
						case *ssa.Return:
							returned = true
						case *ssa.Phi:
							walk(x, d+1)
						case *ssa.ChangeInterface:
							walk(x, d+1)
						case *ssa.MakeInterface:
							walk(x, d+1)
						}
					}
				}
				walk(ex, 0)
				return
			}
			nb, nr := dest(next)
			ob, or := dest(off)
			together := nr && or
			for _, a := range nb {
				for _, b := range ob {
					if a == b {
						together = true
					}
				}
			}
			why := "the collection to go on with and the offset to go on from do not end up in the same page"
			if off == nil || (len(ob) == 0 && !or) {
				why = "the offset to go on from (result #2) is dropped: the next load starts the same page from the beginning again"
			} else if next == nil || (len(nb) == 0 && !nr) {
				why = "the collection to go on with (result #1) is dropped"
			}
			c.check(together, fname+"/harvest-continuation", P.InstrPos(call), fname, "the continuation (collection and offset) is kept together in one page", why)
		})
	}
	c.info("harvest_call_sites_outside_pub", n)
}

// c11R9: the order of the sources is never permuted. Ties between heads go to
// the source listed first; that is only the configured order if nothing moves
// an element of a Splicer to another index and nothing sorts or shuffles one.
func c11R9(c *Ctx) {
	P := c.P
	spl := P.NamedType("servitor/splicer", "Splicer")
	if spl == nil {
		c.bad("servitor/splicer.Splicer", "splicer", "servitor/splicer", "type Splicer not found")
		return
	}
	isSplicer := func(t types.Type) bool {
		for i := 0; i < 3; i++ {
			if p, ok := t.(*types.Pointer); ok {
				t = p.Elem()
				continue
			}
			break
		}
		if n, ok := t.(*types.Named); ok && n.Obj() == spl.Obj() {
			return true
		}
		// the element slice type itself
		return types.Identical(t, spl.Underlying())
	}
	nStores := 0
	for _, fn := range P.Funcs {
		if !strings.HasPrefix(P.PkgOf(fn), "servitor") || len(fn.Blocks) == 0 {
			continue
		}
		fname := FuncName(fn)
		eachInstr(fn, func(_ *ssa.BasicBlock, _ int, in ssa.Instruction) {
			switch x := in.(type) {
			case *ssa.Store:
				ia, ok := x.Addr.(*ssa.IndexAddr)
				if !ok || !isSplicer(ia.X.Type()) {
					return
				}
				nStores++
				// the value stored: an element of a Splicer read at another index?
				moved := false
				var walk func(v ssa.Value, d int)
				walk = func(v ssa.Value, d int) {
					if d > 4 || v == nil {
						return
					}
					switch y := v.(type) {
					case *ssa.UnOp:
						if y.Op == token.MUL {
							if ia2, ok := y.X.(*ssa.IndexAddr); ok && isSplicer(ia2.X.Type()) {
								if path(ia2.Index) != path(ia.Index) {
									moved = true
								}
								return
							}
							walk(y.X, d+1)
						}
					case *ssa.Phi:
						for _, e := range y.Edges {
							walk(e, d+1)
						}
					}
				}
				walk(x.Val, 0)
				c.check(!moved, fname+"/source-slot-store", P.InstrPos(x), fname, "a source slot is filled with its own source", "a source of the feed is moved to another position in the list: ties between equally recent heads then go to a source that was not listed first")
			case *ssa.Call:
				sc := x.Call.StaticCallee()
				if sc == nil || sc.Pkg == nil {
					return
				}
				p := sc.Pkg.Pkg.Path()
				if !(p == "sort" || p == "slices" || p == "math/rand") {
					return
				}
				reorders := strings.HasPrefix(sc.Name(), "Sort") || sc.Name() == "Shuffle" || sc.Name() == "Reverse" || sc.Name() == "Slice" || sc.Name() == "SliceStable" || sc.Name() == "Stable"
				if !reorders {
					return
				}
				for _, a := range x.Call.Args {
					v := a
					if mi, ok := v.(*ssa.MakeInterface); ok {
						v = mi.X
					}
					if isSplicer(v.Type()) {
						c.bad(fname+"/source-order", P.InstrPos(x), fname, "the sources of a feed are reordered by "+sc.String()+": ties no longer go to the source listed first")
					}
				}
			}
		})
	}
	c.check(true, "servitor/splicer/source-order-scan", "splicer", "servitor/splicer", fmt.Sprintf("%d stores into source slots examined; no call reorders a Splicer", nStores), "")
}

// c20R7: a media type is a value made by package mime (Parse, Default,
// UnknownSubtype) whose Essence, Supertype and Subtype agree by construction;
// %mimetype, %supertype and %subtype of the hook are read from one such value.
// Nobody outside package mime may patch a field of one.
func c20R7(c *Ctx) {
	P := c.P
	mt := P.NamedType("servitor/mime", "MediaType")
	if mt == nil {
		c.bad("servitor/mime.MediaType", "mime", "servitor/mime", "type mime.MediaType not found")
		return
	}
	n, bad := 0, 0
	for _, fn := range P.Funcs {
		if !strings.HasPrefix(P.PkgOf(fn), "servitor") || len(fn.Blocks) == 0 {
			continue
		}
		eachInstr(fn, func(_ *ssa.BasicBlock, _ int, in ssa.Instruction) {
			st, ok := in.(*ssa.Store)
			if !ok {
				return
			}
			fa, ok := st.Addr.(*ssa.FieldAddr)
			if !ok {
				return
			}
			o := structOwner(fa)
			if o == nil || o.Obj() != mt.Obj() {
				return
			}
			n++
			if P.PkgOf(fn) != "servitor/mime" {
				bad++
				c.bad(FuncName(fn)+"/patches:MediaType."+fieldOf(fa).Name(), P.InstrPos(st), FuncName(fn), "a field of a mime.MediaType is written outside package mime: the essence and its parts no longer agree, so %mimetype and %supertype/%subtype handed to the media hook describe different types (and the value may be shared with other links)")
			}
		})
	}
	c.check(n > 0 && bad == 0, "servitor/mime.MediaType/fields", "mime", "servitor/mime", fmt.Sprintf("%d field stores, all in package mime", n), fmt.Sprintf("%d of %d stores into MediaType fields are outside package mime (or none found)", bad, n))
}

// c14R5: what is spliced into ESC[…m is a real, non-resetting SGR parameter.
// At every call of ansi.Apply, and of every function of the style layer that
// hands a parameter on to it, the style argument starts with a non-empty
// constant of digits and semicolons that is not the reset code; ESC[m and
// ESC[0m switch everything off, so a character styled "with nothing" loses the
// attributes of its own unit (seeded change C14-2r6).
func c14R5(c *Ctx) {
	P := c.P
	a := newNFA(P)
	for _, pkg := range []string{"servitor/ansi", "servitor/style"} {
		for _, fn := range P.FuncsIn(pkg) {
			for i := range fn.Params {
				a.sgrParamOf(fn, i)
			}
		}
	}
	// which parameters are the leading code: behind ESC[ directly, or handed on as the start of such an argument
	firstLeaf := func(v ssa.Value) ssa.Value {
		var ls []ssa.Value
		leaves(unwrapLoad(v), &ls, 0)
		if len(ls) == 0 {
			return nil
		}
		return unwrapLoad(ls[0])
	}
	for changed := true; changed; {
		changed = false
		for _, pkg := range []string{"servitor/ansi", "servitor/style"} {
			for _, fn := range P.FuncsIn(pkg) {
				eachInstr(fn, func(_ *ssa.BasicBlock, _ int, in ssa.Instruction) {
					call, ok := in.(*ssa.Call)
					if !ok {
						return
					}
					sc := call.Call.StaticCallee()
					if !inStyleLayer(sc) {
						return
					}
					for i, arg := range call.Call.Args {
						if i < len(sc.Params) && a.sgrLead[sc.Params[i]] {
							if q, ok := firstLeaf(arg).(*ssa.Parameter); ok && !a.sgrLead[q] {
								a.sgrLead[q] = true
								changed = true
							}
						}
					}
				})
			}
		}
	}
	okLead := func(s string) bool {
		if s == "" {
			return false
		}
		for _, r := range s {
			if !(r == ';' || (r >= '0' && r <= '9')) {
				return false
			}
		}
		first := strings.SplitN(s, ";", 2)[0]
		return strings.TrimLeft(first, "0") != ""
	}
	n := 0
	for _, fn := range P.Funcs {
		if !strings.HasPrefix(P.PkgOf(fn), "servitor") || len(fn.Blocks) == 0 {
			continue
		}
		fname := FuncName(fn)
		eachInstr(fn, func(_ *ssa.BasicBlock, _ int, in ssa.Instruction) {
			call, ok := in.(*ssa.Call)
			if !ok {
				return
			}
			sc := call.Call.StaticCallee()
			if !inStyleLayer(sc) {
				return
			}
			for i, arg := range call.Call.Args {
				if i >= len(sc.Params) || !a.sgrLead[sc.Params[i]] {
					continue
				}
				n++
				var check func(v ssa.Value, d int) (bool, string)
				check = func(v ssa.Value, d int) (bool, string) {
					if d > 6 {
						return false, "too involved"
					}
					v = stripStringConv(unwrapLoad(v))
					switch x := v.(type) {
					case *ssa.Const:
						if s, ok := constString(x); ok {
							if okLead(s) {
								return true, ""
							}
							return false, fmt.Sprintf("the constant %q is empty, not numeric, or the reset code", s)
						}
					case *ssa.BinOp:
						if x.Op == token.ADD {
							var ls []ssa.Value
							leaves(x, &ls, 0)
							if s, ok := constString(stripStringConv(unwrapLoad(ls[0]))); ok && okLead(strings.TrimSuffix(s, ";")) {
								return true, ""
							}
							return false, "the style does not start with a constant SGR code"
						}
					case *ssa.Phi:
						for _, e := range x.Edges {
							if ok, why := check(e, d+1); !ok {
								return false, why
							}
						}
						return true, ""
					case *ssa.Parameter:
						// handed on: the callers of this function are checked in turn
						if a.sgrLead[x] {
							return true, ""
						}
						return false, "a parameter that is not itself checked as a style"
					}
					return false, "not a constant SGR code (possibly followed by a colour)"
				}
				ok2, why := check(arg, 0)
				c.check(ok2, fname+"/style-argument:"+sc.Name(), P.InstrPos(call), fname, "the style starts with a constant, non-resetting SGR code", "the style handed to "+sc.Name()+" can be empty or the reset code ("+why+"): ESC[m / ESC[0m switch every attribute of the character off instead of adding one")
			}
		})
	}
	c.info("style_arguments_checked", n)
}
