package main

import (
	"fmt"
	"go/ast"
	"go/token"
	"go/types"
	"sort"
	"strings"

	"golang.org/x/tools/go/packages"
)

// splitCondRound: `if A || h(x) == c { S }` with a helper h that is new to the
// checker cannot have h inlined where it stands — the call is only made when A
// is false. The statement is rewritten into the steps it abbreviates,
//
//	{ if A { goto T }; if h(x) == c { goto T }; [else branch]; goto E; T: S; E: }
//
// (and `&&` likewise, with the negated tests jumping to the else branch) — the
// very control-flow graph the short-circuit operator compiles to — after which
// the call stands in the condition of an if statement of its own and the
// inliner's ordinary forms apply. Only statements whose right operand calls
// such a helper (and whose left operand does not) are touched.
func splitCondRound(pkgs []*packages.Package, overlay map[string][]byte, counter *int) (map[string][]byte, []string) {
	out := map[string][]byte{}
	var log []string
	// helpers: functions of the module that are not anchors
	helper := map[types.Object]bool{}
	for _, pkg := range pkgs {
		if !isServitorPath(pkg.PkgPath) {
			continue
		}
		for _, f := range pkg.Syntax {
			for _, d := range f.Decls {
				if fd, ok := d.(*ast.FuncDecl); ok && fd.Body != nil && !anchorFuncs[funcKey(pkg.PkgPath, fd)] {
					if o := pkg.TypesInfo.Defs[fd.Name]; o != nil {
						helper[o] = true
					}
				}
			}
		}
	}
	if len(helper) == 0 {
		return nil, nil
	}
	for _, pkg := range pkgs {
		if !isServitorPath(pkg.PkgPath) || len(pkg.Errors) > 0 {
			continue
		}
		callsHelper := func(n ast.Node) bool {
			found := false
			ast.Inspect(n, func(m ast.Node) bool {
				if _, isLit := m.(*ast.FuncLit); isLit {
					return false
				}
				if call, ok := m.(*ast.CallExpr); ok {
					var id *ast.Ident
					switch fx := call.Fun.(type) {
					case *ast.Ident:
						id = fx
					case *ast.SelectorExpr:
						id = fx.Sel
					}
					if id != nil && helper[originOf(pkg.TypesInfo.Uses[id])] {
						found = true
					}
				}
				return !found
			})
			return found
		}
		for _, f := range pkg.Syntax {
			fname := pkg.Fset.File(f.Pos()).Name()
			if strings.HasSuffix(fname, "_test.go") {
				continue
			}
			src := readSource(fname, overlay)
			off := func(p token.Pos) int { return pkg.Fset.Position(p).Offset }
			text := func(n ast.Node) string { return string(src[off(n.Pos()):off(n.End())]) }
			type edit struct {
				lo, hi int
				text   string
			}
			var edits []edit
			var visit func(list []ast.Stmt)
			visitNode := func(n ast.Node) {
				ast.Inspect(n, func(m ast.Node) bool {
					switch x := m.(type) {
					case *ast.BlockStmt:
						visit(x.List)
						return false
					case *ast.CaseClause:
						visit(x.Body)
						return false
					case *ast.CommClause:
						visit(x.Body)
						return false
					}
					return true
				})
			}
			visit = func(list []ast.Stmt) {
				for _, st := range list {
					is, ok := st.(*ast.IfStmt)
					if ok && is.Init == nil {
						if be, ok := unparen(is.Cond).(*ast.BinaryExpr); ok && (be.Op == token.LOR || be.Op == token.LAND) && callsHelper(be.Y) && !callsHelper(be.X) {
							*counter++
							lt, le := fmt.Sprintf("_scT%d", *counter), fmt.Sprintf("_scE%d", *counter)
							var elseText string
							switch e := is.Else.(type) {
							case nil:
							case *ast.BlockStmt:
								elseText = text(e)
							default:
								elseText = "{\n" + text(e) + "\n}"
							}
							var b strings.Builder
							if be.Op == token.LOR {
								// either operand true: the body; otherwise the else branch
								fmt.Fprintf(&b, "{\n{\nif %s {\ngoto %s\n}\n}\n{\nif %s {\ngoto %s\n}\n}\n%s\ngoto %s\n%s:\n%s\n%s:\n;\n}", text(be.X), lt, text(be.Y), lt, elseText, le, lt, text(is.Body), le)
							} else {
								// either operand false: the else branch; otherwise the body
								fmt.Fprintf(&b, "{\n{\nif !(%s) {\ngoto %s\n}\n}\n{\nif !(%s) {\ngoto %s\n}\n}\n%s\ngoto %s\n%s:\n%s\n%s:\n;\n}", text(be.X), lt, text(be.Y), lt, text(is.Body), le, lt, elseText, le)
							}
							edits = append(edits, edit{off(is.Pos()), off(is.End()), b.String()})
							log = append(log, fmt.Sprintf("condition split in front of a helper call: %s (%s)", pkg.Fset.Position(is.Pos()), pkg.PkgPath))
							continue // one level per round
						}
					}
					visitNode(st)
				}
			}
			for _, d := range f.Decls {
				if fd, ok := d.(*ast.FuncDecl); ok && fd.Body != nil {
					visit(fd.Body.List)
				}
			}
			if len(edits) == 0 {
				continue
			}
			sort.Slice(edits, func(i, j int) bool {
				if edits[i].lo != edits[j].lo {
					return edits[i].lo > edits[j].lo
				}
				return edits[i].hi > edits[j].hi
			})
			buf := append([]byte{}, src...)
			for _, e := range edits {
				buf = append(buf[:e.lo], append([]byte(e.text), buf[e.hi:]...)...)
			}
			out[fname] = buf
		}
	}
	return out, log
}
