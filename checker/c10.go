package main

import (
	"fmt"
	"go/constant"
	"go/token"
	"go/types"
	"sort"
	"strings"

	"golang.org/x/tools/go/ssa"
)

func init() { registry["C10"] = propC10 }

func propC10() *Property {
	return &Property{
		ID:          "C10",
		Explanation: "Structural clauses of collection paging only. Decided: (R1) the walk is bounded: the only recursion of harvestWithEmptyCount is guarded by the false edge of `emptyCount > 3`, the counter is incremented exactly on the empty-page edge, and every early return delivers exactly one failure item with a nil continuation; (R2) 'consecutive' means reset: on every path that does not increment the counter, the counter handed to the next page was last assigned a constant (it does not depend on the incoming counter); (R3) slot/source agreement and order: element k of this page is stored at slot k from c.elements[k+startingPoint] (difference of the linear index forms is exactly startingPoint), the result is this page's items followed by the later pages', and the next page is asked for amount-amountFromThisPage items from offset 0; (R4) continuation shape: the page names itself as continuation only under length > amount+startingPoint with next offset amount+startingPoint, otherwise it forwards the deeper result or ends with nil. (R5) in NewCollectionFromObject every path to a store of the following-page link is enumerated; `first` is read only on paths that know the kind is Collection/OrderedCollection and `next` only on paths that exclude both (pages inherit `first`, so a page falling back to it loops for ever). (R6) Harvest and everything it calls write nothing reachable from the collection and no package-level state (mutating methods of sync/atomic and sync.Map values count as writes). (R7) at every call of Harvest outside the implementing packages the collection to go on with and the offset to go on from are both used and end up in the same page (or are returned on together). (R9) client.FetchUnknown refetches every identified object of at most two keys: a {id, type} reference to a page or item is not taken for the (empty) object itself. (R10) no method of Collection stores into its elements: a page can be read again and gives the same items. (R4, addition) the walk ends for want of a following page only where this page is known to be used up. NOT decided: that these pieces compose to 'every item exactly once, in order' for every layout and chunking, prefix-of-truth on cyclic chains, and the unsigned arithmetic of amountFromThisPage (value-level reasoning).",
		Assumptions: []string{"goroutine fan-out in harvest is race-free (C08.R5)"},
		Rules: []Rule{
			{ID: "C10.R1", Title: "bounded walk: threshold guard, increment on empty pages only, failure returns", Floor: 3, Run: c10R1},
			{ID: "C10.R2", Title: "consecutive empty pages: the counter is reset on a non-empty page", Floor: 1, Run: c10R2},
			{ID: "C10.R3", Title: "slot/source index agreement, order of concatenation, remainder request", Floor: 3, Run: c10R3},
			{ID: "C10.R4", Title: "continuation shape", Floor: 3, Run: c10R4},
			{ID: "C10.R5", Title: "the following page is first for a collection and next for a page, never the other way round", Floor: 2, Run: c10R5},
			{ID: "C10.R6", Title: "harvesting reads the collection and never changes it", Floor: 1, Run: c10R6},
			{ID: "C10.R7", Title: "the reader keeps the continuation (collection and offset) together", Floor: 2, Run: c10R7},
			{ID: "C10.R10", Title: "a harvest reads the page and leaves it as it was: no method of Collection stores into its elements, so the same request gives the same items again", Floor: 1, Run: c10R10},
			{ID: "C10.R9", Title: "a page or item embedded as a bare reference ({id, type}) is fetched, not taken for an empty object: FetchUnknown refetches every identified object of at most two keys", Floor: 1, Run: c10R9},
			{ID: "C10.R8", Title: "a missing key and JSON null are the same 'absent' that ends a walk: accessors report absent exactly on those (same instances as C17.R4)", Floor: 30, Run: c17R4},
		},
	}
}

type harvestShape struct {
	fn        *ssa.Function
	closures  []*ssa.Function
	recCall   *ssa.Call // the recursive call
	recFn     *ssa.Function
	counter   *ssa.Alloc // cell of the empty-page counter
	increment *ssa.Store
	spawn     *ssa.Go // go statement of the closure that recurses
	amount    *ssa.Alloc
	start     *ssa.Alloc
	laterCell *ssa.Alloc     // receives result #0 of the recursion (items of later pages)
	contCell  *ssa.Alloc     // receives result #1 (continuation)
	offCell   *ssa.Alloc     // receives result #2 (next offset)
	slotCell  *ssa.Alloc     // the slice the element goroutines fill
	taken     *ssa.Alloc     // amountFromThisPage: the length the slot slice is made with
	takenLoad ssa.Value      // a load of it
	slotMake  *ssa.MakeSlice // the slot slice itself where it is not a captured variable
}

func paramCell(fn *ssa.Function, name string) *ssa.Alloc {
	var out *ssa.Alloc
	eachInstr(fn, func(_ *ssa.BasicBlock, _ int, in ssa.Instruction) {
		if st, ok := in.(*ssa.Store); ok {
			if p, ok := st.Val.(*ssa.Parameter); ok && p.Name() == name {
				if a, ok := st.Addr.(*ssa.Alloc); ok {
					out = a
				}
			}
		}
	})
	return out
}

func analyseHarvest(P *Program) *harvestShape {
	fn := P.Method("servitor/pub", "Collection", "harvestWithEmptyCount")
	h := &harvestShape{fn: fn, closures: Closures(fn)}
	for _, cl := range h.closures {
		eachInstr(cl, func(_ *ssa.BasicBlock, _ int, in ssa.Instruction) {
			if call, ok := in.(*ssa.Call); ok && call.Call.StaticCallee() == fn {
				h.recCall = call
				h.recFn = cl
			}
		})
	}
	eachInstr(fn, func(_ *ssa.BasicBlock, _ int, in ssa.Instruction) {
		if call, ok := in.(*ssa.Call); ok && call.Call.StaticCallee() == fn {
			h.recCall = call
			h.recFn = fn
		}
		if g, ok := in.(*ssa.Go); ok {
			if mc, ok := g.Call.Value.(*ssa.MakeClosure); ok && h.recFn != nil && mc.Fn == ssa.Value(h.recFn) {
				h.spawn = g
			}
		}
	})
	// the counter: the int parameter (spilled to a cell because it is captured)
	for _, p := range fn.Params {
		if b, ok := p.Type().Underlying().(*types.Basic); ok && b.Kind() == types.Int {
			h.counter = paramCell(fn, p.Name())
		}
	}
	if len(fn.Params) >= 3 {
		h.amount = paramCell(fn, fn.Params[1].Name())
		h.start = paramCell(fn, fn.Params[2].Name())
	}
	if h.recCall != nil {
		for i, dst := range []**ssa.Alloc{&h.laterCell, &h.contCell, &h.offCell} {
			if ex := resultValue(h.recCall, i); ex != nil {
				for _, r := range refs(ex) {
					if st, ok := r.(*ssa.Store); ok {
						if a, ok := resolveCell(st.Addr).(*ssa.Alloc); ok {
							*dst = a
						}
					}
				}
			}
		}
	}
	cfld := P.Field("servitor/pub", "Collection", "construct")
	for _, cl := range h.closures {
		eachInstr(cl, func(_ *ssa.BasicBlock, _ int, in ssa.Instruction) {
			st, ok := in.(*ssa.Store)
			if !ok {
				return
			}
			slot := slotAddrOf(st.Addr)
			if slot == nil {
				return
			}
			if call, ok := st.Val.(*ssa.Call); ok {
				if u, ok := call.Call.Value.(*ssa.UnOp); ok {
					if fa, ok := u.X.(*ssa.FieldAddr); ok && fieldOf(fa) == cfld {
						if lu, ok := slot.X.(*ssa.UnOp); ok {
							if a, ok := resolveCell(lu.X).(*ssa.Alloc); ok {
								h.slotCell = a
							}
						} else if mk, ok := slot.X.(*ssa.MakeSlice); ok {
							// the slice is not captured itself (only addresses of its elements are handed out)
							h.slotMake = mk
						}
					}
				}
			}
		})
	}
	if h.slotCell != nil {
		for _, st := range storesToAlloc(h.slotCell) {
			if mk, ok := st.Val.(*ssa.MakeSlice); ok {
				if lu, ok := mk.Len.(*ssa.UnOp); ok {
					if a, ok := resolveCell(lu.X).(*ssa.Alloc); ok {
						h.taken = a
						h.takenLoad = lu
					}
				}
			}
		}
	}
	if h.slotMake != nil {
		if lu, ok := h.slotMake.Len.(*ssa.UnOp); ok {
			if a, ok := resolveCell(lu.X).(*ssa.Alloc); ok {
				h.taken = a
				h.takenLoad = lu
			}
		}
	}
	if h.counter != nil {
		for _, st := range storesToAlloc(h.counter) {
			if b, ok := st.Val.(*ssa.BinOp); ok && b.Op == token.ADD {
				if k, ok := constInt(b.Y); ok && k == 1 {
					if u, ok := b.X.(*ssa.UnOp); ok && resolveCell(u.X) == ssa.Value(h.counter) {
						h.increment = st
					}
				}
			}
		}
	}
	return h
}

// lengthCellLoad: v is a load of the local `length` cell whose stores are the
// constant 0 and uint(len(c.elements)).
func isPageLengthLoad(v ssa.Value) bool {
	v = unwrapField(v)
	u, ok := v.(*ssa.UnOp)
	if !ok || u.Op != token.MUL {
		return false
	}
	a, ok := resolveCell(u.X).(*ssa.Alloc)
	if !ok {
		return false
	}
	sawLen := false
	for _, st := range storesToAlloc(a) {
		if k, ok := constInt(st.Val); ok && k == 0 {
			continue
		}
		f := lin(st.Val)
		okLen := f.c == 0 && len(f.coef) == 1
		for s, k := range f.coef {
			if k != 1 || !strings.HasPrefix(s, "len(") || !strings.Contains(s, ".&elements.*") {
				okLen = false
			}
		}
		if !okLen {
			return false
		}
		sawLen = true
	}
	return sawLen
}

// failureTriple: results are ([1]Tangible{NewFailure(..)}, nil, 0).
func failureTriple(items, cont, next ssa.Value) bool {
	if !isNilConst(cont) {
		return false
	}
	if k, ok := constInt(next); !ok || k != 0 {
		return false
	}
	sl, ok := items.(*ssa.Slice)
	if !ok {
		return false
	}
	a, ok := sl.X.(*ssa.Alloc)
	if !ok {
		return false
	}
	arr, ok := deref(a.Type()).Underlying().(*types.Array)
	if !ok || arr.Len() != 1 {
		return false
	}
	for _, r := range refs(a) {
		if ia, ok := r.(*ssa.IndexAddr); ok {
			for _, rr := range refs(ia) {
				if st, ok := rr.(*ssa.Store); ok {
					if mi, ok := st.Val.(*ssa.MakeInterface); ok {
						if call, ok := mi.X.(*ssa.Call); ok && call.Call.StaticCallee() != nil && call.Call.StaticCallee().Name() == "NewFailure" {
							return true
						}
					}
				}
			}
		}
	}
	return false
}

func c10R1(c *Ctx) {
	P := c.P
	h := analyseHarvest(P)
	fname := FuncName(h.fn)
	if h.recCall == nil || h.counter == nil {
		c.bad(fname+"/shape", P.Pos(h.fn.Pos()), fname, "harvestWithEmptyCount no longer recurses with an empty-page counter: the walk over pages is not bounded by it")
		return
	}
	// threshold guard
	var guard *ssa.If
	eachInstr(h.fn, func(_ *ssa.BasicBlock, _ int, in ssa.Instruction) {
		iff, ok := in.(*ssa.If)
		if !ok {
			return
		}
		cmp, ok := iff.Cond.(*ssa.BinOp)
		if !ok || cmp.Op != token.GTR {
			return
		}
		if u, ok := cmp.X.(*ssa.UnOp); ok && resolveCell(u.X) == ssa.Value(h.counter) {
			if k, ok := constInt(cmp.Y); ok && k == 3 {
				guard = iff
			}
		}
	})
	okGuard := guard != nil
	why := "no `emptyCount > 3` test on the counter"
	if okGuard {
		tb := guard.Block().Succs[0]
		if ret, ok := tb.Instrs[len(tb.Instrs)-1].(*ssa.Return); !ok || !failureTriple(ret.Results[0], ret.Results[1], ret.Results[2]) {
			okGuard = false
			why = "exceeding the threshold does not end in one failure item with a nil continuation"
		}
		if h.spawn == nil || !guard.Block().Succs[1].Dominates(h.spawn.Block()) {
			okGuard = false
			why = "the recursion into the next page is not dominated by the false edge of the threshold test"
		}
		// no store to the counter between the guard and the spawn
		if h.spawn != nil {
			for _, st := range storesToAlloc(h.counter) {
				if st.Parent() == h.fn && guard.Block().Succs[1].Dominates(st.Block()) {
					okGuard = false
					why = "the counter is modified after it was tested"
				}
				if st.Parent() != h.fn {
					okGuard = false
					why = "the counter is modified inside a goroutine"
				}
			}
		}
	}
	c.check(okGuard, fname+"/threshold", P.Pos(h.fn.Pos()), fname, "the next page is visited only under !(emptyCount > 3); exceeding it yields one failure item", why)
	// the counter handed on is the tested cell
	arg := h.recCall.Call.Args[len(h.recCall.Call.Args)-1]
	okArg := false
	if u, ok := arg.(*ssa.UnOp); ok && resolveCell(u.X) == ssa.Value(h.counter) {
		okArg = true
	}
	c.check(okArg, fname+"/counter-passed", P.InstrPos(h.recCall), FuncName(h.recFn), "the tested counter is what the next page receives", "the next page does not receive the counter that was tested (e.g. a constant): endless empty chains are not refused")
	// increment only on the empty-page edge
	okInc := h.increment != nil
	whyInc := "the counter is never incremented"
	if okInc {
		okInc = false
		whyInc = "the increment is not guarded by the page being empty"
		for _, f := range factsOf(h.fn).At(h.increment.Block()) {
			cmp, ok := f.Cmp()
			if !ok || cmp.Op != token.EQL {
				continue
			}
			if k, isC := constInt(cmp.Y); isC && k == 0 && isPageLengthLoad(cmp.X) {
				okInc = true
			}
		}
	}
	c.check(okInc, fname+"/increment", P.Pos(h.fn.Pos()), fname, "emptyCount is incremented exactly on the length == 0 edge", whyInc)
	// every empty page increments: the false edge of length == 0 is the only way around the increment (R2 decides what happens there)
	// early returns
	for _, b := range h.fn.Blocks {
		ret, ok := b.Instrs[len(b.Instrs)-1].(*ssa.Return)
		if !ok {
			continue
		}
		if _, isAppend := ret.Results[0].(*ssa.Call); isAppend {
			continue // the final return, see R3
		}
		c.check(failureTriple(ret.Results[0], ret.Results[1], ret.Results[2]), fname+"/early-return", P.InstrPos(ret), fname,
			"a failing page delivers exactly one failure item and ends the walk", "an early return does not deliver exactly one failure item with a nil continuation")
	}
	// recursion is unique
	n := 0
	for _, f := range append([]*ssa.Function{h.fn}, h.closures...) {
		eachInstr(f, func(_ *ssa.BasicBlock, _ int, in ssa.Instruction) {
			if call, ok := in.(*ssa.Call); ok && call.Call.StaticCallee() == h.fn {
				n++
			}
		})
	}
	c.check(n == 1, fname+"/one-recursion", P.Pos(h.fn.Pos()), fname, "exactly one recursive call", fmt.Sprintf("%d recursive calls", n))
}

func c10R2(c *Ctx) {
	P := c.P
	h := analyseHarvest(P)
	fname := FuncName(h.fn)
	if h.recCall == nil || h.counter == nil || h.spawn == nil {
		c.bad(fname+"/shape", P.Pos(h.fn.Pos()), fname, "cannot identify the counter / the recursive spawn")
		return
	}
	paths, complete := enumeratePaths(h.fn, h.spawn.Block(), 5000)
	if !complete || len(paths) == 0 {
		c.bad(fname+"/paths", P.Pos(h.fn.Pos()), fname, "cannot enumerate the paths to the recursive spawn")
		return
	}
	nInc, nReset, nBad := 0, 0, 0
	var badAt string
	for _, pf := range paths {
		var last *ssa.Store
		for _, b := range pf.blocks {
			for _, in := range b.Instrs {
				if st, ok := in.(*ssa.Store); ok && resolveCell(st.Addr) == ssa.Value(h.counter) {
					last = st
				}
			}
		}
		switch {
		case last != nil && last == h.increment:
			nInc++
		case last != nil && isConstVal(last.Val):
			nReset++
		default:
			nBad++
			badAt = describePathLines(P, pf)
		}
	}
	c.check(nInc > 0, fname+"/paths-increment", P.Pos(h.fn.Pos()), fname, fmt.Sprintf("%d path(s) through an empty page increment the counter", nInc), "no path increments the counter")
	c.check(nBad == 0, fname+"/paths-reset", P.Pos(h.fn.Pos()), fname,
		fmt.Sprintf("on all %d path(s) through a non-empty page the counter was last set to a constant", nReset),
		fmt.Sprintf("on %d path(s) that do not pass an empty page the counter handed to the next page still carries the incoming count (branches at lines %s): empty pages that are not consecutive are added up, so a chain like E,E,E,N,E is refused although it never has more than three consecutive empty pages", nBad, badAt))
}

func isConstVal(v ssa.Value) bool {
	_, ok := v.(*ssa.Const)
	return ok
}

func describePathLines(P *Program, pf pathFacts) string {
	var parts []string
	for _, b := range pf.blocks {
		if iff, ok := b.Instrs[len(b.Instrs)-1].(*ssa.If); ok {
			pos := P.InstrPos(iff)
			parts = append(parts, pos[strings.LastIndex(pos, ":")+1:])
		}
	}
	return strings.Join(parts, ",")
}

func c10R3(c *Ctx) {
	P := c.P
	h := analyseHarvest(P)
	fname := FuncName(h.fn)
	cf := P.Field("servitor/pub", "Collection", "construct")
	// the element closure: store into fromThisPage[idx] of construct(c.elements[idx2], c.id)
	found := false
	for _, cl := range h.closures {
		eachInstr(cl, func(_ *ssa.BasicBlock, _ int, in ssa.Instruction) {
			st, ok := in.(*ssa.Store)
			if !ok {
				return
			}
			slot := slotAddrOf(st.Addr)
			if slot == nil {
				return
			}
			call, ok := st.Val.(*ssa.Call)
			if !ok {
				return
			}
			u, ok := call.Call.Value.(*ssa.UnOp)
			if !ok {
				return
			}
			fa, ok := u.X.(*ssa.FieldAddr)
			if !ok || fieldOf(fa) != cf {
				return
			}
			found = true
			var srcIdx ssa.Value
			if lu, ok := call.Call.Args[0].(*ssa.UnOp); ok {
				if sia, ok := lu.X.(*ssa.IndexAddr); ok && strings.Contains(path(sia.X), ".&elements.*") {
					srcIdx = sia.Index
				}
			}
			if srcIdx == nil {
				c.bad(FuncName(cl)+"/slot-source", P.InstrPos(in), FuncName(cl), "the delivered element is not taken from c.elements")
				return
			}
			// source index = slot index + startingPoint (the parameter's cell)
			okD := false
			// the same, read off the linear forms (the source index may have been
			// computed where the goroutine is started and handed in through a variable)
			if len(h.fn.Params) >= 3 {
				d := lin(srcIdx).add(lin(slot.Index), -1).add(lin(h.fn.Params[2]), -1)
				if d.isConst() && d.c == 0 && len(lin(h.fn.Params[2]).coef) == 1 {
					okD = true
				}
			}
			if bo, ok := srcIdx.(*ssa.BinOp); ok && bo.Op == token.ADD {
				x, y := bo.X, bo.Y
				if cellOf(x) == h.start {
					x, y = y, x
				}
				if h.start != nil && cellOf(y) == h.start && lin(x).add(lin(slot.Index), -1).isConst() && lin(x).add(lin(slot.Index), -1).c == 0 {
					okD = true
				}
			}
			c.check(okD, FuncName(cl)+"/slot-source", P.InstrPos(in), FuncName(cl),
				"slot k receives element k+startingPoint (index forms differ exactly by startingPoint)", "slot and source indices do not differ by exactly startingPoint: "+lin(slot.Index).String()+" vs "+lin(srcIdx).String()+" — items are skipped, duplicated or reordered")
		})
	}
	c.check(found, fname+"/element-closure", P.Pos(h.fn.Pos()), fname, "elements are constructed into their slots", "no closure stores construct(c.elements[..]) into the page's result slots")
	// final return: append(fromThisPage, fromLaterPages...)
	for _, b := range h.fn.Blocks {
		ret, ok := b.Instrs[len(b.Instrs)-1].(*ssa.Return)
		if !ok {
			continue
		}
		call, ok := ret.Results[0].(*ssa.Call)
		if !ok {
			continue
		}
		bi, ok := call.Call.Value.(*ssa.Builtin)
		if !ok || bi.Name() != "append" {
			continue
		}
		a0, a1 := cellOf(call.Call.Args[0]), cellOf(call.Call.Args[1])
		// first the slice the element goroutines fill, then the one the recursion fills
		okSlots := a0 != nil && a0 == h.slotCell
		if h.slotMake != nil && call.Call.Args[0] == ssa.Value(h.slotMake) {
			okSlots = true
		}
		c.check(okSlots && a1 != nil && a1 == h.laterCell, fname+"/concat-order", P.InstrPos(ret), fname,
			"result = this page's items followed by the later pages' items", "the result is not this page's items followed by the later pages' items")
	}
	// recursive request: amount - amountFromThisPage, offset 0
	if h.recCall != nil {
		args := h.recCall.Call.Args
		am := lin(args[1])
		okAm := false
		if bo, ok := args[1].(*ssa.BinOp); ok && bo.Op == token.SUB {
			okAm = cellOf(bo.X) != nil && cellOf(bo.X) == h.amount && cellOf(bo.Y) != nil && cellOf(bo.Y) == h.taken
		}
		if !okAm && h.takenLoad != nil && len(h.fn.Params) >= 3 {
			// the same, read off the linear forms (the operands may have gone through copies)
			d := am.add(lin(h.fn.Params[1]), -1).add(lin(h.takenLoad), 1)
			okAm = d.isConst() && d.c == 0 && len(lin(h.takenLoad).coef) == 1 && len(lin(h.fn.Params[1]).coef) == 1
		}
		off, isC := constInt(args[2])
		c.check(okAm && isC && off == 0, FuncName(h.recFn)+"/remainder-request", P.InstrPos(h.recCall), FuncName(h.recFn),
			"the next page is asked for amount-amountFromThisPage items from offset 0", "the next page is not asked for exactly the remaining amount from its first item: "+am.String())
		// receiver of the recursion: the collection built from c.next with this page's id and construct
		recv := args[0]
		okNext := false
		if ex, ok := recv.(*ssa.Extract); ok && ex.Index == 0 {
			if nc, ok := ex.Tuple.(*ssa.Call); ok && nc.Call.StaticCallee() != nil && nc.Call.StaticCallee().Name() == "NewCollection" {
				if strings.HasSuffix(path(nc.Call.Args[0]), ".&next.*") {
					if e, _ := errorResult(nc); e != nil && knownNil(e, h.recCall.Block()) {
						okNext = true
					}
				}
			}
		}
		c.check(okNext, FuncName(h.recFn)+"/next-page", P.InstrPos(h.recCall), FuncName(h.recFn), "the walk continues with the collection named by c.next (error checked)", "the walk does not continue with the checked collection built from c.next")
	}
}

func c10R4(c *Ctx) {
	P := c.P
	h := analyseHarvest(P)
	if h.recFn == nil {
		c.bad(FuncName(h.fn)+"/shape", P.Pos(h.fn.Pos()), FuncName(h.fn), "no recursion found")
		return
	}
	cl := h.recFn
	cname := FuncName(cl)
	// stores into the continuation cell
	n := 0
	eachInstr(cl, func(b *ssa.BasicBlock, _ int, in ssa.Instruction) {
		st, ok := in.(*ssa.Store)
		if !ok {
			return
		}
		cell, ok := resolveCell(st.Addr).(*ssa.Alloc)
		if !ok || h.contCell == nil || cell != h.contCell {
			return
		}
		n++
		pos := P.InstrPos(in)
		switch v := st.Val.(type) {
		case *ssa.Const:
			// the walk ends: only where the document has no following page (the key is
			// absent) or a failure item is delivered in this very step — not because
			// of anything else the document says about itself (seed C10-2r8: `totalItems`
			// already reached; a stale count silently drops the later pages)
			okEnd := false
			for _, f := range factsOf(cl).At(b) {
				if e, sentinel, truth, ok := f.ErrorsIs(); ok && truth && strings.HasSuffix(path(e), ".&nextErr.*") {
					if u, ok := sentinel.(*ssa.UnOp); ok {
						if g, ok := u.X.(*ssa.Global); ok && g.Name() == "ErrKeyNotPresent" {
							okEnd = true
						}
					}
				}
			}
			if !okEnd && h.laterCell != nil {
				for _, in2 := range b.Instrs {
					if st2, ok := in2.(*ssa.Store); ok {
						if cell2, ok := resolveCell(st2.Addr).(*ssa.Alloc); ok && cell2 == h.laterCell && failureTriple(st2.Val, v, ssa.NewConst(constant.MakeInt64(0), types.Typ[types.Uint])) {
							okEnd = true
						}
					}
				}
			}
			c.check(okEnd, cname+"/continuation:nil", pos, cname, "the walk ends here: no following page, or a failure item is delivered", "the walk is ended (nil continuation) on a path that neither knows the following page to be absent nor delivers a failure item: pages that exist are never asked for")
			// … and, where it ends because there is no following page, only once this page has
			// nothing left beyond the request: length > amount+startingPoint has been tested and is false
			failing := false
			if h.laterCell != nil {
				for _, in2 := range b.Instrs {
					if st2, ok := in2.(*ssa.Store); ok {
						if cell2, ok := resolveCell(st2.Addr).(*ssa.Alloc); ok && cell2 == h.laterCell && failureTriple(st2.Val, v, ssa.NewConst(constant.MakeInt64(0), types.Typ[types.Uint])) {
							failing = true
						}
					}
				}
			}
			if okEnd && !failing {
				exhausted := false
				for _, f := range factsOf(cl).At(b) {
					cmp, ok := f.Cmp()
					if !ok || cmp.Op != token.LEQ || !isPageLengthLoad(cmp.X) {
						continue
					}
					if bo, ok := cmp.Y.(*ssa.BinOp); ok && bo.Op == token.ADD {
						if (cellOf(bo.X) == h.amount && cellOf(bo.Y) == h.start) || (cellOf(bo.X) == h.start && cellOf(bo.Y) == h.amount) {
							exhausted = h.amount != nil && h.start != nil
						}
					}
					if !exhausted && isSumOfCells(cmp.Y, h.amount, h.start) {
						exhausted = true
					}
				}
				c.check(exhausted, cname+"/continuation:nil-after-page", pos, cname, "the walk ends only where this page has nothing beyond the request (length <= amount+startingPoint is known)",
					"the walk is ended because there is no following page although this page is not known to be used up (length > amount+startingPoint was not tested before): the rest of a last page that holds more than was asked for is never delivered")
			}
		case *ssa.MakeInterface:
			// the page itself: only when it still has items beyond this request
			isSelf := unwrapLoad(v.X) == ssa.Value(h.fn.Params[0])
			okF := false
			for _, f := range factsOf(cl).At(b) {
				cmp, ok := f.Cmp()
				if !ok || cmp.Op != token.GTR {
					continue
				}
				// length > amount + startingPoint
				if !isPageLengthLoad(cmp.X) {
					continue
				}
				if bo, ok := cmp.Y.(*ssa.BinOp); ok && bo.Op == token.ADD {
					if (cellOf(bo.X) == h.amount && cellOf(bo.Y) == h.start) || (cellOf(bo.X) == h.start && cellOf(bo.Y) == h.amount) {
						okF = h.amount != nil && h.start != nil
					}
				}
				// or a local that holds amount+startingPoint (hoisted sub-expression)
				if !okF && isSumOfCells(cmp.Y, h.amount, h.start) {
					okF = true
				}
			}
			// the next offset stored alongside
			okOff := false
			for _, in2 := range b.Instrs {
				if st2, ok := in2.(*ssa.Store); ok {
					if cell2, ok := resolveCell(st2.Addr).(*ssa.Alloc); ok && h.offCell != nil && cell2 == h.offCell {
						if bo, ok := st2.Val.(*ssa.BinOp); ok && bo.Op == token.ADD {
							if (cellOf(bo.X) == h.amount && cellOf(bo.Y) == h.start) || (cellOf(bo.X) == h.start && cellOf(bo.Y) == h.amount) {
								okOff = h.amount != nil && h.start != nil
							}
						}
						if !okOff && isSumOfCells(st2.Val, h.amount, h.start) {
							okOff = true
						}
					}
				}
			}
			c.check(isSelf && okF && okOff, cname+"/continuation:self", pos, cname,
				"the page names itself as continuation only under length > amount+startingPoint, resuming at amount+startingPoint", "the page names itself as continuation without the length > amount+startingPoint guard, or with a wrong resume offset: items are repeated or skipped on the next request")
		case *ssa.Extract:
			okFwd := v.Tuple == ssa.Value(h.recCall) && v.Index == 1
			c.check(okFwd, cname+"/continuation:forward", pos, cname, "forwards the deeper page's continuation", "the continuation is not the one reported by the deeper page")
		default:
			c.bad(cname+"/continuation:other", pos, cname, "continuation of unknown origin")
		}
	})
	c.check(n >= 3, cname+"/continuation-cases", P.Pos(cl.Pos()), cname, fmt.Sprintf("%d continuation assignments analysed", n), "continuation assignments not found")
}

// cellOf: the local variable (cell) a value is loaded from, nil otherwise.
func cellOf(v ssa.Value) *ssa.Alloc {
	v = unwrapField(v)
	if u, ok := v.(*ssa.UnOp); ok && u.Op == token.MUL {
		if a, ok := resolveCell(u.X).(*ssa.Alloc); ok {
			return a
		}
	}
	return nil
}

// c10R5: which link of a document names the page that follows depends on what
// the document is. A (Ordered)Collection is continued by its `first` page, a
// (Ordered)CollectionPage by its `next` page. Pages inherit `first` from the
// collection they belong to, so a page that falls back to `first` when it has
// no `next` sends the walk back to page one (every item again, for ever); a
// collection that reads `next` never reaches its pages. On every path to a
// store of the continuation link, the key that is read must agree with the
// kind tests passed on that path.
func c10R5(c *Ctx) {
	P := c.P
	ctor := P.Func("servitor/pub", "NewCollectionFromObject")
	fname := FuncName(ctor)
	nextField := P.Field("servitor/pub", "Collection", "next")
	kindField := P.Field("servitor/pub", "Collection", "kind")
	isKindRead := func(v ssa.Value) bool {
		v = unwrapLoad(v)
		if u, ok := v.(*ssa.UnOp); ok && u.Op == token.MUL {
			if fa, ok := u.X.(*ssa.FieldAddr); ok && fieldOf(fa) == kindField {
				return true
			}
		}
		// or the value that was stored into kind
		for _, fn := range append([]*ssa.Function{ctor}, Closures(ctor)...) {
			found := false
			eachInstr(fn, func(_ *ssa.BasicBlock, _ int, in ssa.Instruction) {
				if st, ok := in.(*ssa.Store); ok {
					if fa, ok := st.Addr.(*ssa.FieldAddr); ok && fieldOf(fa) == kindField && st.Val == v {
						found = true
					}
				}
			})
			if found {
				return true
			}
		}
		return false
	}
	n := 0
	for _, fn := range append([]*ssa.Function{ctor}, Closures(ctor)...) {
		eachInstr(fn, func(b *ssa.BasicBlock, _ int, in ssa.Instruction) {
			st, ok := in.(*ssa.Store)
			if !ok {
				return
			}
			fa, ok := st.Addr.(*ssa.FieldAddr)
			if !ok || fieldOf(fa) != nextField {
				return
			}
			n++
			pos := P.InstrPos(in)
			key := ""
			// where the key is chosen first and read afterwards (`key := "next"; if root { key =
			// "first" }; o.GetAny(key)`, or a helper `kind.nextKey()` inlined), each choice
			// is judged on the paths to the edge that brings it in
			type keyAt struct {
				key string
				at  *ssa.BasicBlock
			}
			var chosen []keyAt
			if ex, ok := unwrapLoad(st.Val).(*ssa.Extract); ok {
				if call, ok := ex.Tuple.(*ssa.Call); ok && len(call.Call.Args) >= 2 {
					kv := unwrapLoad(call.Call.Args[len(call.Call.Args)-1])
					key, _ = constString(kv)
					if ph, isPhi := kv.(*ssa.Phi); isPhi {
						okPhi := true
						for i, e := range ph.Edges {
							k, isC := constString(unwrapLoad(e))
							if !isC || (k != "first" && k != "next") {
								okPhi = false
							}
							chosen = append(chosen, keyAt{k, ph.Block().Preds[i]})
						}
						if !okPhi {
							chosen = nil
						}
					}
				}
			}
			if len(chosen) > 0 {
				for _, ch := range chosen {
					why := followingKeyOnPaths(fn, ch.at, ch.key, isKindRead)
					c.check(why == "", fname+"/following-page:"+ch.key, pos, fname, "\""+ch.key+"\" is read exactly for the kinds it continues", why)
				}
				return
			}
			if key != "first" && key != "next" {
				// table-driven: the key is a field of the entry that a package-level table
				// holds for the kind; then the table must say first for the two root kinds
				// and next for the two page kinds, and for nothing else
				if ok, why := followingKeyByTable(unwrapLoad(st.Val), isKindRead); ok {
					c.ok(fname+"/following-page:table", pos, fname, "the key of the following page is looked up by kind in a table that says first for collections and next for pages")
					return
				} else if why != "" {
					c.bad(fname+"/following-page", pos, fname, "the table that gives the key of the following page by kind is wrong: "+why)
					return
				}
				c.bad(fname+"/following-page", pos, fname, "the continuation link is not read from the document's \"first\" or \"next\" key")
				return
			}
			why := followingKeyOnPaths(fn, b, key, isKindRead)
			c.check(why == "", fname+"/following-page:"+key, pos, fname, "\""+key+"\" is read exactly for the kinds it continues", why)
		})
	}
	c.check(n >= 1, fname+"/following-page-stores", P.Pos(ctor.Pos()), fname, fmt.Sprintf("%d stores of the continuation link", n), "the constructor no longer records the following page")
}

// c10R6: the answer to "the next n items from offset k" must not depend on what
// was asked before: Harvest and everything it calls write nothing that is
// reachable from the collection (a remembered answer, a cursor, a counter) and
// no package-level state. Writes to memory allocated by the call itself are
// fine.
func c10R6(c *Ctx) {
	P := c.P
	E := NewEffects(P)
	for _, name := range []string{"Harvest", "harvestWithEmptyCount"} {
		h := P.MethodOpt("servitor/pub", "Collection", name)
		if h == nil {
			continue
		}
		var bad []string
		for r, pos := range E.Writes(h) {
			if strings.HasPrefix(r, "param:0") || strings.HasPrefix(r, "global:") {
				bad = append(bad, r+" at "+pos)
			}
		}
		sort.Strings(bad)
		c.check(len(bad) == 0, FuncName(h)+"/collection-readonly", P.Pos(h.Pos()), FuncName(h),
			"harvesting writes only memory of its own", "harvesting writes through the collection or to package-level state ("+strings.Join(bad, "; ")+"): what a request returns then depends on the requests made before it (items skipped, repeated, or the chain ended early)")
	}
}

// isSumOfCells: v is, as a linear form, the sum of the values of the two
// single-assignment locals a and b (for instance a local `resumeAt := amount +
// startingPoint`, possibly captured by a closure).
func isSumOfCells(v ssa.Value, a, b *ssa.Alloc) bool {
	if a == nil || b == nil {
		return false
	}
	val := func(c *ssa.Alloc) (linForm, bool) {
		sts := storesToAlloc(c)
		if len(sts) != 1 {
			return linForm{}, false
		}
		return lin(sts[0].Val), true
	}
	fa, ok1 := val(a)
	fb, ok2 := val(b)
	if !ok1 || !ok2 {
		return false
	}
	want := fa.add(fb, 1)
	got := lin(v)
	return got.String() == want.String()
}

// followingKeyByTable: v is result #0 of an accessor call whose key argument
// is field F of the entry found for the collection's kind in a package-level
// map literal; the literal maps Collection / OrderedCollection to an entry
// with F = "first", the two page kinds to F = "next", and has no other keys.
func followingKeyByTable(v ssa.Value, isKindRead func(ssa.Value) bool) (bool, string) {
	ex, ok := v.(*ssa.Extract)
	if !ok {
		return false, ""
	}
	call, ok := ex.Tuple.(*ssa.Call)
	if !ok || len(call.Call.Args) < 2 {
		return false, ""
	}
	keyArg := call.Call.Args[len(call.Call.Args)-1]
	// layout.nextKey: a Field of the looked-up struct, or a load of a FieldAddr of a local copy of it
	var fld *types.Var
	var entry ssa.Value
	switch x := keyArg.(type) {
	case *ssa.Field:
		fld, entry = fieldVarOfField(x), x.X
	case *ssa.UnOp:
		if fa, ok := x.X.(*ssa.FieldAddr); ok && x.Op == token.MUL {
			fld = fieldOf(fa)
			if al, ok := fa.X.(*ssa.Alloc); ok {
				if sts := storesToAlloc(al); len(sts) == 1 {
					entry = sts[0].Val
				}
			}
		}
	}
	if fld == nil || entry == nil {
		return false, ""
	}
	if e2, ok := entry.(*ssa.Extract); ok && e2.Index == 0 {
		entry = e2.Tuple
	}
	lk, ok := entry.(*ssa.Lookup)
	if !ok || !isKindRead(lk.Index) {
		return false, ""
	}
	ld, ok := lk.X.(*ssa.UnOp)
	if !ok || ld.Op != token.MUL {
		return false, ""
	}
	g, ok := ld.X.(*ssa.Global)
	if !ok || g.Pkg == nil {
		return false, ""
	}
	// the literal
	got := map[string]string{}
	var mk *ssa.MakeMap
	bad := ""
	for _, m := range g.Pkg.Members {
		f, ok := m.(*ssa.Function)
		if !ok {
			continue
		}
		for _, ff := range append([]*ssa.Function{f}, f.AnonFuncs...) {
			eachInstr(ff, func(_ *ssa.BasicBlock, _ int, in ssa.Instruction) {
				switch x := in.(type) {
				case *ssa.Store:
					if x.Addr == ssa.Value(g) {
						if m2, ok := x.Val.(*ssa.MakeMap); ok && mk == nil && ff.Name() == "init" {
							mk = m2
						} else {
							bad = "the table is assigned more than once"
						}
					}
				case *ssa.MapUpdate:
					if l2, ok := x.Map.(*ssa.UnOp); ok && l2.Op == token.MUL && l2.X == ssa.Value(g) {
						bad = "the table is updated after it was made"
					}
				}
			})
		}
	}
	if mk == nil || bad != "" {
		if bad == "" {
			bad = "the table is not a map literal"
		}
		return false, bad
	}
	for _, r := range refs(mk) {
		mu, ok := r.(*ssa.MapUpdate)
		if !ok {
			continue
		}
		k, isC := constString(mu.Key)
		if !isC {
			return false, "a key of the table is not a constant"
		}
		val := ""
		if l3, ok := mu.Value.(*ssa.UnOp); ok && l3.Op == token.MUL {
			if al, ok := l3.X.(*ssa.Alloc); ok {
				for _, rr := range refs(al) {
					if fa, ok := rr.(*ssa.FieldAddr); ok && fieldOf(fa) == fld {
						for _, r3 := range refs(fa) {
							if st, ok := r3.(*ssa.Store); ok && st.Addr == ssa.Value(fa) {
								val, _ = constString(st.Val)
							}
						}
					}
				}
			}
		}
		got[k] = val
	}
	want := map[string]string{"Collection": "first", "OrderedCollection": "first", "CollectionPage": "next", "OrderedCollectionPage": "next"}
	for k, w := range want {
		if got[k] != w {
			return false, fmt.Sprintf("kind %s reads its following page from %q, expected %q", k, got[k], w)
		}
	}
	for k := range got {
		if _, ok := want[k]; !ok {
			return false, "the table has an entry for " + k + ", which is not a kind of collection"
		}
	}
	return true, ""
}

func fieldVarOfField(f *ssa.Field) *types.Var {
	st, ok := f.X.Type().Underlying().(*types.Struct)
	if !ok || f.Field >= st.NumFields() {
		return nil
	}
	return st.Field(f.Field)
}

// followingKeyOnPaths: on every path to block b the kind tests passed agree
// with reading `key` ("first" for the two root kinds, "next" for the pages).
func followingKeyOnPaths(fn *ssa.Function, b *ssa.BasicBlock, key string, isKindRead func(ssa.Value) bool) string {
	paths, complete := enumeratePaths(fn, b, 4096)
	if !complete {
		return "too many paths to decide"
	}
	why := ""
	for _, pf := range paths {
		isRoot, notRoot := false, map[string]bool{}
		for _, f := range pf.facts {
			cmp, ok := f.Cond.(*ssa.BinOp)
			if !ok || (cmp.Op != token.EQL && cmp.Op != token.NEQ) {
				continue
			}
			var other ssa.Value
			switch {
			case isKindRead(cmp.X):
				other = cmp.Y
			case isKindRead(cmp.Y):
				other = cmp.X
			default:
				continue
			}
			s, isC := constString(other)
			if !isC {
				continue
			}
			equal := (cmp.Op == token.EQL) == f.Truth
			if s == "Collection" || s == "OrderedCollection" {
				if equal {
					isRoot = true
				} else {
					notRoot[s] = true
				}
			}
			if (s == "CollectionPage" || s == "OrderedCollectionPage") && equal {
				notRoot["Collection"], notRoot["OrderedCollection"] = true, true
			}
		}
		if key == "first" && !isRoot {
			why = "\"first\" is read on a path where the document is not known to be a Collection/OrderedCollection: pages inherit \"first\", so the last page leads back to the first one and every item is delivered again, without end"
		}
		if key == "next" && !(notRoot["Collection"] && notRoot["OrderedCollection"]) {
			why = "\"next\" is read on a path where the document may be a Collection/OrderedCollection, whose pages start at \"first\": the pages of the collection are never visited"
		}
	}
	return why
}

// c10R9: `first`, `next` and the items of a collection can be given as a URL,
// as the object itself, or as a reference object that carries nothing but its
// id and its type. client.FetchUnknown tells the last two apart by size: an
// identified object of at most two keys is refetched. If the bound were lower,
// a {id, type} page would be taken for a page without items and without a
// successor — paging would end there, silently. Decided: FetchUnknown compares
// the length of the object with a constant in a test whose true side reaches
// the FetchURL call, and the test holds for lengths 1 and 2.
func c10R9(c *Ctx) {
	P := c.P
	fn := P.Func("servitor/client", "FetchUnknown")
	fname := FuncName(fn)
	found := false
	eachInstr(fn, func(b *ssa.BasicBlock, _ int, in ssa.Instruction) {
		iff, ok := in.(*ssa.If)
		if !ok {
			return
		}
		cmp, ok := iff.Cond.(*ssa.BinOp)
		if !ok {
			return
		}
		lc, ok := cmp.X.(*ssa.Call)
		if !ok {
			return
		}
		bi, ok := lc.Call.Value.(*ssa.Builtin)
		if !ok || bi.Name() != "len" {
			return
		}
		if _, isMap := lc.Call.Args[0].Type().Underlying().(*types.Map); !isMap {
			return
		}
		k, isK := constInt(cmp.Y)
		if !isK {
			return
		}
		// reaches the refetch on the true side
		reaches := false
		seen := map[*ssa.BasicBlock]bool{}
		work := []*ssa.BasicBlock{b.Succs[0]}
		for len(work) > 0 && !reaches {
			x := work[len(work)-1]
			work = work[:len(work)-1]
			if seen[x] || x == b.Succs[1] {
				continue
			}
			seen[x] = true
			for _, xi := range x.Instrs {
				if call, ok := xi.(*ssa.Call); ok {
					if sc := call.Call.StaticCallee(); sc != nil && sc.Name() == "FetchURL" {
						reaches = true
					}
				}
			}
			if len(seen) < 4 {
				work = append(work, x.Succs...)
			}
		}
		if !reaches {
			return
		}
		found = true
		holds := func(n int64) bool {
			switch cmp.Op {
			case token.LEQ:
				return n <= k
			case token.LSS:
				return n < k
			case token.EQL:
				return n == k
			case token.NEQ:
				return n != k
			case token.GEQ:
				return n >= k
			case token.GTR:
				return n > k
			}
			return false
		}
		c.check(holds(1) && holds(2), fname+"/stub-size", P.InstrPos(in), fname, "identified objects of one or two keys are refetched",
			fmt.Sprintf("an identified object of two keys ({id, type}: a reference to a page or an item) is not refetched (the size test is len %s %d): it is taken for the object itself, a page without items and without successor, and paging ends there without an error", cmp.Op, k))
	})
	if !found {
		c.bad(fname+"/stub-size", P.Pos(fn.Pos()), fname, "FetchUnknown no longer tells a reference object from the object itself by its size before refetching")
	}
}

// c10R10: paging is repeatable — the same continuation asked again (the
// splicer keeps page pointers, jtp's cache hands out the same decoded document)
// yields the same items. The methods of Collection therefore only read the
// page: no store into an element of c.elements and no other store to the field
// outside the constructor.
func c10R10(c *Ctx) {
	P := c.P
	ms := methodsOfType(P, "servitor/pub", "Collection")
	n := 0
	var names []string
	for name := range ms {
		names = append(names, name)
	}
	sortStrings(names)
	for _, name := range names {
		fns := []*ssa.Function{ms[name]}
		fns = append(fns, ms[name].AnonFuncs...)
		for _, fn := range fns {
			fname := FuncName(fn)
			eachInstr(fn, func(_ *ssa.BasicBlock, _ int, in ssa.Instruction) {
				st, ok := in.(*ssa.Store)
				if !ok {
					return
				}
				target := ""
				switch a := st.Addr.(type) {
				case *ssa.IndexAddr:
					if ld, ok := unwrapLoad(a.X).(*ssa.UnOp); ok {
						if fa, ok := ld.X.(*ssa.FieldAddr); ok && fieldOf(fa).Name() == "elements" && isNamed(fa.X.Type(), "servitor/pub", "Collection") {
							target = "an element of c.elements"
						}
					}
				case *ssa.FieldAddr:
					if fieldOf(a).Name() == "elements" && isNamed(a.X.Type(), "servitor/pub", "Collection") {
						target = "c.elements"
					}
				}
				if target == "" {
					return
				}
				n++
				c.bad(fname+"/page-modified", P.InstrPos(in), fname, "a method of Collection stores into "+target+": the page is not the same the next time it is read (the decoded document is shared with the response cache), so asking for the same items again gives something else")
			})
		}
	}
	if n == 0 {
		c.ok("servitor/pub.Collection/read-only", "pub/collection.go", "servitor/pub.Collection", fmt.Sprintf("%d methods of Collection, none stores into the elements", len(names)))
	}
}
